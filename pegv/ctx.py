"""Analysis context: crates by role, generated-parser instances, body cache."""
import os
import re

from . import facts, mir


class Instance:
    """One generated parser module (`…::peginator_generated`)."""

    def __init__(self, crate, prefix):
        self.crate = crate
        self.prefix = prefix                 # path of the peginator_generated module
        self.outer = prefix.rsplit("::", 1)[0]   # module holding the public types
        self.fns = {p: f for p, f in crate.fns.items() if p.startswith(prefix + "::")}
        self.name = self._name()
        self.rule_fns = {}                   # rule name -> path of parse_<Rule>
        for p, f in self.fns.items():
            rest = p[len(prefix) + 2:]
            if "::" in rest or f["kind"] != "Fn":
                continue
            if rest.startswith("parse_"):
                self.rule_fns[rest[len("parse_"):]] = p

    def _name(self):
        segs = self.prefix.split("::")
        # peginator_test::<dir>::grammar::peginator_generated -> test:<dir>
        if segs[0] == "peginator_test" and len(segs) >= 3:
            return "test:" + segs[1]
        if segs[0] == "peginator_codegen":
            return "bootstrap"
        if segs[0] == "verif_corpus":
            return "corpus:" + "::".join(segs[2:-1] if segs[1] == "gen" else segs[1:-1])
        if segs[0] == "verif_corpus_rand":
            return "rand:" + "::".join(segs[2:-1] if segs[1] == "gen" else segs[1:-1])
        return segs[0] + ":" + "::".join(segs[1:-1])

    def owns_impl(self, path):
        """`crate::<outer::Type as Trait>::method` belongs to this instance's public types."""
        q = mir.qself(path)
        if not q:
            return False
        rel = self.outer.split("::", 1)[1] + "::" if "::" in self.outer else ""
        st = q[0]
        return st.startswith(rel) and "::" not in st[len(rel):].split("<")[0]

    def wrapper_closure(self, rule):
        return self.fns.get(self.rule_fns[rule] + "::{closure#0}")

    def closures_of(self, path):
        """All (transitively nested) closures of function `path`."""
        return {p: f for p, f in self.fns.items() if p.startswith(path + "::{closure#")}

    def __repr__(self):
        return "<Instance %s %d rules>" % (self.name, len(self.rule_fns))


class Ctx:
    def __init__(self, tier):
        self.tier = tier
        self.dir = facts.extract(tier)
        self.F = facts.Facts(self.dir)
        self._bodies = {}
        self.runtime = self.F.crate("peginator")
        self.codegen = self.F.crate("peginator_codegen")
        self.cli = self.F.crate("peginator_cli")
        self.macro = self.F.crate("peginator_macro")
        self.testcrate = self.F.crate("peginator_test", test=True)
        self.macrotest = self.F.crate("simple", test=True)
        self.corpus = self.F.crate("verif_corpus")
        self.corpus_rand = self.F.crate("verif_corpus_rand")
        self.runtime_nodefault = self.F.crate("peginator", nodefault=True)
        self._instances = None
        ce = os.path.join(self.dir, "CORPUS_ERROR")
        self.corpus_error = open(ce).read() if os.path.exists(ce) else None
        re_ = os.path.join(self.dir, "RAND_ERROR")
        self.rand_error = open(re_).read() if os.path.exists(re_) else None
        rr = os.path.join(self.dir, "rand_gen", "REJECTED.txt")
        self.rand_rejected = [l.split("|", 2) for l in open(rr).read().splitlines() if l.strip()] if os.path.exists(rr) else []
        def _lines(nm):
            q = os.path.join(self.dir, "corpus_gen", nm)
            return [l.split("|", 2) for l in open(q).read().splitlines() if l.strip()] if os.path.exists(q) else None
        self.must_reject_accepted = _lines("MUST_REJECT_ACCEPTED.txt")
        self.must_reject_refused = _lines("MUST_REJECT_REFUSED.txt")
        rj = os.path.join(self.dir, "corpus_gen", "REJECTED.txt")
        self.corpus_rejected = [l.split("|", 2) for l in open(rj).read().splitlines() if l.strip()] if os.path.exists(rj) else []

    def body(self, crate, path):
        key = (crate.file, path)
        b = self._bodies.get(key)
        if b is None:
            f = crate.fns[path]
            if "mir" not in f:
                return None
            b = mir.Body(f, crate)
            self._bodies[key] = b
        return b

    def bodies(self, crate, pred=None):
        for p, f in crate.fns.items():
            if "mir" not in f:
                continue
            if pred and not pred(p, f):
                continue
            yield self.body(crate, p)

    def instances(self):
        if self._instances is None:
            out = []
            for c in [self.testcrate, self.codegen, self.macrotest, self.corpus, self.corpus_rand]:
                if c is None:
                    continue
                prefixes = set()
                for a in c.adts:
                    if a.endswith("::peginator_generated::ParseCache"):
                        prefixes.add(a[: -len("::ParseCache")])
                for p in sorted(prefixes):
                    out.append(Instance(c, p))
            self._instances = out
        return self._instances

    def grammar_of(self, inst):
        """The grammar text an instance was generated from, read with the independent ebnf reader."""
        from . import ebnf
        cache = self.__dict__.setdefault("_grammars", {})
        if inst.name in cache:
            return cache[inst.name]
        g = None
        try:
            if inst.name.startswith("test:"):
                d = inst.name[5:]
                for ext in ("grammar.ebnf", "grammar.not_ebnf"):
                    f = self.repo_file(os.path.join("test", "src", d, ext))
                    if os.path.exists(f):
                        g = ebnf.parse_file(f)
                        g.path = f
                        break
            elif inst.name == "bootstrap":
                f = self.repo_file("grammar.ebnf")
                g = ebnf.parse_file(f)
                g.path = f
            elif inst.name.startswith("corpus:"):
                mod = inst.name[7:]
                lst = os.path.join(self.dir, "corpus_grammars", "corpus.txt")
                for line in open(lst):
                    p = line.strip().split("|")
                    if p[0] == mod:
                        f = os.path.join(self.dir, "corpus_grammars", p[1])
                        g = ebnf.parse_file(f)
                        g.path = f
                        g.settings = {"derives": [x for x in p[2].split(",") if x], "user_context": p[3]}
            elif inst.name.startswith("rand:"):
                f = os.path.join(self.dir, "rand_grammars", inst.name[5:] + ".ebnf")
                g = ebnf.parse_file(f)
                g.path = f
            elif inst.crate.name == "simple":
                import re as _re
                src = self.read_repo("macro/tests/simple.rs")
                m = _re.search(r'peginate!\(\s*"((?:[^"\\\\]|\\\\.)*)"', src)
                if m:
                    text = bytes(m.group(1), "utf-8").decode("unicode_escape")
                    g = ebnf.parse(text)
                    g.path = "macro/tests/simple.rs"
        except Exception as e:   # unreadable grammar: the oracle is unavailable for this instance
            g = None
            cache[inst.name + "!err"] = str(e)
        cache[inst.name] = g
        return g

    def repo_file(self, rel):
        return os.path.join(facts.REPO, rel)

    def read_repo(self, rel):
        with open(self.repo_file(rel)) as f:
            return f.read()

    def find_fn(self, crate, suffix):
        """Unique function whose path (generics stripped) ends with suffix."""
        hits = [p for p in crate.fns if mir.strip_generics(p).endswith(suffix)]
        return hits

    def site(self, body, bb=None):
        if bb is None:
            return "%s:%d" % (body.file, body.line)
        sp = body.blocks[bb]["span"]
        return "%s:%d" % (sp["file"], sp["line"])
