"""Analysis context: crates by role, generated-parser instances, body cache."""
import os
import re

from . import facts, mir


class Instance:
    """One generated parser module (`…::peginator_generated`)."""

    def __init__(self, crate, prefix):
        self.crate = crate
        self.prefix = prefix                 # path of the peginator_generated module
        self.outer = prefix.rsplit("::", 1)[0]   # module holding the public types
        self.fns = {p: f for p, f in crate.fns.items() if p.startswith(prefix + "::")}
        self.name = self._name()
        self.rule_fns = {}                   # rule name -> path of parse_<Rule>
        for p, f in self.fns.items():
            rest = p[len(prefix) + 2:]
            if "::" in rest or f["kind"] != "Fn":
                continue
            if rest.startswith("parse_"):
                self.rule_fns[rest[len("parse_"):]] = p

    def _name(self):
        segs = self.prefix.split("::")
        # peginator_test::<dir>::grammar::peginator_generated -> test:<dir>
        if segs[0] == "peginator_test" and len(segs) >= 3:
            return "test:" + segs[1]
        if segs[0] == "peginator_codegen":
            return "bootstrap"
        if segs[0] == "verif_corpus":
            return "corpus:" + "::".join(segs[1:-1])
        return segs[0] + ":" + "::".join(segs[1:-1])

    def owns_impl(self, path):
        """`crate::<outer::Type as Trait>::method` belongs to this instance's public types."""
        q = mir.qself(path)
        if not q:
            return False
        rel = self.outer.split("::", 1)[1] + "::" if "::" in self.outer else ""
        st = q[0]
        return st.startswith(rel) and "::" not in st[len(rel):].split("<")[0]

    def wrapper_closure(self, rule):
        return self.fns.get(self.rule_fns[rule] + "::{closure#0}")

    def closures_of(self, path):
        """All (transitively nested) closures of function `path`."""
        return {p: f for p, f in self.fns.items() if p.startswith(path + "::{closure#")}

    def __repr__(self):
        return "<Instance %s %d rules>" % (self.name, len(self.rule_fns))


class Ctx:
    def __init__(self, tier):
        self.tier = tier
        self.dir = facts.extract(tier)
        self.F = facts.Facts(self.dir)
        self._bodies = {}
        self.runtime = self.F.crate("peginator")
        self.codegen = self.F.crate("peginator_codegen")
        self.cli = self.F.crate("peginator_cli")
        self.macro = self.F.crate("peginator_macro")
        self.testcrate = self.F.crate("peginator_test", test=True)
        self.macrotest = self.F.crate("simple", test=True)
        self.corpus = self.F.crate("verif_corpus")
        self.runtime_nodefault = self.F.crate("peginator", nodefault=True)
        self._instances = None

    def body(self, crate, path):
        key = (crate.file, path)
        b = self._bodies.get(key)
        if b is None:
            f = crate.fns[path]
            if "mir" not in f:
                return None
            b = mir.Body(f, crate)
            self._bodies[key] = b
        return b

    def bodies(self, crate, pred=None):
        for p, f in crate.fns.items():
            if "mir" not in f:
                continue
            if pred and not pred(p, f):
                continue
            yield self.body(crate, p)

    def instances(self):
        if self._instances is None:
            out = []
            for c in [self.testcrate, self.codegen, self.macrotest, self.corpus]:
                if c is None:
                    continue
                prefixes = set()
                for a in c.adts:
                    if a.endswith("::peginator_generated::ParseCache"):
                        prefixes.add(a[: -len("::ParseCache")])
                for p in sorted(prefixes):
                    out.append(Instance(c, p))
            self._instances = out
        return self._instances

    def repo_file(self, rel):
        return os.path.join(facts.REPO, rel)

    def read_repo(self, rel):
        with open(self.repo_file(rel)) as f:
            return f.read()

    def find_fn(self, crate, suffix):
        """Unique function whose path (generics stripped) ends with suffix."""
        hits = [p for p in crate.fns if mir.strip_generics(p).endswith(suffix)]
        return hits

    def site(self, body, bb=None):
        if bb is None:
            return "%s:%d" % (body.file, body.line)
        sp = body.blocks[bb]["span"]
        return "%s:%d" % (sp["file"], sp["line"])
