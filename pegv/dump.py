"""Developer tool: pretty-print extracted MIR.  python3 -m pegv.dump CRATE SUBSTR [--test] [--expr]"""
import sys
from . import facts, mir

def main():
    args = [a for a in sys.argv[1:] if not a.startswith("--")]
    tier = "thorough" if "--thorough" in sys.argv else "quick"
    d = facts.extract(tier)
    F = facts.Facts(d)
    if not args:
        for c in F.crates:
            print(c, c.file)
        return
    c = F.crate(args[0], test=True if "--test" in sys.argv else None)
    for p, f in c.fns.items():
        if len(args) > 1 and args[1] not in p:
            continue
        if "mir" not in f:
            print("decl", p)
            continue
        b = mir.Body(f, c)
        print(b.pretty())
        if "--expr" in sys.argv:
            for r in b.returns:
                print("  return bb%d" % r)
            print("  _0 =", [mir.show(b.expr_rv(x[3]) if x[2]=="rv" else b.expr_call(x[3])) for x in b.defs.get(0, [])])
        print()

main()
