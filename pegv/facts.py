"""Fact acquisition: hash /repo's working tree, run the pegmir driver over a
scratch copy (cargo +nightly check, never build/test/run of analysed code),
cache the JSON fact files under /verif/.cache, load and index them.

Nothing under /tmp survives a call; nothing under /tmp is needed later.
"""
import fcntl
import glob
import hashlib
import json
import os
import shutil
import subprocess
import sys
import tempfile
import time

VERIF = os.path.dirname(os.path.dirname(os.path.abspath(__file__)))
REPO = os.environ.get("PEGV_REPO", "/repo")
CACHE = os.environ.get("PEGV_CACHE", os.path.join(VERIF, ".cache"))
DRIVER = os.path.join(VERIF, "engine", "pegmir", "target", "release", "pegmir")

EXCLUDE_DIRS = {".git", "target", ".idea"}


def _is_generated(rel):
    # test/src/**/grammar.rs are build products of test/build.rs (gitignored)
    return rel.startswith("test/src/") and rel.endswith("/grammar.rs")


def tree_files(root):
    out = []
    for dp, dns, fns in os.walk(root):
        dns[:] = sorted(d for d in dns if d not in EXCLUDE_DIRS)
        for fn in sorted(fns):
            p = os.path.join(dp, fn)
            rel = os.path.relpath(p, root)
            if _is_generated(rel):
                continue
            if os.path.islink(p) or not os.path.isfile(p):
                continue
            out.append(rel)
    return out


def tree_hash(root=REPO, extra=()):
    h = hashlib.sha256()
    for rel in tree_files(root):
        h.update(rel.encode())
        h.update(b"\0")
        with open(os.path.join(root, rel), "rb") as f:
            h.update(hashlib.sha256(f.read()).digest())
    # the driver and corpus are part of what determines the facts
    for p in extra:
        if os.path.isdir(p):
            for rel in tree_files(p):
                h.update(rel.encode())
                with open(os.path.join(p, rel), "rb") as f:
                    h.update(hashlib.sha256(f.read()).digest())
        elif os.path.isfile(p):
            with open(p, "rb") as f:
                h.update(hashlib.sha256(f.read()).digest())
    return h.hexdigest()[:20]


def nightly_sysroot():
    return subprocess.check_output(
        ["rustc", "+nightly", "--print", "sysroot"], text=True).strip()


def ensure_driver():
    if not os.path.exists(DRIVER):
        sys.stderr.write("pegmir driver missing; building (setup_cmd normally does this)\n")
        subprocess.check_call(
            ["cargo", "build", "--release", "--offline"],
            cwd=os.path.join(VERIF, "engine", "pegmir"))


class BuildFailed(Exception):
    pass


def _run_driver(scratch_repo, out_dir, target_dir, extra_args=(), features=None):
    env = dict(os.environ)
    env.update({
        "PEGMIR_OUT": out_dir,
        "LD_LIBRARY_PATH": os.path.join(nightly_sysroot(), "lib"),
        "RUSTFLAGS": "-Zmir-opt-level=0 -Awarnings",
        "RUSTC_WORKSPACE_WRAPPER": DRIVER,
        "CARGO_TARGET_DIR": target_dir,
        "CARGO_NET_OFFLINE": "true",
        "CARGO_TERM_COLOR": "never",
    })
    env.pop("RUSTUP_TOOLCHAIN", None)
    cmd = ["cargo", "+nightly", "check", "--offline"] + list(extra_args)
    p = subprocess.run(cmd, cwd=scratch_repo, env=env, stdout=subprocess.PIPE,
                       stderr=subprocess.STDOUT, text=True)
    if p.returncode != 0:
        raise BuildFailed(p.stdout[-6000:])
    return p.stdout


def corpus_dir():
    return os.path.join(VERIF, "corpus")


def extract(tier):
    """Return the directory holding fact files for /repo's current tree."""
    ensure_driver()
    extra = [DRIVER]
    if os.path.isdir(corpus_dir()):
        extra.append(corpus_dir())
    h = tree_hash(REPO, extra)
    seed = 0
    if tier == "thorough":
        try:
            seed = int(os.environ.get("VERIF_SEED", "0"))
        except ValueError:
            seed = 0
        h = "%s-s%d" % (h, seed)
    os.makedirs(CACHE, exist_ok=True)
    dest = os.path.join(CACHE, "facts-%s-%s" % (h, tier))
    lock_path = os.path.join(CACHE, "lock-%s-%s" % (h, tier))
    with open(lock_path, "w") as lock:
        fcntl.flock(lock, fcntl.LOCK_EX)
        if os.path.exists(os.path.join(dest, "DONE")):
            return dest
        t0 = time.time()
        scratch = tempfile.mkdtemp(prefix="pegv-")
        try:
            srepo = os.path.join(scratch, "repo")
            subprocess.check_call([
                "rsync", "-a", "--exclude", ".git", "--exclude", "/target",
                "--exclude", ".idea", "--exclude", "/test/src/*/grammar.rs",
                REPO + "/", srepo + "/"])
            out = os.path.join(scratch, "facts")
            os.makedirs(out)
            target = os.path.join(scratch, "target")
            errors = {}
            optional = []
            if os.path.isdir(corpus_dir()):
                _add_corpus(srepo)
                optional.append("verif_corpus")
                if tier == "thorough":
                    _add_random_corpus(srepo, seed)
                    optional.append("verif_corpus_rand")
            # Optional members hold code generated by the tree's own generator from grammars it accepts.  If one of them
            # does not compile while the repository itself builds, that is a C03 matter (recorded), not "no verdict".
            while True:
                try:
                    log = _run_driver(srepo, out, target, ["--workspace", "--all-targets"])
                    break
                except BuildFailed as e:
                    import re as _re
                    failed = set(_re.findall(r"could not compile `([\w-]+)`", str(e)))
                    culprits = [m for m in optional if m in failed]
                    if not culprits:
                        raise
                    for m in culprits:
                        errors[m] = str(e)
                        optional.remove(m)
                        gd = os.path.join(srepo, m, "grammars")
                        if os.path.isdir(gd):
                            shutil.copytree(gd, os.path.join(scratch, "failed_" + m))
                        shutil.rmtree(os.path.join(srepo, m))
                        ct = os.path.join(srepo, "Cargo.toml")
                        s_ = open(ct).read().replace('"%s", ' % m, "", 1)
                        open(ct, "w").write(s_)
                    for f in glob.glob(os.path.join(out, "*.json")):
                        os.unlink(f)
                    shutil.rmtree(target, ignore_errors=True)
            corpus_error = errors.get("verif_corpus")
            if tier == "thorough":
                # runtime without default features (colored_shim variant)
                out2 = os.path.join(scratch, "facts_nodefault")
                os.makedirs(out2)
                try:
                    _run_driver(os.path.join(srepo, "runtime"), out2, target,
                                ["--no-default-features", "--lib"])
                    for f in glob.glob(os.path.join(out2, "peginator-lib-*.json")):
                        shutil.move(f, os.path.join(out, "nodefault-" + os.path.basename(f)))
                except BuildFailed as e:
                    raise
            files = glob.glob(os.path.join(out, "*.json"))
            if not files:
                raise BuildFailed("driver produced no fact files\n" + log[-3000:])
            tmpdest = dest + ".tmp%d" % os.getpid()
            shutil.rmtree(tmpdest, ignore_errors=True)
            os.makedirs(tmpdest)
            for f in files:
                shutil.move(f, os.path.join(tmpdest, os.path.basename(f)))
            # generated sources are facts too (read-only copies for ebnf/lifter cross refs)
            gen = os.path.join(tmpdest, "generated")
            os.makedirs(gen)
            for f in glob.glob(os.path.join(srepo, "test", "src", "*", "grammar.rs")):
                name = os.path.basename(os.path.dirname(f))
                shutil.copy(f, os.path.join(gen, name + ".rs"))
            cg = os.path.join(srepo, "verif_corpus", "src", "gen")
            if os.path.isdir(cg):
                shutil.copytree(cg, os.path.join(tmpdest, "corpus_gen"))
            cgr = os.path.join(srepo, "verif_corpus", "grammars")
            if os.path.isdir(cgr):
                shutil.copytree(cgr, os.path.join(tmpdest, "corpus_grammars"))
            if corpus_error:
                with open(os.path.join(tmpdest, "CORPUS_ERROR"), "w") as f:
                    f.write(corpus_error)
            rg = os.path.join(srepo, "verif_corpus_rand")
            if os.path.isdir(rg):
                shutil.copytree(os.path.join(rg, "grammars"), os.path.join(tmpdest, "rand_grammars"))
                if os.path.isdir(os.path.join(rg, "src", "gen")):
                    shutil.copytree(os.path.join(rg, "src", "gen"), os.path.join(tmpdest, "rand_gen"))
            if "verif_corpus_rand" in errors:
                with open(os.path.join(tmpdest, "RAND_ERROR"), "w") as f:
                    f.write(errors["verif_corpus_rand"])
                fg = os.path.join(scratch, "failed_verif_corpus_rand")
                if os.path.isdir(fg):
                    shutil.copytree(fg, os.path.join(tmpdest, "rand_grammars"))
            with open(os.path.join(tmpdest, "DONE"), "w") as f:
                f.write("%.1f\n" % (time.time() - t0))
            shutil.rmtree(dest, ignore_errors=True)
            os.rename(tmpdest, dest)
        finally:
            shutil.rmtree(scratch, ignore_errors=True)
        _prune()
        return dest


def _add_corpus(srepo):
    """Thorough tier: add the corpus crate as a workspace member of the scratch copy."""
    src = os.path.join(corpus_dir(), "crate")
    if not os.path.isdir(src):
        return
    dst = os.path.join(srepo, "verif_corpus")
    shutil.copytree(src, dst)
    gdst = os.path.join(dst, "grammars")
    os.makedirs(gdst, exist_ok=True)
    for f in glob.glob(os.path.join(corpus_dir(), "grammars", "*")):
        shutil.copy(f, gdst)
    # the repository's own grammar is part of the corpus (stage-2 front end)
    shutil.copy(os.path.join(srepo, "grammar.ebnf"), os.path.join(gdst, "self_grammar.ebnf"))
    ct = os.path.join(srepo, "Cargo.toml")
    s = open(ct).read()
    s = s.replace('members = [', 'members = ["verif_corpus", ', 1)
    open(ct, "w").write(s)


def _add_random_corpus(srepo, seed, modules=4, rules=80):
    """Thorough tier: a second corpus crate whose grammars are generated from VERIF_SEED (tools/gen_random_grammar.py)."""
    src = os.path.join(corpus_dir(), "crate")
    dst = os.path.join(srepo, "verif_corpus_rand")
    shutil.copytree(src, dst)
    ct = os.path.join(dst, "Cargo.toml")
    txt = open(ct).read().replace('name = "verif_corpus"', 'name = "verif_corpus_rand"')
    open(ct, "w").write(txt)
    gdst = os.path.join(dst, "grammars")
    os.makedirs(gdst, exist_ok=True)
    sys.path.insert(0, os.path.join(VERIF, "tools"))
    import gen_random_grammar
    lines = []
    for k in range(modules):
        sd = seed * 1000 + k
        text = gen_random_grammar.validated(sd, rules)
        name = "rand_%d" % k
        with open(os.path.join(gdst, name + ".ebnf"), "w") as f:
            f.write(text)
        lines.append("%s|%s.ebnf|Debug,Clone|\n" % (name, name))
    with open(os.path.join(gdst, "corpus.txt"), "w") as f:
        f.write("".join(lines))
    wt = os.path.join(srepo, "Cargo.toml")
    s = open(wt).read()
    s = s.replace('members = [', 'members = ["verif_corpus_rand", ', 1)
    open(wt, "w").write(s)


def _prune(keep=4):
    ds = sorted(glob.glob(os.path.join(CACHE, "facts-*")), key=os.path.getmtime)
    ds = [d for d in ds if ".tmp" not in os.path.basename(d) and os.path.isdir(d)]
    now = time.time()
    for d in ds[:-keep]:
        # never remove a directory another (parallel) check may still be loading
        if now - os.path.getmtime(d) > 1800:
            shutil.rmtree(d, ignore_errors=True)
    for l in glob.glob(os.path.join(CACHE, "lock-*")):
        tag = os.path.basename(l)[5:]
        if not os.path.exists(os.path.join(CACHE, "facts-" + tag)):
            try:
                os.unlink(l)
            except OSError:
                pass


class Crate:
    def __init__(self, j, fname):
        self.j = j
        self.file = fname
        self.name = j["crate"]
        self.test = j["test"]
        self.fns = {}
        for f in j["fns"]:
            self.fns[f["path"]] = f
        self.adts = {a["path"]: a for a in j["adts"]}
        files = j.get("files")
        if files is not None:
            for key in ("adts", "statics", "consts", "aliases", "impls", "traits", "mods", "fns"):
                for it in j.get(key, ()):
                    sp = it.get("span")
                    if sp and isinstance(sp.get("file"), int):
                        sp["file"] = files[sp["file"]]
            for u in j.get("unsafe_blocks", ()):
                sp = u.get("span")
                if sp and isinstance(sp.get("file"), int):
                    sp["file"] = files[sp["file"]]

    def __repr__(self):
        return "<Crate %s%s %d fns>" % (self.name, " (test)" if self.test else "", len(self.fns))


class Facts:
    """All fact files of one extraction, loaded lazily (one file per crate target)."""

    def __init__(self, directory):
        self.dir = directory
        self.files = sorted(glob.glob(os.path.join(directory, "*.json")))
        self._loaded = {}

    def _meta(self, f):
        # <crate>-<lib|test>-<hash>.json  (optionally prefixed nodefault-)
        b = os.path.basename(f)
        nd = b.startswith("nodefault-")
        if nd:
            b = b[len("nodefault-"):]
        name, kind, _ = b.rsplit("-", 2)
        return name, kind == "test", nd

    def _load(self, f):
        if f not in self._loaded:
            with open(f) as fh:
                self._loaded[f] = Crate(json.load(fh), os.path.basename(f))
        return self._loaded[f]

    def crate(self, name, test=None, nodefault=False):
        """One crate by name; prefers the non-test build unless test=True."""
        best = None
        for f in self.files:
            n, t, nd = self._meta(f)
            if n != name or nd != nodefault:
                continue
            if test is not None and t != test:
                continue
            if best is None or (test is None and self._meta(best)[1] and not t):
                best = f
        return self._load(best) if best else None

    def has(self, name):
        return any(self._meta(f)[0] == name for f in self.files)
