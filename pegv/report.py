"""Evidence, violations, floors and known findings."""
import json
import os
import re
import time

VERIF = os.path.dirname(os.path.dirname(os.path.abspath(__file__)))
OUT = os.environ.get("PEGV_OUT", VERIF)
KNOWN = os.path.join(VERIF, "known_findings.json")


def norm_key(s):
    # crate disambiguators / closure numbering stay; only whitespace is normalised
    return re.sub(r"\s+", " ", s).strip()


class Check:
    def __init__(self, pid, tier, level, seed=0):
        self.pid = pid
        self.tier = tier
        self.level = level
        self.seed = seed
        self.t0 = time.time()
        self.rules = {}          # rule -> dict(obligations, discharged, samples, floor..)
        self.violations = []     # dicts
        self.known_hits = []
        self.notes = []
        self.assumptions = []
        self.trusted = []
        self.explanation = ""
        self.extra = {}
        self.programs = set()
        self.disagreements_checked = 0
        try:
            with open(KNOWN) as f:
                kf = json.load(f)
        except FileNotFoundError:
            kf = {"findings": [], "fixed": []}
        self.known = {}
        for e in kf.get("findings", []):
            if e["property"] == pid:
                self.known[norm_key(e["key"])] = e

    # ---- bookkeeping
    def rule(self, name, descr=""):
        r = self.rules.setdefault(name, {"descr": descr, "obligations": 0, "discharged": 0,
                                         "samples": [], "instances": 0, "floors": {}})
        if descr and not r["descr"]:
            r["descr"] = descr
        return r

    def ok(self, rule, what, sample=None):
        r = self.rule(rule)
        r["obligations"] += 1
        r["discharged"] += 1
        if sample is not None and len(r["samples"]) < 4:
            r["samples"].append(sample)
        elif sample is None and len(r["samples"]) < 2:
            r["samples"].append(what)

    def count(self, rule, n=1):
        self.rule(rule)["instances"] += n

    def violation(self, rule, key, msg, site=None, detail=None):
        """key: stable identity (no line numbers).  site: file:line for humans."""
        r = self.rule(rule)
        r["obligations"] += 1
        k = norm_key("%s|%s" % (rule, key))
        v = {"rule": rule, "key": k, "msg": msg, "site": site, "detail": detail}
        if k in self.known:
            if k not in [h["key"] for h in self.known_hits]:
                self.known_hits.append({"key": k, "what": self.known[k].get("what", msg), "site": site})
            return
        if k in [x["key"] for x in self.violations]:
            return
        self.violations.append(v)

    def anchor_missing(self, rule, name):
        self.violation(rule, "ANCHOR-MISSING " + name,
                       "anchor %r not found in the analysed program: the rule cannot be applied (fail closed)" % name)

    def floor(self, rule, what, count, minimum):
        r = self.rule(rule)
        r["floors"][what] = {"count": count, "min": minimum}
        if count < minimum:
            self.violation(rule, "FLOOR %s" % what,
                           "rule matched %d %s, expected at least %d (a fraction of what was counted on the pinned tree, leaving room for refactoring); "
                           "a rule that matches nothing passes vacuously" % (count, what, minimum))

    def note(self, s):
        self.notes.append(s)

    # ---- output
    def finish(self):
        wall = time.time() - self.t0
        obligations = sum(r["obligations"] for r in self.rules.values())
        discharged = sum(r["discharged"] for r in self.rules.values())
        samples = []
        for name, r in self.rules.items():
            for s in r["samples"][:3]:
                samples.append({"rule": name, "obligation": s})
        if not samples:
            samples = [{"rule": "none", "obligation": "no obligations generated"}]
        rules_out = {}
        for name, r in self.rules.items():
            rules_out[name] = {"descr": r["descr"], "obligations": r["obligations"],
                               "discharged": r["discharged"], "floors": r["floors"]}
        cov = {
            "explanation": self.explanation or ("static rules over MIR facts of /repo's current tree: "
                                                + "; ".join("%s (%s)" % (n, r["descr"]) for n, r in self.rules.items())),
            "obligations": obligations,
            "discharged": discharged,
            "evaluations": max(obligations, 1),
            "distinct_nontrivial": max(len({json.dumps(s, sort_keys=True, default=str) for r in self.rules.values() for s in r["samples"]}), min(obligations, 2), 0),
            "rule": "one obligation per (rule, site); a site is a call site, CFG path, template site, table entry or declaration named in the sample; distinct = distinct sites",
            "samples": samples[:40],
            "rules": rules_out,
            "checker_cmd": "./check %s --tier %s" % (self.pid, self.tier),
            "trusted_base": self.trusted or ["rustc nightly MIR construction and callee resolution",
                                             "pegv model of ~25 std combinators"],
            "exhaustive": True,
            "known_findings_reported": [h["key"] for h in self.known_hits],
            "notes": self.notes[:50],
        }
        if self.level == "translation_validation":
            cov["programs"] = max(len(self.programs), 0)
            cov["disagreements_checked"] = self.disagreements_checked
        cov.update(self.extra)
        ev = {
            "property_id": self.pid,
            "tier": self.tier,
            "seed": self.seed,
            "level": self.level,
            "coverage": cov,
            "assumptions": self.assumptions,
            "wall_s": round(wall, 2),
            "violations": len(self.violations),
        }
        os.makedirs(os.path.join(OUT, "evidence"), exist_ok=True)
        with open(os.path.join(OUT, "evidence", "%s.json" % self.pid), "w") as f:
            json.dump(ev, f, indent=1, sort_keys=True, default=str)
            f.write("\n")
        for h in self.known_hits:
            print("KNOWN-FINDING: property=%s %s [%s]" % (self.pid, h["what"], h["key"]))
        if self.violations:
            os.makedirs(os.path.join(OUT, "reports"), exist_ok=True)
            n = 0
            for v in self.violations:
                n += 1
                path = os.path.join(OUT, "reports", "%s-%d.json" % (self.pid, n))
                with open(path, "w") as f:
                    json.dump({"property": self.pid, "tier": self.tier, **v}, f, indent=1, default=str)
                print("  rule=%s site=%s\n    %s\n    key=%s" % (v["rule"], v["site"], v["msg"], v["key"]))
                if v.get("detail"):
                    d = v["detail"] if isinstance(v["detail"], str) else json.dumps(v["detail"], default=str)
                    print("    detail: %s" % d[:1500])
                print("VIOLATION property=%s replay=%s" % (self.pid, path))
            return 1
        print("OK property=%s tier=%s rules=%d obligations=%d discharged=%d known_findings=%d wall=%.1fs" % (
            self.pid, self.tier, len(self.rules), obligations, discharged, len(self.known_hits), wall))
        return 0
