"""Thorough tier: "must fire" fixtures.  Every rule has to keep reporting the mutants / seeded changes it is known
to catch: the patches registered for this property (mutants/index.json, seeded/*/meta.json) are applied to private
scratch copies of /repo's CURRENT tree, the property's quick check is run against each copy, and a patch that applies
cleanly but is no longer reported is itself a violation (a rule that silently stopped matching).  Patches that do not
apply (because the tree under test was edited) are skipped and listed.  Scratch copies are removed."""
import concurrent.futures
import glob
import json
import os
import shutil
import subprocess
import tempfile

from . import facts

VERIF = facts.VERIF


def cases_for(pid):
    out = []
    idx = os.path.join(VERIF, "mutants", "index.json")
    if os.path.exists(idx):
        for c in json.load(open(idx)):
            if pid in c.get("expect", {}):
                out.append((c["name"], os.path.join(VERIF, "mutants", c["patch"]), c["expect"][pid]))
    for m in sorted(glob.glob(os.path.join(VERIF, "seeded", "*", "meta.json"))):
        j = json.load(open(m))
        if j.get("retired"):
            continue
        cb = j.get("caught_by") or {}
        if pid in cb:
            out.append(("seeded/" + os.path.basename(os.path.dirname(m)), os.path.join(os.path.dirname(m), "patch.diff"), cb[pid]))
    return out


def run_one(pid, name, patch, want):
    scratch = tempfile.mkdtemp(prefix="pegv-mf-")
    try:
        srepo = os.path.join(scratch, "repo")
        subprocess.check_call(["rsync", "-a", "--exclude", ".git", "--exclude", "/target", facts.REPO + "/", srepo + "/"])
        p = subprocess.run(["patch", "-p1", "-s", "-i", patch], cwd=srepo, stdout=subprocess.PIPE, stderr=subprocess.STDOUT, text=True)
        if p.returncode != 0:
            return name, "skipped", "patch does not apply to the current tree"
        env = dict(os.environ, PEGV_REPO=srepo, PEGV_OUT=os.path.join(scratch, "out"), PEGV_CACHE=os.path.join(scratch, "cache"), PEGV_NO_MUSTFIRE="1")
        r = subprocess.run([os.path.join(VERIF, "check"), pid, "--tier", "quick"], env=env, cwd=VERIF, stdout=subprocess.PIPE, stderr=subprocess.STDOUT, text=True)
        keys = [l.strip()[4:] for l in r.stdout.splitlines() if l.strip().startswith("key=")]
        if r.returncode == 2:
            return name, "skipped", "patched tree does not build"
        hit = [k for k in keys if any(k.startswith(w) or w in k for w in want)]
        if r.returncode == 1 and hit:
            return name, "fired", hit[0][:160]
        return name, "silent", "rc=%d keys=%s" % (r.returncode, keys[:3])
    finally:
        shutil.rmtree(scratch, ignore_errors=True)


def run(pid, chk, jobs=8):
    if os.environ.get("PEGV_NO_MUSTFIRE") or os.environ.get("PEGV_REPO"):
        return
    cs = cases_for(pid)
    R = "%s.mustfire" % pid
    fired = skipped = 0
    with concurrent.futures.ThreadPoolExecutor(max_workers=jobs) as ex:
        for (name, status, info) in ex.map(lambda c: run_one(pid, *c), cs):
            if status == "fired":
                fired += 1
                chk.ok(R, name, {"patch": name, "reported_as": info})
            elif status == "skipped":
                skipped += 1
                chk.note("mustfire %s skipped: %s" % (name, info))
            else:
                chk.violation(R, "%s not reported" % name,
                              "the change %s is known to break %s and applies to the current tree, but the check no longer reports it (%s): "
                              "a rule stopped matching" % (name, pid, info))
    chk.extra["mustfire"] = {"cases": len(cs), "fired": fired, "skipped": skipped}
