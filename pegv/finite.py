"""Finite-domain evaluation of extracted decision structures (DESIGN.md §2.2).

Functions whose result depends on their inputs only through comparisons or enum
discriminants are decided exactly: the decision tree is read off the CFG (paths,
edge atoms, value assigned on each path) and evaluated over the finite domain.
This is abstract interpretation of the extracted expression, not execution.
"""
from . import mir
from .mir import norm, truth


def edge_atoms(b, path):
    """[(norm expr, value, switch_bb)] for the non-noise switch edges along an explicit block path.
    bool switches give True/False; others the integer value or ('not', values)."""
    out = []
    for k in range(len(path) - 1):
        x, y = path[k], path[k + 1]
        t = b.blocks[x]["term"]
        if t["k"] != "switch" or b.is_noise_switch(x):
            continue
        labs = [lab[1] for (j, lab) in b.succ[x] if j == y]
        if len(labs) != 1:
            continue
        e, ty = b.switch_info(x)
        val = labs[0]
        if val == "otherwise":
            val = ("not", tuple(v for v, _ in t["targets"]))
        if ty == "bool":
            val = truth(val)
            e = norm(e)
            while e[0] == "unop" and e[1] == "Not":
                e = e[2]
                val = (not val) if val is not None else None
            out.append((e, val, x))
        else:
            out.append((norm(e), val, x))
    return out


def paths_between(b, start, targets, limit=20000):
    """Acyclic block paths from start to any block in targets (inclusive)."""
    targets = set(targets)
    out = []
    st = [(start, [start])]
    while st:
        x, acc = st.pop()
        if x in targets:
            out.append(acc)
            continue
        for y in b.succs(x):
            if y not in acc:
                st.append((y, acc + [y]))
        if len(out) > limit:
            raise RuntimeError("path explosion in %s" % b.path)
    return out


def last_def_on_path(b, l, path):
    """The expression last assigned to local l along the path (None if none)."""
    val = None
    for x in path:
        for d in b.defs.get(l, []):
            if d[0] == x:
                val = norm(b.expr_rv(d[3], frozenset([l])) if d[2] == "rv" else b.expr_call(d[3], frozenset([l])))
    return val


def return_table(b):
    """[(atoms, returned expr)] for each acyclic entry->return path (value = last def of _0 on the path)."""
    rows = []
    for pth in paths_between(b, 0, b.returns):
        v = last_def_on_path(b, 0, pth)
        rows.append(([(e, val) for (e, val, _) in edge_atoms(b, pth)], v, pth))
    return rows


def phi_table(b, l, at_block):
    rows = []
    for pth in paths_between(b, 0, [at_block]):
        v = last_def_on_path(b, l, pth)
        rows.append(([(e, val) for (e, val, _) in edge_atoms(b, pth)], v, pth))
    return rows


def eval_bool(e, env):
    """Evaluate a boolean expression over env: {leaf expr: bool}."""
    if e in env:
        return env[e]
    if e[0] == "const" and e[1] == "bool":
        return e[2]
    if e[0] == "unop" and e[1] == "Not":
        v = eval_bool(e[2], env)
        return None if v is None else (not v)
    if e[0] == "binop":
        a, c = eval_bool(e[2], env), eval_bool(e[3], env)
        if a is None or c is None:
            return None
        return {"BitAnd": a and c, "BitOr": a or c, "Eq": a == c, "Ne": a != c, "BitXor": a != c}.get(e[1])
    return None


def bool_function(rows, leaves):
    """Evaluate a phi/return table as a boolean function of `leaves`; returns {assignment tuple: value}
    or raises ValueError if some assignment selects no row / several rows that disagree."""
    import itertools
    table = {}
    for bits in itertools.product([False, True], repeat=len(leaves)):
        env = dict(zip(leaves, bits))
        vals = set()
        for (atoms, v, _) in rows:
            okrow = True
            for (e, val) in atoms:
                ev = eval_bool(e, env)
                if ev is None:
                    continue   # atom about something else (not a tracked leaf): does not constrain
                if ev != val:
                    okrow = False
                    break
            if okrow and v is not None:
                vals.add(eval_bool(v, env))
        if len(vals) != 1:
            raise ValueError("assignment %s selects values %s" % (env, vals))
        table[bits] = vals.pop()
    return table


# ---------------------------------------------------------------- forward symbolic evaluation along a path

class SymExec:
    """Evaluate every assignment along an explicit block path in program order, so that
    multiply-assigned locals (accumulators) get the value they hold at each point."""

    def __init__(self, b):
        self.b = b

    def run(self, path):
        b = self.b
        env = {}
        for k, x in enumerate(path):
            blk = b.blocks[x]
            for st in blk["stmts"]:
                if st["k"] != "assign":
                    continue
                v = self.rv(st["rv"], env)
                pl = st["place"]
                if not pl["p"]:
                    env[pl["l"]] = v
            t = blk["term"]
            if t["k"] == "call" and not t["dest"]["p"] and k + 1 < len(path):
                f = t["func"]
                args = tuple(self.op(a, env) for a in t["args"])
                if f.get("indirect"):
                    env[t["dest"]["l"]] = mir.mk("icall", self.op(f["op"], env), args)
                else:
                    env[t["dest"]["l"]] = mir.mk("call", f["path"], args, f.get("resolved"), tuple(f.get("args", ())))
        return env

    def op(self, o, env):
        if o["k"] in ("copy", "move"):
            return self.place(o["place"], env)
        return norm(self.b.expr_op(o))

    def place(self, pl, env):
        l = pl["l"]
        if l in env:
            base = env[l]
        else:
            base = norm(self.b.expr_local(l))
        return norm(self.b._apply_proj(base, pl["p"]))

    def rv(self, rv, env):
        k = rv["k"]
        b = self.b
        if k == "use":
            return self.op(rv["op"], env)
        if k in ("ref", "rawptr"):
            return self.place(rv["place"], env)
        if k == "cast":
            return mir.mk("cast", rv["kind"], self.op(rv["op"], env), rv["ty"])
        if k == "binop":
            return mir.mk("binop", rv["op"], self.op(rv["a"], env), self.op(rv["b"], env))
        if k == "unop":
            return mir.mk("unop", rv["op"], self.op(rv["a"], env))
        if k == "discr":
            return mir.mk("discr", self.place(rv["place"], env))
        if k == "agg":
            ops = tuple(self.op(o, env) for o in rv["ops"])
            a = rv["agg"]
            if a == "adt":
                names = rv["fields"] if len(rv["fields"]) == len(ops) else [str(i) for i in range(len(ops))]
                return mir.mk("agg", rv["adt"], rv["variant"], tuple(zip(names, ops)))
            if a == "tuple":
                return mir.mk("tuple", ops)
            if a == "closure":
                return mir.mk("closure", rv["def"], ops)
            return mir.mk("aggother", a, ops)
        return norm(b.expr_rv(rv))


def plain_arith(e):
    """Strip checked-arithmetic packaging: (AddWithOverflow(a,b)).0 -> Add(a,b); integer casts are kept."""
    if not isinstance(e, mir.E):
        return e
    if e[0] == "field" and e[2] == "0" and e[1][0] == "binop" and e[1][1].endswith("WithOverflow"):
        return mir.mk("binop", e[1][1][:-len("WithOverflow")], plain_arith(e[1][2]), plain_arith(e[1][3]))
    out = [e[0]]
    for a in e[1:]:
        if isinstance(a, mir.E):
            out.append(plain_arith(a))
        elif isinstance(a, tuple):
            out.append(tuple(plain_arith(x) if isinstance(x, mir.E) else (tuple(plain_arith(y) if isinstance(y, mir.E) else y for y in x) if isinstance(x, tuple) else x) for x in a))
        else:
            out.append(a)
    return mir.E(out)
