"""Finite-domain evaluation of extracted decision structures (DESIGN.md §2.2).

Functions whose result depends on their inputs only through comparisons or enum
discriminants are decided exactly: the decision tree is read off the CFG (paths,
edge atoms, value assigned on each path) and evaluated over the finite domain.
This is abstract interpretation of the extracted expression, not execution.
"""
from . import mir
from .mir import norm, truth


def edge_atoms(b, path):
    """[(norm expr, value, switch_bb)] for the non-noise switch edges along an explicit block path.
    bool switches give True/False; others the integer value or ('not', values)."""
    out = []
    for k in range(len(path) - 1):
        x, y = path[k], path[k + 1]
        t = b.blocks[x]["term"]
        if t["k"] != "switch" or b.is_noise_switch(x):
            continue
        labs = [lab[1] for (j, lab) in b.succ[x] if j == y]
        if len(labs) != 1:
            continue
        e, ty = b.switch_info(x)
        val = labs[0]
        if val == "otherwise":
            val = ("not", tuple(v for v, _ in t["targets"]))
        if ty == "bool":
            val = truth(val)
            e = norm(e)
            while e[0] == "unop" and e[1] == "Not":
                e = e[2]
                val = (not val) if val is not None else None
            out.append((e, val, x))
        else:
            out.append((norm(e), val, x))
    return out


def paths_between(b, start, targets, limit=20000):
    """Acyclic block paths from start to any block in targets (inclusive)."""
    targets = set(targets)
    out = []
    st = [(start, [start])]
    while st:
        x, acc = st.pop()
        if x in targets:
            out.append(acc)
            continue
        for y in b.succs(x):
            if y not in acc:
                st.append((y, acc + [y]))
        if len(out) > limit:
            raise RuntimeError("path explosion in %s" % b.path)
    return out


def last_def_on_path(b, l, path):
    """The expression last assigned to local l along the path (None if none)."""
    val = None
    for x in path:
        for d in b.defs.get(l, []):
            if d[0] == x:
                val = norm(b.expr_rv(d[3], frozenset([l])) if d[2] == "rv" else b.expr_call(d[3], frozenset([l])))
    return val


def return_table(b):
    """[(atoms, returned expr)] for each acyclic entry->return path (value = last def of _0 on the path)."""
    rows = []
    for pth in paths_between(b, 0, b.returns):
        v = last_def_on_path(b, 0, pth)
        rows.append(([(e, val) for (e, val, _) in edge_atoms(b, pth)], v, pth))
    return rows


def phi_table(b, l, at_block):
    rows = []
    for pth in paths_between(b, 0, [at_block]):
        v = last_def_on_path(b, l, pth)
        rows.append(([(e, val) for (e, val, _) in edge_atoms(b, pth)], v, pth))
    return rows


def eval_bool(e, env):
    """Evaluate a boolean expression over env: {leaf expr: bool}."""
    if e in env:
        return env[e]
    if e[0] == "const" and e[1] == "bool":
        return e[2]
    if e[0] == "unop" and e[1] == "Not":
        v = eval_bool(e[2], env)
        return None if v is None else (not v)
    if e[0] == "binop":
        a, c = eval_bool(e[2], env), eval_bool(e[3], env)
        if a is None or c is None:
            return None
        return {"BitAnd": a and c, "BitOr": a or c, "Eq": a == c, "Ne": a != c, "BitXor": a != c}.get(e[1])
    return None


def bool_function(rows, leaves):
    """Evaluate a phi/return table as a boolean function of `leaves`; returns {assignment tuple: value}
    or raises ValueError if some assignment selects no row / several rows that disagree."""
    import itertools
    table = {}
    for bits in itertools.product([False, True], repeat=len(leaves)):
        env = dict(zip(leaves, bits))
        vals = set()
        for (atoms, v, _) in rows:
            okrow = True
            for (e, val) in atoms:
                ev = eval_bool(e, env)
                if ev is None:
                    continue   # atom about something else (not a tracked leaf): does not constrain
                if ev != val:
                    okrow = False
                    break
            if okrow and v is not None:
                vals.add(eval_bool(v, env))
        if len(vals) != 1:
            raise ValueError("assignment %s selects values %s" % (env, vals))
        table[bits] = vals.pop()
    return table
