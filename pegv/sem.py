"""Semantic function summaries (DESIGN.md §14).

A path-sensitive abstract interpretation of one MIR body into a *decision tree*: a list of leaves
(assumptions, returned value, ordered uninterpreted events, writes through reference parameters).
Values are the expression terms of mir.py; nothing is executed and no solver is involved - the
interpreter only

  * folds assignments, projections, aggregates and references (a store of cells with pointers),
  * splits on switches, recording the atom it assumes on each side (canonical form: `Le`, `Eq`,
    uninterpreted predicates, `discr(x) = k`), and prunes sides contradicted by earlier atoms,
  * replaces calls to the std Option/Result/bool/Range combinators, `?`, `clone`, `From<T> for T`
    and closure calls by their definitions (so `match`, `if let`, `?`, `map_or`, `ok_or_else`,
    let-destructuring, early returns and extracted straight-line helpers all summarise alike),
  * keeps every other call as an uninterpreted term (and event).

Loops are not unrolled: a path that revisits a block ends in a leaf of kind 'loop' and a rule that
needs that function treats it as not summarised.  Rules compare the leaves with the specification
by finite-domain evaluation (Summary.select) - see finite.py for the older table-based variant.
"""
from . import mir
from .mir import mk, E, last, short

OPTION = "std::option::Option"
RESULT = "std::result::Result"
CFLOW = "std::ops::ControlFlow"
VARIANTS = {OPTION: ("None", "Some"), RESULT: ("Ok", "Err"), CFLOW: ("Continue", "Break")}
PRIMS = {"u8", "u16", "u32", "u64", "u128", "usize", "i8", "i16", "i32", "i64", "i128", "isize", "char", "bool"}

TRUE = mk("const", "bool", True)
FALSE = mk("const", "bool", False)
UNIT = mk("tuple", ())


class SemLimit(Exception):
    pass


class PE(dict):
    """A projection element (the driver's dict) made hashable, so that pointer values can be parts of terms used as keys."""

    def __hash__(self):
        return hash((self.get("k"), self.get("name"), self.get("i"), self.get("variant"), self.get("offset")))


def agg(adt, variant, *payload):
    return mk("agg", adt, variant, tuple((str(i), v) for i, v in enumerate(payload)))


def some(v):
    return agg(OPTION, "Some", v)


NONE = agg(OPTION, "None")


def ok(v):
    return agg(RESULT, "Ok", v)


def err(v):
    return agg(RESULT, "Err", v)


def enum_of_type(ty):
    """The modelled enum a type string denotes (through references), or None."""
    t = ty.lstrip("&").replace("mut ", "").strip()
    for k in VARIANTS:
        if t.startswith(k + "<") or t == k:
            return k
    if t.startswith("std::ops::ControlFlow"):
        return CFLOW
    return None


# ------------------------------------------------------------------ value simplification

def get_field(v, name):
    k = v[0]
    if k == "agg":
        for (n, x) in v[3]:
            if n == name:
                return x
    if k == "tuple" and name.isdigit() and int(name) < len(v[1]):
        return v[1][int(name)]
    if k == "upd":
        if v[2] == name:
            return v[3]
        return get_field(v[1], name)
    if k == "closure" and name.isdigit() and int(name) < len(v[2]):
        return v[2][int(name)]
    return mk("field", v, name)


def set_field(v, name, nv):
    k = v[0]
    if k == "agg" and any(n == name for (n, _) in v[3]):
        return mk("agg", v[1], v[2], tuple((n, nv if n == name else x) for (n, x) in v[3]))
    if k == "tuple" and name.isdigit() and int(name) < len(v[1]):
        i = int(name)
        return mk("tuple", tuple(nv if j == i else x for j, x in enumerate(v[1])))
    if k == "upd" and v[2] == name:
        return set_field(v[1], name, nv)
    if nv == mk("field", v, name):
        return v
    return mk("upd", v, name, nv)


def get_downcast(v, variant):
    if v[0] == "agg" and v[2] == variant:
        return v
    return mk("downcast", v, variant)


CMP = {"Lt": lambda a, b: a < b, "Le": lambda a, b: a <= b, "Gt": lambda a, b: a > b, "Ge": lambda a, b: a >= b,
       "Eq": lambda a, b: a == b, "Ne": lambda a, b: a != b}


def simp_binop(op, a, b):
    if a[0] == "const" and b[0] == "const" and op in CMP and type(a[2]) is type(b[2]):
        try:
            return TRUE if CMP[op](a[2], b[2]) else FALSE
        except TypeError:
            pass
    if op in ("BitAnd", "BitOr") and a[0] == "const" and a[1] == "bool":
        if op == "BitAnd":
            return b if a[2] else FALSE
        return TRUE if a[2] else b
    if op in ("BitAnd", "BitOr") and b[0] == "const" and b[1] == "bool":
        return simp_binop(op, b, a)
    if op.endswith("WithOverflow"):
        return mk("tuple", (mk("binop", op[:-len("WithOverflow")], a, b), mk("ovf", op, a, b)))
    return mk("binop", op, a, b)


def simp_unop(op, a):
    if op == "Not" and a[0] == "const" and a[1] == "bool":
        return FALSE if a[2] else TRUE
    if op == "Not" and a[0] == "unop" and a[1] == "Not":
        return a[2]
    return mk("unop", op, a)


def canon(v):
    """Canonical atom and polarity of a boolean value: (atom, True/False)."""
    pol = True
    while True:
        if v[0] == "unop" and v[1] == "Not":
            v = v[2]
            pol = not pol
            continue
        if v[0] == "binop":
            op, a, b = v[1], v[2], v[3]
            if op == "Ne":
                v = mk("binop", "Eq", a, b)
                pol = not pol
                continue
            if op == "Gt":
                v = mk("binop", "Le", a, b)
                pol = not pol
                continue
            if op == "Lt":
                v = mk("binop", "Le", b, a)
                pol = not pol
                continue
            if op == "Ge":
                v = mk("binop", "Le", b, a)
                continue
            if op == "Eq":
                if b[0] == "const" and b[1] == "bool":
                    v = a
                    pol = pol if b[2] else (not pol)
                    continue
                if a[0] == "const" and a[1] == "bool":
                    v = b
                    pol = pol if a[2] else (not pol)
                    continue
                if repr(b) < repr(a):
                    v = mk("binop", "Eq", b, a)
        break
    return v, pol


# ------------------------------------------------------------------ state

class State:
    __slots__ = ("mem", "assume", "order", "trace", "visits", "inloop", "unroll")

    def __init__(self):
        self.mem = {}
        self.assume = {}
        self.order = ()
        self.trace = ()
        self.visits = {}
        self.inloop = ()
        self.unroll = {}

    def fork(self):
        s = State()
        s.mem = dict(self.mem)
        s.assume = dict(self.assume)
        s.order = self.order
        s.trace = self.trace
        s.visits = dict(self.visits)
        s.inloop = self.inloop
        s.unroll = dict(self.unroll)
        return s

    def learn(self, atom, val):
        self.assume[atom] = val
        self.order = self.order + ((atom, val),)


class Frame:
    __slots__ = ("body", "fid", "depth", "stack", "top")

    def __init__(self, body, fid, depth, stack, top):
        self.body, self.fid, self.depth, self.stack, self.top = body, fid, depth, stack, top


class Leaf:
    def __init__(self, kind, st, ret, site=None):
        self.kind = kind            # 'return' | 'panic' | 'loop'
        self.assume = st.order      # ((atom, value), ...) in program order
        self.facts = st.assume
        self.ret = ret
        self.trace = st.trace       # ((call term, number of assumptions before it, (fn path, bb)), ...)
        self.mem = st.mem
        self.site = site
        self.writes = {}

    def calls(self, *names):
        return [ev for ev in self.trace if mir.is_call(ev[0], *names)]

    def assumed_before(self, ev):
        return self.assume[:ev[1]]

    def show(self):
        return "%s if %s -> %s" % (self.kind, " & ".join("%s=%s" % (mir.show(a), v) for a, v in self.assume), mir.show(self.ret) if self.ret is not None else "-")


class Summary:
    def __init__(self, path, leaves, complete):
        self.path = path
        self.leaves = leaves
        self.complete = complete    # no 'loop' leaf
        self.loopbacks = []
        self.heap_in_loop = False

    @property
    def returns(self):
        return [l for l in self.leaves if l.kind == "return"]

    def atoms(self):
        out = []
        for l in self.leaves:
            for (a, _) in l.assume:
                if a not in out:
                    out.append(a)
        return out

    def select(self, evaluate):
        """Leaves whose assumptions all hold under `evaluate(atom) -> value | None` (None: atom not
        interpreted; reported separately by `uninterpreted`)."""
        out = []
        for l in self.leaves:
            good = True
            for (a, v) in l.assume:
                r = evaluate(a)
                if r is None:
                    continue
                if isinstance(v, tuple) and v and v[0] == "not":
                    if r in v[1]:
                        good = False
                        break
                elif r != v:
                    good = False
                    break
            if good:
                out.append(l)
        return out

    def uninterpreted(self, evaluate):
        return [a for a in self.atoms() if evaluate(a) is None]


# ------------------------------------------------------------------ interpreter

class Sem:
    def __init__(self, cx, crate, inline=None, clone_identity=True, max_leaves=3000, max_depth=6, opaque=(),
                 extra_crates=(), opaque_closure=None, stable_roots=False):
        self.cx, self.crate = cx, crate
        self.crates = [crate] + [c for c in extra_crates if c is not None]
        self.opaque_closure = opaque_closure or (lambda closure_def, stack: False)
        self.stable_roots = stable_roots     # calls do not invalidate what reference parameters point to (e.g. `global`)
        self.named = False                   # results of uninterpreted calls are symbols ('r', index into the leaf's trace)
        self.inline = inline or (lambda path: False)
        self.clone_identity = clone_identity
        self.max_leaves = max_leaves
        self.max_depth = max_depth
        self.opaque = set(opaque)      # last-segment names never modelled / inlined
        self._fid = 0
        self.enum_of = {}              # value term -> modelled enum path (from place types)
        self.nvariants = {}            # value term -> number of variants (local ADTs)
        self._cache = {}

    # ---- public
    def summarize(self, path, args=None):
        key = (path, args)
        if key in self._cache:
            return self._cache[key]
        b = self.find_body(path) if isinstance(path, str) else path
        if b is None:
            return None
        self._leaves = []
        self._fid = 0
        self._heap_in_loop = False
        st = State()
        fr = self._frame(b, 0, (b.path,), True)
        n = b.arg_count
        for i in range(1, n + 1):
            v = args[i - 1] if args and i - 1 < len(args) and args[i - 1] is not None else mk("param", i)
            if b.is_closure and i == 1 and not args:
                v = mk("closure_env")
            st.mem[(fr.fid, i)] = v
            self._note_type(v, b.ty(i))
        for (s2, kind, ret, site) in self._run(fr, 0, st):
            lf = Leaf(kind, s2, self.resolve(ret, s2) if ret is not None else None, site)
            for k, v in s2.mem.items():
                if k[0] == "root":
                    rv = self.resolve(v, s2)
                    if rv != k[1]:
                        lf.writes[k[1]] = rv
            self._leaves.append(lf)
            if len(self._leaves) > self.max_leaves:
                raise SemLimit("more than %d leaves in %s" % (self.max_leaves, b.path))
        s = Summary(b.path, [l for l in self._leaves if l.kind != "loopback"], all(l.kind != "loop" for l in self._leaves))
        s.loopbacks = [l for l in self._leaves if l.kind == "loopback"]
        s.heap_in_loop = self._heap_in_loop
        self._cache[key] = s
        return s

    def find_body(self, path):
        for c in self.crates:
            f = c.fns.get(path)
            if f is not None and "mir" in f:
                return self.cx.body(c, path)
        # a function of another analysed crate, named through a re-export: match type/trait + method name
        k = _xkey(path)
        if k is None:
            return None
        for c in self.crates[1:]:
            idx = c.__dict__.get("_sem_xindex")
            if idx is None:
                idx = {}
                for p, f in c.fns.items():
                    if "mir" not in f or "{closure" in p:
                        continue
                    kk = _xkey(p)
                    if kk is not None:
                        idx.setdefault((c.name,) + kk, []).append(p)
                c.__dict__["_sem_xindex"] = idx
            if path.split("::")[0] != c.name and (c.name + "::") not in path:
                continue
            hit = idx.get((c.name,) + k, [])
            if len(hit) == 1:
                return self.cx.body(c, hit[0])
        return None

    # ---- frames, memory
    def _frame(self, body, depth, stack, top=False):
        self._fid += 1
        return Frame(body, self._fid, depth, stack, top)

    def _note_type(self, v, ty):
        if not isinstance(ty, str):
            return
        en = enum_of_type(ty)
        if en:
            self.enum_of[v] = en

    def cell(self, st, key):
        v = st.mem.get(key)
        if v is None:
            if key[0] == "root":
                return key[1]
            return mk("undef", key[0], key[1])
        return v

    def locate(self, fr, pl, st):
        """(cell key, projection list) of a place, following pointers."""
        key = (fr.fid, pl["l"])
        path = []
        for pe in pl["p"]:
            if pe["k"] == "deref":
                p = self.read_at(st, key, path)
                if p[0] == "ptr":
                    key, path = p[1], list(p[2])
                else:
                    key, path = ("root", p), []
            else:
                path.append(pe)
        return key, path

    def read_at(self, st, key, path):
        v = self.cell(st, key)
        for pe in path:
            v = self.project(v, pe, st)
        return v

    def project(self, v, pe, st):
        k = pe["k"]
        if v[0] == "ptr":
            v = self.read_at(st, v[1], v[2])
        if k == "field":
            name = pe["name"] if pe.get("name") is not None else str(pe["i"])
            if v == ("closure_env",):
                return mk("upvar", pe["i"], None)
            r = get_field(v, name)
            if r[0] == "field" and pe.get("ty"):
                self._note_type(r, pe["ty"])
            return r
        if k == "downcast":
            return get_downcast(v, pe["variant"])
        if k == "index":
            return mk("index", v, pe["_idxval"]) if "_idxval" in pe else mk("index", v, mk("local", pe["local"]))
        if k == "cindex":
            return mk("index", v, mk("const", "usize", pe["offset"]))
        if k == "deref":
            return v
        return mk("proj", v, k)

    def read_place(self, fr, pl, st):
        key, path = self.locate(fr, pl, st)
        path = [self._fix_index(fr, pe, st) for pe in path]
        return self.read_at(st, key, path)

    def _fix_index(self, fr, pe, st):
        if pe["k"] == "index" and "_idxval" not in pe:
            pe = dict(pe)
            pe["_idxval"] = self.cell(st, (fr.fid, pe["local"]))
        return pe

    def update(self, v, path, nv, st):
        if not path:
            return nv
        pe = path[0]
        if v[0] == "ptr":
            v = self.read_at(st, v[1], v[2])
        if pe["k"] == "field":
            name = pe["name"] if pe.get("name") is not None else str(pe["i"])
            return set_field(v, name, self.update(get_field(v, name), path[1:], nv, st))
        if pe["k"] == "downcast":
            if v[0] == "agg" and v[2] == pe["variant"]:
                return self.update(v, path[1:], nv, st)
            en = next((k_ for k_, vs in VARIANTS.items() if pe["variant"] in vs), None)
            if en and len(path) >= 2 and path[1]["k"] == "field" and path[1].get("i", 0) == 0 and pe["variant"] != "None":
                # overwriting (part of) the single payload of a modelled enum whose variant is the one written through
                inner = self.update(mk("field", mk("downcast", v, pe["variant"]), "0"), path[2:], nv, st)
                return agg(en, pe["variant"], inner)
            return mk("updx", v, pe["variant"], self.update(mk("downcast", v, pe["variant"]), path[1:], nv, st))
        return mk("updx", v, pe["k"], nv)

    def write_place(self, fr, pl, nv, st):
        key, path = self.locate(fr, pl, st)
        if key[0] == "root" and st.inloop:
            self._heap_in_loop = True
        st.mem[key] = self.update(self.cell(st, key), path, nv, st)

    def resolve(self, v, st, depth=0):
        """Replace pointers by the value they point to (value semantics for reporting / call arguments)."""
        if not isinstance(v, tuple) or not v:
            return v
        if isinstance(v, E):
            if v[0] == "ptr":
                if depth > 40:
                    return mk("cyclic")
                return self.resolve(self.read_at(st, v[1], v[2]), st, depth + 1)
            out = None
            for i in range(1, len(v)):
                a = v[i]
                if isinstance(a, tuple) and a:
                    r = self.resolve(a, st, depth)
                    if r is not a and r != a:
                        if out is None:
                            out = list(v)
                        out[i] = r
            return E(out) if out is not None else v
        out = None
        for i, a in enumerate(v):
            if isinstance(a, tuple) and a:
                r = self.resolve(a, st, depth)
                if r is not a and r != a:
                    if out is None:
                        out = list(v)
                    out[i] = r
        return tuple(out) if out is not None else v

    # ---- operands / rvalues
    def op(self, fr, o, st):
        if o["k"] in ("copy", "move"):
            return self.read_place(fr, o["place"], st)
        return mir.norm(fr.body.expr_op(o))

    def rvalue(self, fr, rv, st):
        k = rv["k"]
        if k == "use":
            return self.op(fr, rv["op"], st)
        if k in ("ref", "rawptr"):
            key, path = self.locate(fr, rv["place"], st)
            path = tuple(PE(self._fix_index(fr, pe, st)) for pe in path)
            return mk("ptr", key, path, bool(rv.get("mut")))
        if k == "cast":
            v = self.op(fr, rv["op"], st)
            if v[0] == "ptr":
                return v
            if v[0] == "const" and isinstance(v[2], str) and len(v[2]) == 1 and rv["ty"] in ("u8", "u32") and v[1] == "char":
                return mk("const", rv["ty"], ord(v[2]))
            if v[0] in ("closure", "fnconst"):
                return v
            return mk("cast", rv["kind"], v, rv["ty"])
        if k == "binop":
            return simp_binop(rv["op"], self.val(self.op(fr, rv["a"], st), st), self.val(self.op(fr, rv["b"], st), st))
        if k == "unop":
            return simp_unop(rv["op"], self.val(self.op(fr, rv["a"], st), st))
        if k == "discr":
            v = self.val(self.read_place(fr, rv["place"], st), st)
            ty = self._place_type(fr, rv["place"])
            if ty:
                self._note_type(v, ty)
                self._note_nvariants(v, ty)
            if v[0] == "agg":
                idx = self._variant_idx(v)
                if idx is not None:
                    return mk("const", "isize", idx)
            return mk("discr", v)
        if k == "agg":
            ops = tuple(self.op(fr, o, st) for o in rv["ops"])
            a = rv["agg"]
            if a == "adt":
                names = rv["fields"]
                if len(names) != len(ops):
                    names = [str(i) for i in range(len(ops))]
                return mk("agg", rv["adt"], rv["variant"], tuple(zip(names, ops)))
            if a == "tuple":
                return mk("tuple", ops)
            if a == "array":
                return mk("array", ops)
            if a == "closure":
                return mk("closure", rv["def"], ops)
            return mk("aggother", a, ops)
        if k == "repeat":
            return mk("repeat", self.op(fr, rv["op"], st), rv["n"])
        return mk("opaque", rv.get("text", k))

    def val(self, v, st):
        """Scalar view of a value (pointer -> pointee)."""
        n = 0
        while v[0] == "ptr" and n < 40:
            v = self.read_at(st, v[1], v[2])
            n += 1
        return v

    def _place_type(self, fr, pl):
        ty = None
        if not pl["p"]:
            return fr.body.ty(pl["l"])
        for pe in reversed(pl["p"]):
            if pe["k"] == "field":
                return pe.get("ty")
            if pe["k"] == "deref":
                continue
            break
        if all(pe["k"] == "deref" for pe in pl["p"]):
            return fr.body.ty(pl["l"])
        return ty

    def _note_nvariants(self, v, ty):
        t = ty.lstrip("&").replace("mut ", "").strip()
        if enum_of_type(t):
            self.nvariants[v] = 2
            return
        base = t.split("<")[0]
        for c in self.crates:
            for a in c.j.get("adts", []):
                if a.get("path", "").endswith(base) and str(a.get("kind", "")).lower() == "enum":
                    self.nvariants[v] = len(a.get("variants", []))
                    return

    def _variant_idx(self, v):
        vs = VARIANTS.get(v[1])
        if vs and v[2] in vs:
            return vs.index(v[2])
        for a in (a_ for c in self.crates for a_ in c.j.get("adts", [])):
            if a.get("path") == v[1]:
                for i, var in enumerate(a.get("variants", [])):
                    if var.get("name") == v[2]:
                        return i
        return None

    # ---- control flow
    def _loop_heads(self, b):
        """{loop head block: sorted locals assigned anywhere in its natural loop}"""
        h = b.__dict__.get("_sem_heads")
        if h is not None:
            return h
        h = {}
        for (src, dst) in b.back_edges():
            if dst in h:
                continue
            blocks = b.loop_blocks(dst)
            ls = set()
            for i in blocks:
                blk = b.blocks[i]
                for s in blk["stmts"]:
                    if s["k"] in ("assign", "setdiscr"):
                        ls.add(s["place"]["l"])
                        rv = s.get("rv")
                        if rv and rv["k"] in ("ref", "rawptr") and rv.get("mut", True) and not any(pe["k"] == "deref" for pe in rv["place"]["p"]):
                            ls.add(rv["place"]["l"])      # `&mut x` / `&mut x.f`: x may be written through the borrow (not: `&mut *p`)
                t = blk["term"]
                if t["k"] == "call":
                    ls.add(t["dest"]["l"])
            h[dst] = sorted(l for l in ls if not b.is_drop_flag(l))
        b.__dict__["_sem_heads"] = h
        return h

    def _run(self, fr, bb, st):
        """Generator of outcomes (state, kind, return value, site) of running `fr` from block bb."""
        b = fr.body
        heads = self._loop_heads(b)
        while True:
            key = (fr.fid, bb)
            c = st.visits.get(key, 0)
            if c >= 1 and c <= st.unroll.get(key, 0):
                # a loop driven by an iterator over a literal list: run it trip by trip (every trip consumes an element)
                st.visits[key] = c + 1
                for i_ in b.loop_blocks(bb):
                    if i_ != bb:
                        st.visits.pop((fr.fid, i_), None)
            elif c >= 1:
                if bb in heads:
                    # back edge: one trip round the loop from an arbitrary (havocked) loop state
                    yield (st, "loopback", mk("loopstate", bb, tuple((l, self.resolve(self.cell(st, (fr.fid, l)), st)) for l in heads[bb])), (b.path, bb))
                else:
                    yield (st, "loop", None, (b.path, bb))
                return
            if c == 0:
                st.visits[key] = 1
            if bb in heads and c == 0:
                lists = [self.resolve(st.mem[(fr.fid, l)], st) for l in heads[bb] if (fr.fid, l) in st.mem]
                lists = [v for v in lists if isinstance(v, tuple) and v and v[0] == "iterlist"]
                if lists:
                    st.unroll[key] = max(len(v[1]) for v in lists) + 1
            if bb in heads and c == 0 and key not in st.unroll:
                init = tuple((l, self.resolve(st.mem[(fr.fid, l)], st)) for l in heads[bb] if (fr.fid, l) in st.mem)
                st.trace = st.trace + ((mk("loopinit", fr.depth, bb, init), len(st.order), (b.path, bb)),)
                for l in heads[bb]:
                    st.mem[(fr.fid, l)] = mk("loopvar", fr.depth, bb, l)
                    self._note_type(st.mem[(fr.fid, l)], b.ty(l))
                for k_ in [k_ for k_ in st.mem if k_[0] == "root"]:
                    st.mem[k_] = mk("loopvar", fr.depth, bb, k_[1])
                st.inloop = st.inloop + ((fr.fid, bb),)
            blk = b.blocks[bb]
            for s in blk["stmts"]:
                if s["k"] == "assign":
                    self.write_place(fr, s["place"], self.rvalue(fr, s["rv"], st), st)
                elif s["k"] == "setdiscr":
                    self.write_place(fr, s["place"], mk("opaque", "setdiscr"), st)
            t = blk["term"]
            k = t["k"]
            if k == "goto":
                bb = t["target"]
                continue
            if k == "drop":
                bb = t["target"]
                continue
            if k == "return":
                yield (st, "return", self.cell(st, (fr.fid, 0)), (b.path, bb))
                return
            if k == "unreachable":
                return
            if k == "assert":
                v = self.val(self.op(fr, t["cond"], st), st)
                want = bool(t.get("expected", True))
                a, pol = canon(v)
                if a[0] == "const" and a[1] == "bool":
                    if (a[2] == pol) != want:
                        yield (st, "panic", None, (b.path, bb))
                        return
                elif a[0] == "ovf":
                    if a[1].startswith("Sub"):
                        st.trace = st.trace + ((mk("assert", "overflow_Sub", a, want == pol), len(st.order), (b.path, bb)),)
                else:
                    have = st.assume.get(a)
                    if have is None:
                        # the check is assumed to pass (panic freedom is C04.panic's subject); recorded as an event, not as a decision
                        st.trace = st.trace + ((mk("assert", t.get("kind", "?"), a, want == pol), len(st.order), (b.path, bb)),)
                    elif have != (want == pol):
                        yield (st, "panic", None, (b.path, bb))
                        return
                bb = t["target"]
                continue
            if k == "switch":
                v = self.val(self.op(fr, t["discr"], st), st)
                outs = self._switch(fr, t, v, st)
                if len(outs) == 1:
                    st, bb = outs[0]
                    continue
                for (s2, nb) in outs:
                    yield from self._run(fr, nb, s2)
                return
            if k == "call":
                res = self._call(fr, t, st, bb)
                if t["target"] is None:
                    for (s2, v) in res:
                        yield (s2, "panic", None, (b.path, bb))
                    return
                if len(res) == 1 and res[0][1] is not PANIC:
                    st, v = res[0]
                    self.write_place(fr, t["dest"], v, st)
                    bb = t["target"]
                    continue
                for (s2, v) in res:
                    if v is PANIC:
                        yield (s2, "panic", None, (b.path, bb))
                        continue
                    self.write_place(fr, t["dest"], v, s2)
                    yield from self._run(fr, t["target"], s2)
                return
            # resume / abort / other terminators: end of the normal path
            return

    def decide(self, st, v):
        """Truth of boolean value v under st (None if undetermined)."""
        a, pol = canon(v)
        if a[0] == "const" and a[1] == "bool":
            return a[2] == pol
        have = st.assume.get(a)
        if have is None:
            return None
        return have == pol

    def split_bool(self, st, v):
        """[(state, truth)] - forks on undetermined atoms; conjunctions / disjunctions are split into atoms."""
        a, pol = canon(v)
        if a[0] == "const" and a[1] == "bool":
            return [(st, a[2] == pol)]
        if a[0] == "binop" and a[1] in ("BitAnd", "BitOr") and self._is_boolish(a[2]) and self._is_boolish(a[3]):
            out = []
            for (s1, t1) in self.split_bool(st, a[2]):
                if (a[1] == "BitAnd" and not t1) or (a[1] == "BitOr" and t1):
                    out.append((s1, t1 == pol))
                else:
                    for (s2, t2) in self.split_bool(s1, a[3]):
                        out.append((s2, t2 == pol))
            return out
        have = st.assume.get(a)
        if have is not None:
            return [(st, have == pol)]
        if a[0] == "binop" and a[1] == "Eq":
            d, c = (a[2], a[3]) if a[2][0] == "discr" else (a[3], a[2])
            if d[0] == "discr" and c[0] == "const" and isinstance(c[2], int):
                # the same fact a `match` would record
                k = c[2]
                hv = st.assume.get(d)
                if isinstance(hv, int):
                    return [(st, (hv == k) == pol)]
                excl = hv[1] if hv is not None else ()
                if k in excl:
                    return [(st, not pol)]
                s1, s2 = st.fork(), st
                s1.learn(d, k)
                rest = tuple(sorted(set(excl) | {k}))
                nvar = self.nvariants.get(d[1])
                left = [i for i in range(nvar) if i not in rest] if nvar is not None else None
                s2.learn(d, left[0] if left is not None and len(left) == 1 else ("not", rest))
                return [(s1, pol), (s2, not pol)]
        s1, s2 = st.fork(), st
        s1.learn(a, True)
        s2.learn(a, False)
        return [(s1, pol), (s2, not pol)]

    def _is_boolish(self, v):
        if v[0] == "const":
            return v[1] == "bool"
        if v[0] == "binop":
            return v[1] in CMP or v[1] in ("BitAnd", "BitOr")
        if v[0] == "unop":
            return v[1] == "Not"
        if v[0] == "call":
            return True
        return False

    def _switch(self, fr, t, v, st):
        targets = [(val, bb) for val, bb in t["targets"]]
        d = t["discr"]
        if t["dty"] == "bool" and d["k"] in ("copy", "move") and not d["place"]["p"] and fr.body.is_drop_flag(d["place"]["l"]) \
                and not (v[0] == "const"):
            # an undetermined drop flag (havocked by a loop): both sides only differ by a drop
            return [(st, next((bb for val, bb in targets if val == 0), t["otherwise"]))]
        if t["dty"] == "bool":
            out = []
            for (s2, tv) in self.split_bool(st, v):
                want = 1 if tv else 0
                nb = next((bb for val, bb in targets if val == want), t["otherwise"])
                out.append((s2, nb))
            return out
        if v[0] == "const" and isinstance(v[2], (int, str)):
            cv = v[2] if isinstance(v[2], int) else (ord(v[2]) if len(v[2]) == 1 else None)
            nb = next((bb for val, bb in targets if val == cv), t["otherwise"])
            return [(st, nb)]
        have = st.assume.get(v)
        if have is not None and not (isinstance(have, tuple) and have[0] == "not"):
            nb = next((bb for val, bb in targets if val == have), t["otherwise"])
            return [(st, nb)]
        excluded = have[1] if have is not None else ()
        out = []
        live = [(val, bb) for val, bb in targets if val not in excluded]
        nvar = self.nvariants.get(v[1]) if v[0] == "discr" else None
        rest = None
        if nvar is not None:
            rest = [i for i in range(nvar) if i not in excluded and all(i != val for val, _ in targets)]
        for (val, bb) in live:
            s2 = st.fork()
            s2.learn(v, val)
            out.append((s2, bb))
        if rest is not None:
            if len(rest) == 1:
                s2 = st.fork()
                s2.learn(v, rest[0])
                out.append((s2, t["otherwise"]))
            elif len(rest) > 1:
                s2 = st.fork()
                s2.learn(v, ("not", tuple(sorted(set(excluded) | {val for val, _ in targets}))))
                out.append((s2, t["otherwise"]))
        else:
            s2 = st.fork()
            s2.learn(v, ("not", tuple(sorted(set(excluded) | {val for val, _ in targets}))))
            out.append((s2, t["otherwise"]))
        if len(out) == 1:
            return [(out[0][0], out[0][1])]
        return out

    # ---- enums
    def split_enum(self, st, x, en):
        """[(state, variant name, payload value)] for scrutinee x of modelled enum `en`."""
        x = self.val(x, st)
        names = VARIANTS[en]
        if x[0] == "agg" and x[2] in names:
            return [(st, x[2], get_field(x, "0") if x[3] else None)]
        self.enum_of.setdefault(x, en)
        self.nvariants[x] = 2
        d = mk("discr", x)
        have = st.assume.get(d)
        if isinstance(have, int):
            return [(st, names[have], mk("field", mk("downcast", x, names[have]), "0"))]
        out = []
        for i, nme in enumerate(names):
            s2 = st.fork()
            s2.learn(d, i)
            out.append((s2, nme, mk("field", mk("downcast", x, nme), "0")))
        return out

    # ---- calls
    def apply(self, fr, st, f, args, site):
        """Call function value f (closure / fn item / unknown) with a list of argument values."""
        f = self.val(f, st)
        if f[0] == "closure":
            cb = self.find_body(f[1])
            if cb is not None and fr.depth < self.max_depth and f[1] not in fr.stack and not self.opaque_closure(f[1], fr.stack):
                return self._inline(fr, st, cb, [f] + list(args))
        if f[0] == "fnconst":
            path = f[2] or f[1]
            if self.inline(path) and fr.depth < self.max_depth and path not in fr.stack:
                cb = self.find_body(path)
                if cb is not None:
                    return self._inline(fr, st, cb, list(args))
            term = mk("call", f[1], tuple(self.resolve(a, st) for a in args), f[2], ())
            return self._event(fr, st, term, args, site)
        term = mk("icall", self.resolve(f, st), tuple(self.resolve(a, st) for a in args))
        return self._event(fr, st, term, args, site)

    def _event(self, fr, st, term, args, site):
        idx = len(st.trace)
        st.trace = st.trace + ((term, len(st.order), site),)
        if self.named:
            term = mk("r", idx)
        for i, a in enumerate(args):
            if a[0] == "ptr" and a[3]:
                if a[1][0] == "root" and self.stable_roots and _base(a[1][1])[0] in ("param", "upvar"):
                    continue
                if a[1][0] == "root" and st.inloop:
                    self._heap_in_loop = True
                st.mem[a[1]] = self.update(self.cell(st, a[1]), list(a[2]), mk("post", term, i), st)
        return [(st, term)]

    def _inline(self, fr, st, cb, args):
        f2 = self._frame(cb, fr.depth + 1, fr.stack + (cb.path,))
        n = cb.arg_count
        vals = list(args)
        if cb.is_closure and len(vals) == 2 and n != 2:
            # spread the argument tuple
            tup = self.val(vals[1], st)
            vals = [vals[0]] + [get_field(tup, str(i)) for i in range(n - 1)]
        elif cb.is_closure and len(vals) == 2 and n == 2:
            tup = self.val(vals[1], st)
            if tup[0] == "tuple" and len(tup[1]) == 1:
                vals = [vals[0], tup[1][0]]
            elif tup[0] != "tuple":
                vals = [vals[0], get_field(tup, "0")]
        for i in range(1, n + 1):
            st.mem[(f2.fid, i)] = vals[i - 1] if i - 1 < len(vals) else mk("undef", f2.fid, i)
        out = []
        for (s2, kind, ret, site) in self._run(f2, 0, st):
            if kind == "return":
                out.append((s2, ret))
            elif kind == "panic":
                out.append((s2, PANIC))
            elif kind == "loopback":
                # a trip round a loop of the inlined body ends the path: it is a leaf of the whole summary
                lf = Leaf("loopback", s2, self.resolve(ret, s2), site)
                for k, val in s2.mem.items():
                    if k[0] == "root":
                        rv = self.resolve(val, s2)
                        if rv != k[1]:
                            lf.writes[k[1]] = rv
                self._leaves.append(lf)
            else:
                raise SemLimit("irreducible loop in inlined %s" % cb.path)
        return out

    def _call(self, fr, t, st, bb):
        f = t["func"]
        site = (fr.body.path, bb)
        args = [self.op(fr, a, st) for a in t["args"]]
        if f.get("indirect"):
            return self.apply(fr, st, self.op(fr, f["op"], st), args, site)
        path = f["path"]
        nm = last(path)
        full = f.get("full") or path
        if nm in ("call_once", "call_mut", "call") and ("FnOnce" in path or "FnMut" in path or "::Fn::" in path or "ops::Fn" in path) and len(args) == 2:
            fv = self.val(args[0], st)
            tup = self.val(args[1], st)
            if fv[0] == "closure":
                return self._call_closure(fr, st, fv, tup, site)
            if fv[0] == "fnconst":
                return self.apply(fr, st, fv, list(tup[1]) if tup[0] == "tuple" else [tup], site)
            term = mk("icall", self.resolve(fv, st), tuple(self.resolve(x, st) for x in (tup[1] if tup[0] == "tuple" else (tup,))))
            return self._event(fr, st, term, [], site)
        if nm not in self.opaque:
            r = self._model(fr, st, f, nm, path, full, args, site)
            if r is not None:
                return r
            target = f.get("resolved") or path
            if (self.inline(target) or self._derived_eq(target)) and fr.depth < self.max_depth and target not in fr.stack:
                cb = self.find_body(target)
                if cb is not None:
                    try:
                        snapshot = st.fork()
                        return self._inline(fr, st, cb, args)
                    except SemLimit:
                        st = snapshot
        term = mk("call", path, tuple(self.resolve(a, st) for a in args), f.get("resolved"), tuple(f.get("args", ())))
        return self._event(fr, st, term, args, site)

    def _derived_eq(self, target):
        """`<T as PartialEq>::eq` / `ne` implemented in this crate by a small loop-free body (derive): always inlined."""
        if last(target) not in ("eq", "ne") or "PartialEq" not in target:
            return False
        b = self.find_body(target)
        return b is not None and len(b.reach) <= 24 and not b.has_loop()

    def _iterlist(self, fr, st, nm, it, A, site):
        """Iterator adaptors over a literal list of elements (`[a, b, c].into_iter()...`), by their definitions."""
        elems = list(it[1])
        if nm in ("copied", "cloned") and len(A) == 1:
            return [(st, it)]
        if nm == "rev" and len(A) == 1:
            return [(st, mk("iterlist", tuple(reversed(elems))))]
        if nm == "flatten" and len(A) == 1:
            outs = [(st, [])]
            for e in elems:
                nxt = []
                for (s1, acc) in outs:
                    v = self.val(e, s1)
                    en = v[1] if v[0] == "agg" and v[1] in VARIANTS else self.enum_of.get(v)
                    if en not in (OPTION, RESULT):
                        return None
                    for (s2, var, pay) in self.split_enum(s1, v, en):
                        nxt.append((s2, acc + [pay] if var in ("Some", "Ok") else acc))
                outs = nxt
                if len(outs) > 256:
                    return None
            return [(s1, mk("iterlist", tuple(acc))) for (s1, acc) in outs]
        if nm == "map" and len(A) == 2:
            outs = [(st, [])]
            for e in elems:
                nxt = []
                for (s1, acc) in outs:
                    for (s2, v) in self.call1(fr, s1, A[1], [e], site):
                        if v is PANIC:
                            nxt.append((s2, PANIC))
                        elif acc is not PANIC:
                            nxt.append((s2, acc + [v]))
                outs = nxt
            return [(s1, mk("iterlist", tuple(acc)) if acc is not PANIC else PANIC) for (s1, acc) in outs]
        if nm == "fold" and len(A) == 3:
            outs = [(st, A[1])]
            for e in elems:
                nxt = []
                for (s1, acc) in outs:
                    if acc is PANIC:
                        nxt.append((s1, acc))
                        continue
                    nxt.extend(self.call1(fr, s1, A[2], [acc, e], site))
                outs = nxt
            return outs
        if nm in ("any", "all") and len(A) == 2:
            outs = []
            work = [(st, 0)]
            while work:
                s1, i = work.pop()
                if i >= len(elems):
                    outs.append((s1, FALSE if nm == "any" else TRUE))
                    continue
                for (s2, v) in self.call1(fr, s1, A[1], [elems[i]], site):
                    if v is PANIC:
                        outs.append((s2, PANIC))
                        continue
                    for (s3, tv) in self.split_bool(s2, self.val(v, s2)):
                        if tv == (nm == "any"):
                            outs.append((s3, TRUE if nm == "any" else FALSE))
                        else:
                            work.append((s3, i + 1))
            return outs
        if nm == "for_each" and len(A) == 2:
            outs = [(st, UNIT)]
            for e in elems:
                nxt = []
                for (s1, acc) in outs:
                    if acc is PANIC:
                        nxt.append((s1, acc))
                        continue
                    nxt.extend((s2, UNIT if v is not PANIC else PANIC) for (s2, v) in self.call1(fr, s1, A[1], [e], site))
                outs = nxt
            return outs
        return None

    def _for_each(self, fr, st, f, A, site):
        """`it.for_each(g)`: one application of g to an arbitrary element, recorded like a trip round a loop
        (kind 'loopback'); the call itself returns () and what g mutates is unknown afterwards."""
        it = self.resolve(A[0], st)
        elem = mk("field", mk("downcast", mk("call", "std::iter::Iterator::next", (it,), None, ()), "Some"), "0")
        s2 = st.fork()
        s2.inloop = s2.inloop + ((fr.fid, -1),)
        s2.trace = s2.trace + ((mk("loopinit", fr.depth, -1, ()), len(s2.order), site),)
        for (s3, v) in self.call1(fr, s2, A[1], [elem], site):
            if v is PANIC:
                continue
            lf = Leaf("loopback", s3, None, site)
            for k, val in s3.mem.items():
                if k[0] == "root":
                    rv = self.resolve(val, s3)
                    if rv != k[1]:
                        lf.writes[k[1]] = rv
            self._leaves.append(lf)
        self._heap_in_loop = True
        term = mk("call", f["path"], (it, self.resolve(A[1], st)), f.get("resolved"), tuple(f.get("args", ())))
        st.trace = st.trace + ((term, len(st.order), site),)
        return [(st, UNIT)]

    def _call_closure(self, fr, st, fv, tup, site):
        cb = self.find_body(fv[1])
        if cb is None or fr.depth >= self.max_depth or fv[1] in fr.stack or self.opaque_closure(fv[1], fr.stack):
            term = mk("icall", self.resolve(fv, st), tuple(self.resolve(x, st) for x in (tup[1] if tup[0] == "tuple" else (tup,))))
            return self._event(fr, st, term, [], site)
        return self._inline(fr, st, cb, [fv, tup])

    def call1(self, fr, st, f, arg_list, site):
        """Apply f to explicit arguments (used by the combinator models)."""
        fv = self.val(f, st)
        if fv[0] == "closure":
            return self._call_closure(fr, st, fv, mk("tuple", tuple(arg_list)), site)
        return self.apply(fr, st, fv, arg_list, site)

    # ---- std models
    def _model(self, fr, st, f, nm, path, full, args, site):
        A = args
        p = path
        is_opt = "option::Option" in p
        is_res = "result::Result" in p
        if nm == "clone" and "Clone" in p and len(A) == 1:
            if self.clone_identity:
                return [(st, self.resolve(A[0], st))]
            return None
        if nm in ("from", "into") and ("convert::From" in p or "convert::Into" in p) and len(A) == 1:
            ga = f.get("args") or []
            if len(ga) == 2 and ga[0] == ga[1]:
                return [(st, A[0])]
            return None
        if nm in ("deref", "deref_mut", "borrow", "borrow_mut") and len(A) == 1 and ("ops::Deref" in p or "borrow::Borrow" in p):
            if "String" in full or "Vec" in full or "Box" in full or "Rc" in full:
                return None
            return [(st, A[0])]
        if nm in ("as_ref", "as_mut", "as_deref", "as_deref_mut") and (is_opt or is_res) and len(A) == 1:
            return self._as_ref(st, A[0], OPTION if is_opt else RESULT)
        if nm in ("cloned", "copied") and is_opt and len(A) == 1:
            return [(st, self.resolve(A[0], st))]
        if nm in ("eq", "ne", "lt", "le", "gt", "ge") and ("cmp::PartialEq" in p or "cmp::PartialOrd" in p) and len(A) == 2:
            ga = [g.lstrip("&") for g in (f.get("args") or [])]
            if ga and all(g in PRIMS for g in ga):
                op = {"eq": "Eq", "ne": "Ne", "lt": "Lt", "le": "Le", "gt": "Gt", "ge": "Ge"}[nm]
                return [(st, simp_binop(op, self.val(A[0], st), self.val(A[1], st)))]
            if nm in ("eq", "ne") and ga and all(g.startswith("std::option::Option<") or g.startswith("core::option::Option<") or g.startswith("Option<") for g in ga):
                # Option<prim> == Option<prim> on known variants: by the derived definition
                inner = [g[g.index("<") + 1:-1].lstrip("&") for g in ga]
                x, y = self.val(A[0], st), self.val(A[1], st)
                if all(i_ in PRIMS for i_ in inner) and x[0] == "agg" and y[0] == "agg" and x[2] in ("Some", "None") and y[2] in ("Some", "None"):
                    if x[2] != y[2]:
                        r = FALSE
                    elif x[2] == "None":
                        r = TRUE
                    else:
                        r = simp_binop("Eq", self.val(get_field(x, "0"), st), self.val(get_field(y, "0"), st))
                    return [(st, r if nm == "eq" else simp_unop("Not", r))]
            return None
        if nm == "extend" and "iter::Extend" in p and len(A) == 2 and A[0][0] == "ptr":
            # Vec::extend / String::extend: the collection afterwards is the old one followed by the new elements
            old = self.read_at(st, A[0][1], A[0][2])
            nv = mk("ext", self.resolve(old, st), self.resolve(A[1], st))
            st.mem[A[0][1]] = self.update(self.cell(st, A[0][1]), list(A[0][2]), nv, st)
            st.trace = st.trace + ((mk("call", p, (self.resolve(old, st), self.resolve(A[1], st)), f.get("resolved"), tuple(f.get("args", ()))), len(st.order), site),)
            return [(st, UNIT)]
        if nm == "discriminant_value" and "intrinsics" in p and len(A) == 1:
            x = self.val(A[0], st)
            if x[0] == "agg":
                idx = self._variant_idx(x)
                if idx is not None:
                    return [(st, mk("const", "isize", idx))]
            return [(st, mk("discr", x))]
        if nm in ("into_iter", "iter") and len(A) == 1 and ("IntoIterator" in p or "slice" in p or "array" in p):
            a = self.val(A[0], st)
            if a[0] == "array":
                return [(st, mk("iterlist", tuple(a[1])))]
            if a[0] == "iterlist":
                return [(st, a)]
        if nm in ("first", "first_mut") and "slice" in p and len(A) == 1:
            # xs.first(): None when xs is empty, else Some(&xs[0]); emptiness is the atom the `is_empty()` spelling yields
            x = self.val(A[0], st)
            if x[0] == "call" and last(x[1]) == "as_bytes" and len(x[2]) == 1:
                atom = mk("call", "core::str::<impl str>::is_empty", (x[2][0],), "core::str::<impl str>::is_empty", ())
            else:
                atom = mk("call", "core::slice::<impl [T]>::is_empty", (x,), "core::slice::<impl [T]>::is_empty", ())
            out = []
            for (s2, tv) in self.split_bool(st, atom):
                out.append((s2, NONE if tv else some(mk("index", x, mk("const", "usize", 0)))))
            return out
        if nm == "next" and "Iterator" in p and len(A) == 1 and A[0][0] == "ptr":
            cur = self.resolve(self.read_at(st, A[0][1], A[0][2]), st)
            if isinstance(cur, tuple) and cur and cur[0] == "iterlist":
                if not cur[1]:
                    return [(st, NONE)]
                st.mem[A[0][1]] = self.update(self.cell(st, A[0][1]), list(A[0][2]), mk("iterlist", tuple(cur[1][1:])), st)
                return [(st, some(cur[1][0]))]
        if nm in ("flatten", "fold", "map", "any", "all", "copied", "cloned", "rev", "for_each") and "Iterator" in p and A:
            it = self.val(A[0], st)
            if it[0] == "iterlist":
                r = self._iterlist(fr, st, nm, it, A, site)
                if r is not None:
                    return r
        if nm == "for_each" and "Iterator" in p and len(A) == 2:
            return self._for_each(fr, st, f, A, site)
        if nm == "new" and "RangeInclusive" in p and len(A) == 2:
            return [(st, mk("agg", "std::ops::RangeInclusive", "RangeInclusive", (("start", A[0]), ("end", A[1]))))]
        if nm == "contains" and "ops::Range" in p and len(A) == 2:
            r = self.val(A[0], st)
            x = self.val(A[1], st)
            if r[0] == "agg" and dict(r[3]).keys() >= {"start", "end"}:
                d = dict(r[3])
                lo, hi = self.val(d["start"], st), self.val(d["end"], st)
                upper = simp_binop("Le" if "RangeInclusive" in r[1] else "Lt", x, hi)
                return [(st, simp_binop("BitAnd", simp_binop("Le", lo, x), upper))]
            return None
        if nm in ("replace", "take", "swap") and p.startswith("std::mem::"):
            if nm == "replace" and A[0][0] == "ptr":
                old = self.read_at(st, A[0][1], A[0][2])
                st.mem[A[0][1]] = self.update(self.cell(st, A[0][1]), list(A[0][2]), A[1], st)
                return [(st, old)]
            if nm == "swap" and A[0][0] == "ptr" and A[1][0] == "ptr":
                a0 = self.read_at(st, A[0][1], A[0][2])
                a1 = self.read_at(st, A[1][1], A[1][2])
                st.mem[A[0][1]] = self.update(self.cell(st, A[0][1]), list(A[0][2]), a1, st)
                st.mem[A[1][1]] = self.update(self.cell(st, A[1][1]), list(A[1][2]), a0, st)
                return [(st, UNIT)]
            return None
        if nm in ("then", "then_some") and p.startswith("std::bool") or (nm in ("then", "then_some") and "bool::" in p):
            out = []
            for (s2, tv) in self.split_bool(st, self.val(A[0], st)):
                if not tv:
                    out.append((s2, NONE))
                elif nm == "then_some":
                    out.append((s2, some(A[1])))
                else:
                    for (s3, v) in self.call1(fr, s2, A[1], [], site):
                        out.append((s3, some(v) if v is not PANIC else PANIC))
            return out
        if nm == "branch" and "ops::Try" in p and len(A) == 1:
            en = self._enum_of_call(f, A[0], st)
            if en is None:
                return None
            out = []
            for (s2, var, pay) in self.split_enum(st, A[0], en):
                if var in ("Ok", "Some"):
                    out.append((s2, agg(CFLOW, "Continue", pay)))
                elif var == "Err":
                    out.append((s2, agg(CFLOW, "Break", err(pay))))
                else:
                    out.append((s2, agg(CFLOW, "Break", NONE)))
            return out
        if nm == "from_residual" and "FromResidual" in p and len(A) == 1:
            r = self.val(A[0], st)
            ga = f.get("args") or []
            if r[0] == "agg" and r[2] == "Err":
                e = get_field(r, "0")
                same = len(ga) == 2 and _err_type(ga[0]) is not None and _err_type(ga[0]) == _err_type(ga[1])
                return [(st, err(e if same else mk("call", "std::convert::From::from", (self.resolve(e, st),), None, ())))]
            if r[0] == "agg" and r[2] == "None":
                return [(st, NONE)]
            return None
        if is_opt:
            return self._model_option(fr, st, nm, A, site)
        if is_res:
            return self._model_result(fr, st, nm, A, site)
        return None

    def _enum_of_call(self, f, x, st):
        full = f.get("full") or ""
        if "Result<" in full.split(" as ")[0]:
            return RESULT
        if "Option<" in full.split(" as ")[0]:
            return OPTION
        x = self.val(x, st)
        if x[0] == "agg" and x[1] in VARIANTS:
            return x[1]
        return self.enum_of.get(x)

    def _as_ref(self, st, a, en):
        if a[0] != "ptr":
            return [(st, a)]
        out = []
        for (s2, var, pay) in self.split_enum(st, a, en):
            if pay is None:
                out.append((s2, agg(en, var)))
            else:
                pe = (PE({"k": "downcast", "variant": var}), PE({"k": "field", "i": 0, "name": "0"}))
                out.append((s2, agg(en, var, mk("ptr", a[1], tuple(a[2]) + pe, a[3]))))
        return out

    def _cases(self, fr, st, x, en, table, site):
        """table: variant -> function(state, payload) -> [(state, value)]"""
        out = []
        for (s2, var, pay) in self.split_enum(st, x, en):
            out.extend(table[var](s2, pay))
        return out

    def _model_option(self, fr, st, nm, A, site):
        c1 = lambda f, *xs: (lambda s, p: self.call1(fr, s, f, [p] + list(xs), site))
        c0 = lambda f: (lambda s, p: self.call1(fr, s, f, [], site))
        K = lambda v: (lambda s, p: [(s, v)])
        wrap = lambda ctor, g: (lambda s, p: [(s2, ctor(v) if v is not PANIC else PANIC) for (s2, v) in g(s, p)])
        ident = lambda ctor: (lambda s, p: [(s, ctor(p))])
        x = A[0] if A else None
        T = None
        if nm == "is_some" and len(A) == 1:
            T = {"Some": K(TRUE), "None": K(FALSE)}
        elif nm == "is_none" and len(A) == 1:
            T = {"Some": K(FALSE), "None": K(TRUE)}
        elif nm == "map" and len(A) == 2:
            T = {"Some": wrap(some, c1(A[1])), "None": K(NONE)}
        elif nm == "map_or" and len(A) == 3:
            T = {"Some": c1(A[2]), "None": K(A[1])}
        elif nm == "map_or_else" and len(A) == 3:
            T = {"Some": c1(A[2]), "None": c0(A[1])}
        elif nm == "and_then" and len(A) == 2:
            T = {"Some": c1(A[1]), "None": K(NONE)}
        elif nm == "or_else" and len(A) == 2:
            T = {"Some": ident(some), "None": c0(A[1])}
        elif nm == "or" and len(A) == 2:
            T = {"Some": ident(some), "None": K(A[1])}
        elif nm == "unwrap_or" and len(A) == 2:
            T = {"Some": ident(lambda p: p), "None": K(A[1])}
        elif nm == "unwrap_or_else" and len(A) == 2:
            T = {"Some": ident(lambda p: p), "None": c0(A[1])}
        elif nm == "ok_or" and len(A) == 2:
            T = {"Some": ident(ok), "None": K(err(A[1]))}
        elif nm == "ok_or_else" and len(A) == 2:
            T = {"Some": ident(ok), "None": wrap(err, c0(A[1]))}
        elif nm in ("unwrap", "expect") and len(A) >= 1:
            T = {"Some": ident(lambda p: p), "None": K(PANIC)}
        elif nm == "flatten" and len(A) == 1:
            T = {"Some": ident(lambda p: p), "None": K(NONE)}
        elif nm == "unwrap_or_default" and len(A) == 1 and site is not None and self._default_of(fr, site) is not None:
            T = {"Some": ident(lambda p: p), "None": K(self._default_of(fr, site))}
        elif nm in ("is_some_and",) and len(A) == 2:
            T = {"Some": c1(A[1]), "None": K(FALSE)}
        elif nm in ("is_none_or",) and len(A) == 2:
            T = {"Some": c1(A[1]), "None": K(TRUE)}
        elif nm == "take" and len(A) == 1 and x[0] == "ptr":
            old = self.read_at(st, x[1], x[2])
            st.mem[x[1]] = self.update(self.cell(st, x[1]), list(x[2]), NONE, st)
            return [(st, old)]
        elif nm == "replace" and len(A) == 2 and x[0] == "ptr":
            old = self.read_at(st, x[1], x[2])
            st.mem[x[1]] = self.update(self.cell(st, x[1]), list(x[2]), some(A[1]), st)
            return [(st, old)]
        if T is None:
            return None
        return self._cases(fr, st, x, OPTION, T, site)

    def _default_of(self, fr, site):
        """Default::default() of the destination type of the call at `site`, for primitive integers / bool only."""
        try:
            t = fr.body.blocks[site[1]]["term"]
            ty = fr.body.ty(t["dest"]["l"])
        except Exception:
            return None
        if ty in ("usize", "u8", "u16", "u32", "u64", "isize", "i8", "i16", "i32", "i64"):
            return mk("const", ty, 0)
        if ty == "bool":
            return FALSE
        return None

    def _model_result(self, fr, st, nm, A, site):
        c1 = lambda f: (lambda s, p: self.call1(fr, s, f, [p], site))
        K = lambda v: (lambda s, p: [(s, v)])
        wrap = lambda ctor, g: (lambda s, p: [(s2, ctor(v) if v is not PANIC else PANIC) for (s2, v) in g(s, p)])
        ident = lambda ctor: (lambda s, p: [(s, ctor(p))])
        x = A[0] if A else None
        T = None
        if nm == "is_ok" and len(A) == 1:
            T = {"Ok": K(TRUE), "Err": K(FALSE)}
        elif nm == "is_err" and len(A) == 1:
            T = {"Ok": K(FALSE), "Err": K(TRUE)}
        elif nm == "map" and len(A) == 2:
            T = {"Ok": wrap(ok, c1(A[1])), "Err": ident(err)}
        elif nm == "map_err" and len(A) == 2:
            T = {"Ok": ident(ok), "Err": wrap(err, c1(A[1]))}
        elif nm == "and_then" and len(A) == 2:
            T = {"Ok": c1(A[1]), "Err": ident(err)}
        elif nm == "or_else" and len(A) == 2:
            T = {"Ok": ident(ok), "Err": c1(A[1])}
        elif nm == "unwrap_or" and len(A) == 2:
            T = {"Ok": ident(lambda p: p), "Err": K(A[1])}
        elif nm == "unwrap_or_else" and len(A) == 2:
            T = {"Ok": ident(lambda p: p), "Err": c1(A[1])}
        elif nm == "map_or" and len(A) == 3:
            T = {"Ok": c1(A[2]), "Err": K(A[1])}
        elif nm == "map_or_else" and len(A) == 3:
            T = {"Ok": c1(A[2]), "Err": c1(A[1])}
        elif nm == "ok" and len(A) == 1:
            T = {"Ok": ident(some), "Err": K(NONE)}
        elif nm == "err" and len(A) == 1:
            T = {"Ok": K(NONE), "Err": ident(some)}
        elif nm in ("unwrap", "expect") and len(A) >= 1:
            T = {"Ok": ident(lambda p: p), "Err": K(PANIC)}
        elif nm in ("unwrap_err", "expect_err") and len(A) >= 1:
            T = {"Ok": K(PANIC), "Err": ident(lambda p: p)}
        elif nm == "is_ok_and" and len(A) == 2:
            T = {"Ok": c1(A[1]), "Err": K(FALSE)}
        elif nm == "is_err_and" and len(A) == 2:
            T = {"Ok": K(FALSE), "Err": c1(A[1])}
        if T is None:
            return None
        return self._cases(fr, st, x, RESULT, T, site)


def _base(t):
    while t[0] in ("field", "downcast", "deref"):
        t = t[1]
    return t


def _xkey(path):
    q = mir.qself(path)
    if q is not None:
        return ("trait", last(q[1].split("<")[0]), q[2])
    segs = mir.strip_generics(path).split("::")
    if len(segs) >= 3:
        return ("item", segs[-2], segs[-1])
    return None


class _Panic:
    def __repr__(self):
        return "PANIC"

    def __getitem__(self, i):
        return "PANIC"


PANIC = _Panic()


def _err_type(ty):
    """E of `Result<T, E>` (outermost), or None."""
    if "Result<" not in ty:
        return None
    inner = ty[ty.index("Result<") + len("Result<"):]
    depth = 0
    for i, ch in enumerate(inner):
        if ch in "<([":
            depth += 1
        elif ch in ">)]":
            if depth == 0:
                return None
            depth -= 1
        elif ch == "," and depth == 0:
            rest = inner[i + 1:].strip()
            # strip the closing '>' of the Result
            d = 0
            for j, c2 in enumerate(rest):
                if c2 in "<([":
                    d += 1
                elif c2 in ">)]":
                    if d == 0:
                        return rest[:j].strip()
                    d -= 1
            return rest
    return None
