"""Field-name-level lifting of result plumbing (C02.plumb, DESIGN.md §2.4).

For every generated function the value of its Ok result is described as a *provenance term* per
named field and compared with the provenance the grammar expression denotes:

  ('app', T, wraps)     one match of rule/type T, post-processed by wraps ⊆ [box, variant:T, some|vec]
  ('seq', (p..))        concatenation in order (first binding, then `extend`s)
  ('alt', (p..))        one entry per choice arm (('default',) for arms lacking the field)
  ('opt', p)            p, or the default when the optional body fails
  ('rep', p)            extended once per successful closure iteration
  ('default',)

Descriptors of a whole result:  ('unit',) | ('one', p) | ('struct', ((name, p), ..))
"""
from . import mir, finite, ebnf
from .mir import short, last, strip, walk, norm, is_call
from .lift import Unliftable, unclone, ok_payload_of, okstate_source, TERMINALS


DEFAULT = ("default",)


def is_default_expr(e):
    if e[0] == "agg" and e[2] == "None" and e[1].endswith("Option"):
        return True
    if is_call(e, "new") and "Vec" in e[1] and not e[2]:
        return True
    if is_call(e, "default") and not e[2]:
        return True
    return False


class Plumber:
    def __init__(self, cx, inst, lifter):
        self.cx = cx
        self.inst = inst
        self.crate = inst.crate
        self.L = lifter
        self.cache = {}

    # ------------------------------------------------------------ closures used as maps
    def closure_ret(self, clo, where):
        cb = self.cx.body(self.crate, clo[1])
        if cb is None:
            raise Unliftable(where, "no body for closure")
        ds = cb.defs.get(0, [])
        if len(ds) != 1:
            raise Unliftable(where, "map closure with %d returns" % len(ds))
        d = ds[0]
        return cb, norm(cb.expr_rv(d[3]) if d[2] == "rv" else cb.expr_call(d[3]))

    def apply_map(self, desc, f, where):
        """desc: descriptor of the mapped value; f: function operand of map_inner (fnconst or closure)."""
        if f[0] == "fnconst":
            p = f[1]
            l = last(p)
            sp = mir.strip_generics(p)
            if l == "new" and "Box" in sp:
                return self.wrap(desc, "box", where)
            if l == "Some":
                return self.wrap(desc, "some", where)
            # enum variant constructor: <prefix>::<Rule>_<field>::<T>  (imported as Parsed_<field>)
            return self.wrap(desc, "variant:" + l.replace("r#", ""), where)
        if f[0] != "closure":
            raise Unliftable(where, "map_inner with an uninterpretable function: %s" % mir.show(f)[:80])
        cb, e = self.closure_ret(f, where)
        P = ("param", 2)
        # vec![result]
        if any(is_call(s_, "into_vec", "box_assume_init_into_vec_unsafe") or (s_[0] == "call" and "into_vec" in s_[1]) for s_ in walk(e)) or \
                (e[0] == "array" and e[1] == (P,)):
            return self.wrap(desc, "vec", where)
        # |_| default
        if is_default_expr(e):
            return ("one", DEFAULT)
        if e == ("tuple", ()):
            return ("unit",)
        # |r| Parsed{n: r.n | r | default}
        if e[0] == "agg" and e[2] not in ("Ok", "Err", "Some", "None"):
            out = []
            for (n, v) in e[3]:
                n = n.replace("r#", "")
                if is_default_expr(v):
                    out.append((n, DEFAULT))
                elif v == P:
                    if desc[0] != "one":
                        raise Unliftable(where, "field %s is fed by the whole sub-result, which is not a single value" % n)
                    out.append((n, desc[1]))
                elif v[0] == "field" and v[1] == P:
                    src = v[2].replace("r#", "")
                    if desc[0] != "struct" or src not in dict(desc[1]):
                        raise Unliftable(where, "field %s reads component %s that the sub-result does not have" % (n, src))
                    out.append((n, ("from", src, dict(desc[1])[src])))
                else:
                    raise Unliftable(where, "field %s of a converted result is fed by %s" % (n, mir.show(v)[:80]))
            return ("struct", tuple(out))
        raise Unliftable(where, "uninterpretable map closure: %s" % mir.show(e)[:120])

    def wrap(self, desc, w, where):
        if desc[0] != "one" or desc[1][0] != "app":
            raise Unliftable(where, "post-processing `%s` applied to something that is not a single field match: %s" % (w, str(desc)[:80]))
        return ("one", ("app", desc[1][1], desc[1][2] + (w,)))

    # ------------------------------------------------------------ expressions
    def val_expr(self, b, e, where):
        e = norm(e)
        if e[0] == "agg" and e[2] == "Ok":
            return ("unit",)
        if e[0] != "call":
            raise Unliftable(where, "not a call: %s" % mir.show(e)[:100])
        l = last(e[1])
        args = e[2]
        kind = self.L.callee_kind(e)
        if kind is not None:
            k, v = kind
            if k == "rule":
                return ("one", ("app", v, ()))
            if k == "sub":
                return self.val_fn(v)
            if k == "builtin_ws":
                return ("one", ("app", "Whitespace", ()))
            if k == "terminal":
                if TERMINALS[v] == "anychar":
                    return ("one", ("app", "char", ()))
                return ("one", ("app", "<terminal>", ()))
        if l == "discard_result":
            return ("unit",)
        if l == "map_inner":
            return self.apply_map(self.val_expr(b, args[0], where), args[1], where)
        if l == "and_then" and "Result" in e[1]:
            clo = args[1]
            cb = self.cx.body(self.crate, clo[1])
            ds = cb.defs.get(0, [])
            inner = norm(cb.expr_rv(ds[0][3]) if ds[0][2] == "rv" else cb.expr_call(ds[0][3]))
            return self.val_expr(cb, inner, where)
        if l == "or_else" and "Result" in e[1]:
            d = self.val_expr(b, args[0], where)
            cb, he = self.closure_ret(args[1], where)
            # Ok(ParseOk{result: <defaults>, state: ..})
            res = dict(he[3][0][1][3]).get("result") if he[0] == "agg" and he[2] == "Ok" else None
            if res is None:
                raise Unliftable(where, "optional failure handler does not build an Ok result")
            if d[0] == "unit":
                if res != ("tuple", ()):
                    raise Unliftable(where, "optional without fields returns %s on failure" % mir.show(res)[:60])
                return ("unit",)
            if d[0] == "one":
                if not is_default_expr(res):
                    raise Unliftable(where, "optional's failure path returns %s instead of the default" % mir.show(res)[:80])
                return ("one", ("opt", d[1]))
            # struct: every field default, same names
            if not (res[0] == "agg" and all(is_default_expr(v) for (_, v) in res[3])):
                raise Unliftable(where, "optional's failure path does not default every field: %s" % mir.show(res)[:120])
            names_fail = [n.replace("r#", "") for (n, _) in res[3]]
            if names_fail != [n for (n, _) in d[1]]:
                raise Unliftable(where, "optional's failure path builds fields %s but the success path %s" % (names_fail, [n for n, _ in d[1]]))
            return ("struct", tuple((n, ("opt", p)) for (n, p) in d[1]))
        if l == "end" and "ChoiceHelper" in e[1]:
            chain = []
            cur = args[0]
            while is_call(cur, "choice"):
                chain.append(cur[2][1])
                cur = cur[2][0]
            arms = []
            for k_, clo in enumerate(reversed(chain)):
                cb = self.cx.body(self.crate, clo[1])
                ds = cb.defs.get(0, [])
                ae = norm(cb.expr_rv(ds[0][3]) if ds[0][2] == "rv" else cb.expr_call(ds[0][3]))
                arms.append(self.val_expr(cb, ae, where + " (arm %d)" % k_))
            kinds = {a[0] for a in arms}
            if kinds == {"unit"}:
                return ("unit",)
            if kinds <= {"one"}:
                return ("one", ("alt", tuple(a[1] for a in arms)))
            if kinds == {"struct"}:
                names = [n for (n, _) in arms[0][1]]
                for a in arms:
                    if [n for (n, _) in a[1]] != names:
                        raise Unliftable(where, "choice arms produce different field sets: %s vs %s" % ([n for n, _ in a[1]], names))
                return ("struct", tuple((n, ("alt", tuple(dict(a[1])[n] for a in arms))) for n in names))
            raise Unliftable(where, "choice arms produce results of different shapes: %s" % sorted(kinds))
        if l == "map" and "Result" in e[1]:
            return self.val_expr(b, args[0], where)
        raise Unliftable(where, "uninterpretable result expression: %s" % mir.show(e)[:160])

    # ------------------------------------------------------------ functions
    def val_fn(self, path):
        if path in self.cache:
            return self.cache[path]
        d = self._val_fn(path)
        self.cache[path] = d
        return d

    def _val_fn(self, path):
        b = self.cx.body(self.crate, path)
        where = path[len(self.inst.prefix) + 2:]
        if b.has_loop():
            return self.val_loop(b, where)
        ds = b.defs.get(0, [])
        tries = [(i, t) for i, t in b.calls() if not t["func"].get("indirect") and last(t["func"]["path"]) == "branch" and "Try" in t["func"]["path"]]
        if len(ds) == 1 and not tries:
            e = norm(b.expr_rv(ds[0][3]) if ds[0][2] == "rv" else b.expr_call(ds[0][3]))
            if e[0] == "call":
                return self.val_expr(b, e, where)
            return ("unit",)
        if not tries:
            return ("unit",)      # negative lookahead
        # `?`-threaded body: evaluate the success path with extend tracking
        okb = None
        for d in ds:
            e = norm(b.expr_rv(d[3])) if d[2] == "rv" else None
            if e is not None and e[0] == "agg" and e[2] == "Ok":
                okb = d[0]
        if okb is None:
            raise Unliftable(where, "no success return")
        paths = [p for p in finite.paths_between(b, 0, [okb])]
        if not paths:
            raise Unliftable(where, "no path to the success return")
        pth = paths[0]
        env = ExtExec(b).run(pth)
        ret = env.get(0)
        if ret is None or not (ret[0] == "agg" and ret[2] == "Ok"):
            raise Unliftable(where, "cannot evaluate the success value")
        res = dict(ret[3][0][1][3]).get("result")
        return self.describe_value(b, res, where)

    def source_desc(self, b, s, where):
        """s: ok(APP).result  or  ok(APP).result.<n>"""
        comp = None
        x = s
        if x[0] == "field" and x[2] != "result":
            comp = x[2].replace("r#", "")
            x = x[1]
        if not (x[0] == "field" and x[2] == "result"):
            raise Unliftable(where, "result component does not come from a parser application: %s" % mir.show(s)[:100])
        pl = ok_payload_of(x[1])
        if pl is None:
            raise Unliftable(where, "result component does not come from an Ok payload: %s" % mir.show(s)[:100])
        app = pl[2][0] if is_call(pl, "branch") else pl
        d = self.val_expr(b, app, where)
        if comp is None:
            if d[0] == "one":
                return d[1]
            if d[0] == "unit":
                return ("unitvalue",)
            raise Unliftable(where, "a multi-field sub-result is used as one value")
        if d[0] != "struct" or comp not in dict(d[1]):
            raise Unliftable(where, "component %s not present in the sub-result" % comp)
        return dict(d[1])[comp]

    def flatten_ext(self, v):
        out = []
        while v[0] == "ext":
            out.append(v[2])
            v = v[1]
        out.append(v)
        out.reverse()
        return out

    def describe_field(self, b, v, where):
        srcs = self.flatten_ext(v)
        ps = [self.source_desc(b, s, where) for s in srcs]
        return ps[0] if len(ps) == 1 else ("seq", tuple(ps))

    def describe_value(self, b, res, where):
        if res is None or res == ("tuple", ()):
            return ("unit",)
        if res[0] == "agg" and not res[1].endswith(("Option", "Result")) and res[2] not in ("Some", "None"):
            return ("struct", tuple((n.replace("r#", ""), self.describe_field(b, v, where)) for (n, v) in res[3]))
        return ("one", self.describe_field(b, res, where))

    def val_loop(self, b, where):
        heads = sorted({j for (_, j) in b.back_edges()})
        head = heads[0]
        loop = b.loop_blocks(head)
        # matched application
        R = None
        Rt = None
        for i, t in b.calls():
            if i in loop and not t["func"].get("indirect"):
                ty = b.ty(t["dest"]["l"]) if not t["dest"]["p"] else ""
                if ty.startswith("std::result::Result<") and "ParseOk" in ty:
                    R, Rt = norm(b.expr_call(t)), t
        if R is None:
            raise Unliftable(where, "loop without application")
        body_desc = self.val_expr(b, R, where)
        # extends inside the loop
        from .rules import templates
        exts = {}
        for i, t in b.calls():
            if i in loop and not t["func"].get("indirect") and last(t["func"]["path"]) == "extend":
                tgt = templates.ref_target(b, t["args"][0])
                src = norm(b.expr_op(t["args"][1]))
                exts.setdefault(tgt, []).append((i, src))
        okres = ("field", ("field", ("downcast", R, "Ok"), "0"), "result")
        ds = b.defs.get(0, [])
        oke = [norm(b.expr_rv(d[3])) for d in ds if d[2] == "rv" and norm(b.expr_rv(d[3]))[0] == "agg" and norm(b.expr_rv(d[3]))[2] == "Ok"]
        if len(oke) != 1:
            raise Unliftable(where, "closure with %d success returns" % len(oke))
        res = dict(oke[0][3][0][1][3]).get("result")

        def acc_desc(acc, name):
            if acc[0] != "local":
                raise Unliftable(where, "closure result %s is not an accumulator" % name)
            inits = [d for d in b.defs.get(acc[1], []) if d[0] not in b.reachable_from(head)]
            if len(inits) != 1 or not is_default_expr(norm(b.expr_call(inits[0][3]) if inits[0][2] == "call" else b.expr_rv(inits[0][3]))):
                raise Unliftable(where, "accumulator %s is not initialised empty" % name)
            es = exts.get(acc, [])
            if len(es) != 1:
                raise Unliftable(where, "accumulator %s is extended %d times per iteration (exactly once expected)" % (name, len(es)))
            (bi, src) = es[0]
            # on the Ok edge only
            okedge = any(e == ("discr", R) and v == 0 for (e, v, d) in b.atoms(bi))
            if not okedge:
                raise Unliftable(where, "accumulator %s is extended outside the successful edge of the iteration" % name)
            if src == okres:
                if body_desc[0] != "one":
                    raise Unliftable(where, "accumulator %s is extended with a whole multi-field result" % name)
                return ("rep", body_desc[1])
            if src[0] == "field" and src[1] == okres:
                comp = src[2].replace("r#", "")
                if body_desc[0] != "struct" or comp not in dict(body_desc[1]):
                    raise Unliftable(where, "accumulator %s extended with missing component %s" % (name, comp))
                return ("rep", ("from", comp, dict(body_desc[1])[comp]))
            raise Unliftable(where, "accumulator %s is extended with %s, not with this iteration's result" % (name, mir.show(src)[:80]))
        if res is None or res == ("tuple", ()):
            if exts:
                raise Unliftable(where, "field-less closure extends something")
            return ("unit",)
        if res[0] == "agg":
            return ("struct", tuple((n.replace("r#", ""), acc_desc(v, n)) for (n, v) in res[3]))
        return ("one", acc_desc(res, "<single>"))


class ExtExec(finite.SymExec):
    """SymExec that models `Extend::extend(&mut acc, v)` as acc := ext(acc, v)."""

    def run(self, path):
        from .rules import templates
        b = self.b
        env = {}
        for k, x in enumerate(path):
            blk = b.blocks[x]
            for st in blk["stmts"]:
                if st["k"] != "assign":
                    continue
                pl = st["place"]
                if not pl["p"]:
                    env[pl["l"]] = self.rv(st["rv"], env)
            t = blk["term"]
            if t["k"] == "call" and k + 1 < len(path):
                f = t["func"]
                if not f.get("indirect") and last(f["path"]) == "extend" and "Extend" in f["path"]:
                    tgt = templates.ref_target(b, t["args"][0])
                    if tgt[0] == "local":
                        cur = env.get(tgt[1], norm(b.expr_local(tgt[1])))
                        env[tgt[1]] = mir.mk("ext", cur, self.op(t["args"][1], env))
                    continue
                if not t["dest"]["p"]:
                    args = tuple(self.op(a, env) for a in t["args"])
                    if f.get("indirect"):
                        env[t["dest"]["l"]] = mir.mk("icall", self.op(f["op"], env), args)
                    else:
                        env[t["dest"]["l"]] = mir.mk("call", f["path"], args, f.get("resolved"), tuple(f.get("args", ())))
        return env


# ---------------------------------------------------------------------------- normalisation / expected side

def strip_from(p):
    """('from', comp, p) is bookkeeping of which component was read: names are compared separately."""
    if not isinstance(p, tuple):
        return p
    if p[0] == "from":
        return strip_from(p[2])
    if p[0] in ("seq", "alt"):
        return (p[0], tuple(strip_from(x) for x in p[1]))
    if p[0] in ("opt", "rep"):
        return (p[0], strip_from(p[1]))
    return p


def from_names_ok(p, name):
    """Every ('from', comp, ..) inside p must read the component of the same name."""
    if not isinstance(p, tuple):
        return None
    if p[0] == "from":
        if p[1] != name:
            return "field `%s` is fed by component `%s` of a sub-result" % (name, p[1])
        return from_names_ok(p[2], name)
    if p[0] in ("seq", "alt"):
        for x in p[1]:
            r = from_names_ok(x, name)
            if r:
                return r
        return None
    if p[0] in ("opt", "rep"):
        return from_names_ok(p[1], name)
    return None


def expected_prov(g, e, n, RF, depth=0):
    """Provenance of rule field n in grammar expression e (None if e has no field n)."""
    k = e[0]
    if k == "field":
        nm = "_override" if e[1] == "@" else e[1]
        if nm != n:
            return None
        f = RF[n]
        wraps = []
        if f.types.get(e[3]):
            wraps.append("box")
        if len(f.types) > 1:
            wraps.append("variant:" + e[3])
        if f.arity == ebnf.OPT:
            wraps.append("some")
        elif f.arity == ebnf.MULT:
            wraps.append("vec")
        return ("app", e[3], tuple(wraps))
    if k in ("lit", "range", "eoi", "neg", "pos"):
        return None
    if k == "group":
        return expected_prov(g, e[1], n, RF, depth + 1)
    if k == "include":
        return expected_prov(g, g.rule(e[1]).body, n, RF, depth + 1)
    if k == "opt":
        p = expected_prov(g, e[1], n, RF, depth + 1)
        return ("opt", p) if p is not None else None
    if k == "closure":
        p = expected_prov(g, e[1], n, RF, depth + 1)
        return ("rep", p) if p is not None else None
    if k == "seq":
        ps = [expected_prov(g, x, n, RF, depth + 1) for x in e[1]]
        ps = [p for p in ps if p is not None]
        if not ps:
            return None
        return ps[0] if len(ps) == 1 else ("seq", tuple(ps))
    if k == "choice":
        ps = [expected_prov(g, x, n, RF, depth + 1) for x in e[1]]
        if all(p is None for p in ps):
            return None
        if len(ps) == 1:
            return ps[0]
        return ("alt", tuple(p if p is not None else DEFAULT for p in ps))
    raise ValueError(k)


def show_prov(p):
    if not isinstance(p, tuple):
        return str(p)
    k = p[0]
    if k == "app":
        return p[1] + ("".join("." + w for w in p[2]))
    if k == "default":
        return "∅"
    if k in ("seq", "alt"):
        return ("[" if k == "seq" else "<") + (" ++ " if k == "seq" else " | ").join(show_prov(x) for x in p[1]) + ("]" if k == "seq" else ">")
    if k == "opt":
        return "opt(%s)" % show_prov(p[1])
    if k == "rep":
        return "rep(%s)" % show_prov(p[1])
    if k == "from":
        return "%s<-.%s" % (show_prov(p[2]), p[1])
    return str(p)
