"""Independent reader of the peginator grammar syntax, written from doc/syntax.md (plus the
`#` comment / whitespace convention), NOT derived from the bootstrapped parser.  Also the
model of the documented field -> type mapping.

AST
  Grammar.rules : list of Rule
  Rule: kind ('rule'|'char'|'extern'), name, directives {string,no_skip_ws,export,position,memoize,leftrec},
        checks [path str], body (expr) | char_parts | extern (function, return_type)
  expr: ('choice', [e..]) ('seq', [e..]) ('group', e) ('opt', e) ('closure', e, plus) ('neg', e) ('pos', e)
        ('range', a, b) ('lit', s, insensitive) ('eoi',) ('include', name) ('field', name|None|'@', boxed, typ)
"""
import re


class ParseFail(Exception):
    def __init__(self, pos, msg):
        Exception.__init__(self, "%s at offset %d" % (msg, pos))
        self.pos = pos


class Rule:
    def __init__(self, kind, name):
        self.kind = kind
        self.name = name
        self.flags = set()
        self.checks = []
        self.body = None
        self.char_parts = None
        self.extern = None

    def __repr__(self):
        return "<%s %s %s>" % (self.kind, self.name, sorted(self.flags))


class Grammar:
    def __init__(self, rules, text):
        self.rules = rules
        self.text = text
        self.by_name = {r.name: r for r in rules}

    def rule(self, name):
        return self.by_name.get(name)


IDENT = re.compile(r"[A-Za-z0-9_]+")
HEX = "0123456789abcdefABCDEF"


class Reader:
    def __init__(self, text):
        self.t = text
        self.i = 0

    # whitespace: the five ASCII whitespace characters and `#` comments up to a newline
    def ws(self):
        t, i = self.t, self.i
        while i < len(t):
            c = t[i]
            if c in "\t\n\x0c\r ":
                i += 1
            elif c == "#":
                j = t.find("\n", i)
                if j < 0:
                    break        # a comment must end with a newline (Comment = '#' {!'\n' char} '\n')
                i = j + 1
            else:
                break
        self.i = i

    def lit(self, s, skip=True):
        if skip:
            self.ws()
        if self.t.startswith(s, self.i):
            self.i += len(s)
            return True
        return False

    def expect(self, s):
        if not self.lit(s):
            raise ParseFail(self.i, "expected %r" % s)

    def ident(self, skip=True):
        if skip:
            self.ws()
        m = IDENT.match(self.t, self.i)
        if not m:
            return None
        self.i = m.end()
        return m.group(0)

    # ---- string items
    def string_item(self):
        t = self.t
        if self.i >= len(t):
            raise ParseFail(self.i, "unexpected end in literal")
        c = t[self.i]
        if c != "\\":
            self.i += 1
            return c
        self.i += 1
        if self.i >= len(t):
            raise ParseFail(self.i, "dangling backslash")
        e = t[self.i]
        simple = {"n": "\n", "r": "\r", "t": "\t", "\\": "\\", "'": "'", '"': '"'}
        if e in simple:
            self.i += 1
            return simple[e]
        if e == "x":
            h = t[self.i + 1:self.i + 3]
            if len(h) == 2 and all(x in HEX for x in h):
                self.i += 3
                return chr(int(h, 16))
            raise ParseFail(self.i, "bad \\x escape")
        if e == "u":
            if t[self.i + 1:self.i + 2] == "{":
                j = self.i + 2
                k = j
                while k < len(t) and t[k] in HEX and k - j < 6:
                    k += 1
                if k > j and t[k:k + 1] == "}":
                    self.i = k + 1
                    return self._cp(int(t[j:k], 16))
                raise ParseFail(self.i, "bad \\u{} escape")
            h = t[self.i + 1:self.i + 5]
            if len(h) == 4 and all(x in HEX for x in h):
                self.i += 5
                return self._cp(int(h, 16))
            raise ParseFail(self.i, "bad \\u escape")
        if e == "U":
            h = t[self.i + 1:self.i + 9]
            if len(h) == 8 and h[:2] == "00" and all(x in HEX for x in h):
                self.i += 9
                return self._cp(int(h[2:], 16))
            raise ParseFail(self.i, "bad \\U escape")
        raise ParseFail(self.i, "unknown escape \\%s" % e)

    def _cp(self, n):
        if n > 0x10FFFF or 0xD800 <= n <= 0xDFFF:
            return ("invalid", n)
        return chr(n)

    def char_range_part(self):
        """"'" StringItem "'"  (no whitespace inside)"""
        save = self.i
        self.ws()
        if not self.t.startswith("'", self.i):
            self.i = save
            return None
        self.i += 1
        try:
            c = self.string_item()
        except ParseFail:
            self.i = save
            return None
        if not self.t.startswith("'", self.i):
            self.i = save
            return None
        self.i += 1
        return c

    def character_range(self):
        save = self.i
        a = self.char_range_part()
        if a is None:
            return None
        if not self.lit(".."):
            self.i = save
            return None
        b = self.char_range_part()
        if b is None:
            self.i = save
            return None
        return ("range", a, b)

    def string_literal(self):
        save = self.i
        self.ws()
        ins = False
        if self.t.startswith("i", self.i) and self.t[self.i + 1:self.i + 2] in ("'", '"'):
            ins = True
            self.i += 1
        q = self.t[self.i:self.i + 1]
        if q not in ("'", '"'):
            self.i = save
            return None
        self.i += 1
        out = []
        while True:
            if self.i >= len(self.t):
                self.i = save
                return None
            if self.t[self.i] == q:
                self.i += 1
                break
            try:
                out.append(self.string_item())
            except ParseFail:
                self.i = save
                return None
        return ("lit", tuple(out), ins)

    # ---- expressions
    def delimited(self):
        save = self.i
        if self.lit("("):
            e = self.choice()
            if self.lit(")"):
                return ("group", e)
            self.i = save
        if self.lit("["):
            e = self.choice()
            if self.lit("]"):
                return ("opt", e)
            self.i = save
        if self.lit("{"):
            e = self.choice()
            if self.lit("}"):
                plus = self.lit("+")
                return ("closure", e, plus)
            self.i = save
        if self.lit("!"):
            e = self.delimited()
            if e is not None:
                return ("neg", e)
            self.i = save
        if self.lit("&"):
            e = self.delimited()
            if e is not None:
                return ("pos", e)
            self.i = save
        r = self.character_range()
        if r is not None:
            return r
        s = self.string_literal()
        if s is not None:
            return s
        if self.lit("$"):
            return ("eoi",)
        if self.lit(">"):
            n = self.ident()
            if n is not None:
                return ("include", n)
            self.i = save
        return self.field()

    def field(self):
        save = self.i
        # [(name | '@') ':' ['*']] typ
        name = None
        boxed = False
        n = self.ident()
        if n is None and self.lit("@"):
            n = "@"
        if n is not None and self.lit(":"):
            # guard against '::' (not part of field syntax, but keep PEG behaviour: ':' matched literally)
            name = n
            boxed = self.lit("*")
            typ = self.ident()
            if typ is not None:
                return ("field", name, boxed, typ)
            # the optional prefix matched but typ is missing: PEG backtracks the optional
        self.i = save
        typ = self.ident()
        if typ is None:
            self.i = save
            return None
        return ("field", None, False, typ)

    def sequence(self):
        parts = []
        while True:
            save = self.i
            e = self.delimited()
            if e is None:
                self.i = save
                break
            parts.append(e)
        return ("seq", parts)

    def choice(self):
        alts = [self.sequence()]
        while True:
            save = self.i
            if self.lit("|"):
                alts.append(self.sequence())
            else:
                self.i = save
                break
        return ("choice", alts)

    # ---- rules
    def rust_name(self):
        parts = []
        while True:
            # RustNamePart = {!('-' | ')' | ':') char}+  in a skipping @string rule
            self.ws()
            j = self.i
            buf = []
            while self.i < len(self.t):
                k = self.i
                self.ws()
                if self.i >= len(self.t) or self.t[self.i] in "-):":
                    self.i = k
                    break
                buf.append(self.t[k:self.i + 1])
                self.i += 1
            if not buf:
                raise ParseFail(self.i, "expected a rust name")
            parts.append("".join(buf).strip() if True else "")
            if self.lit("::"):
                continue
            break
        return parts

    def directive(self):
        save = self.i
        for lit, flag in (("@string", "string"), ("@no_skip_ws", "no_skip_ws"), ("@export", "export"), ("@position", "position"),
                          ("@memoize", "memoize"), ("@leftrec", "leftrec")):
            if self.lit(lit):
                return ("flag", flag)
        c = self.check_directive()
        if c is not None:
            return c
        self.i = save
        return None

    def check_directive(self):
        save = self.i
        if self.lit("@check"):
            try:
                self.expect("(")
                nm = self.rust_name()
                self.expect(")")
                return ("check", "::".join(nm))
            except ParseFail:
                pass
        self.i = save
        return None

    def rule(self):
        save = self.i
        r = Rule("rule", None)
        while True:
            d = self.directive()
            if d is None:
                break
            if d[0] == "flag":
                r.flags.add(d[1])
            else:
                r.checks.append(d[1])
        n = self.ident()
        if n is None or not self.lit("="):
            self.i = save
            return None
        r.name = n
        r.body = self.choice()
        return r

    def char_rule(self):
        save = self.i
        r = Rule("char", None)
        while True:
            c = self.check_directive()
            if c is None:
                break
            r.checks.append(c[1])
        if not self.lit("@char"):
            self.i = save
            return None
        while True:
            c = self.check_directive()
            if c is None:
                break
            r.checks.append(c[1])
        n = self.ident()
        if n is None or not self.lit("="):
            self.i = save
            return None
        r.name = n
        parts = []
        while True:
            p = self.character_range()
            if p is None:
                c = self.char_range_part()
                if c is not None:
                    p = ("lit", (c,), False)
                else:
                    i2 = self.ident()
                    if i2 is None:
                        self.i = save
                        return None
                    p = ("ref", i2)
            parts.append(p)
            if not self.lit("|"):
                break
        r.char_parts = parts
        return r

    def extern_rule(self):
        save = self.i
        if not self.lit("@extern"):
            return None
        try:
            self.expect("(")
            fn = self.rust_name()
            ret = None
            if self.lit("->"):
                ret = self.rust_name()
            self.expect(")")
        except ParseFail:
            self.i = save
            return None
        n = self.ident()
        if n is None:
            self.i = save
            return None
        r = Rule("extern", n)
        r.extern = ("::".join(fn), "::".join(ret) if ret else None)
        return r

    def grammar(self):
        rules = []
        while True:
            save = self.i
            r = self.rule() or self.char_rule() or self.extern_rule()
            if r is None or not self.lit(";"):
                self.i = save
                break
            rules.append(r)
        self.ws()
        if self.i != len(self.t):
            raise ParseFail(self.i, "expected a rule or end of input")
        return Grammar(rules, self.t)


def parse(text):
    return Reader(text).grammar()


def parse_file(path):
    with open(path, encoding="utf-8") as f:
        return parse(f.read())


# ------------------------------------------------------------------ documented field/type mapping

ONE, OPT, MULT = "One", "Optional", "Multiple"
_ORD = {ONE: 0, OPT: 1, MULT: 2}


class FieldInfo:
    def __init__(self, name, arity, types):
        self.name = name
        self.arity = arity
        self.types = dict(types)     # type name -> boxed

    def copy(self):
        return FieldInfo(self.name, self.arity, self.types)

    def __repr__(self):
        return "%s:%s%s" % (self.name, self.arity, sorted(self.types.items()))


class Reject(Exception):
    pass


def fields_of(e, g, depth=0):
    """Ordered list of FieldInfo for expression e, following the prose of the syntax reference."""
    if depth > 200:
        raise Reject("include cycle")
    k = e[0]
    if k == "field":
        if e[1] is None:
            return []
        return [FieldInfo("_override" if e[1] == "@" else e[1], ONE, {e[3]: e[2]})]
    if k in ("lit", "range", "eoi"):
        return []
    if k in ("neg", "pos"):
        if fields_of(e[1], g, depth + 1):
            raise Reject("fields inside a lookahead")
        return []
    if k == "group":
        return fields_of(e[1], g, depth + 1)
    if k == "include":
        r = g.rule(e[1])
        if r is None or r.kind != "rule":
            raise Reject("include of a missing / @char / @extern rule")
        return fields_of(r.body, g, depth + 1)
    if k == "opt":
        out = fields_of(e[1], g, depth + 1)
        for f in out:
            if f.arity == ONE:
                f.arity = OPT
        return out
    if k == "closure":
        out = fields_of(e[1], g, depth + 1)
        for f in out:
            f.arity = MULT
        return out
    if k == "seq":
        out = []
        for p in e[1]:
            for f in fields_of(p, g, depth + 1):
                ex = [x for x in out if x.name == f.name]
                if ex:
                    ex[0].arity = MULT
                    for t, bx in f.types.items():
                        ex[0].types[t] = ex[0].types.get(t, False) or bx
                else:
                    out.append(f.copy())
        return out
    if k == "choice":
        out = []
        first = True
        for alt in e[1]:
            fs = fields_of(alt, g, depth + 1)
            names = {f.name for f in fs}
            if not first:
                for x in out:
                    if x.arity == ONE and x.name not in names:
                        x.arity = OPT
            for f in fs:
                ex = [x for x in out if x.name == f.name]
                if ex:
                    if _ORD[f.arity] > _ORD[ex[0].arity]:
                        ex[0].arity = f.arity
                    for t, bx in f.types.items():
                        ex[0].types[t] = ex[0].types.get(t, False) or bx
                else:
                    nf = f.copy()
                    if not first and nf.arity == ONE:
                        nf.arity = OPT
                    out.append(nf)
            first = False
        return out
    raise ValueError(k)


def rust_type_of_field(rule_name, f, enum_prefix=None):
    """Documented Rust type (as rustc prints it, crate-relative names) of field f of rule rule_name."""
    if len(f.types) > 1:
        inner = "%s_%s" % (enum_prefix or rule_name, f.name)
    else:
        (t, bx), = f.types.items()
        inner = "char" if t == "char" else t
        if bx:
            inner = "Box<%s>" % inner
    if f.arity == OPT:
        return "Option<%s>" % inner
    if f.arity == MULT:
        return "Vec<%s>" % inner
    return inner


def declared_shape(r, g):
    """What the documented mapping says the public item for rule r is:
    ('alias', type) | ('unit',) | ('struct', [(field, type)...]) | ('enum', [(variant, payload type)...])
    plus auxiliary enums [(name, [(variant, payload)])]."""
    aux = []
    if r.kind == "char":
        return ("alias", "char"), aux
    if r.kind == "extern":
        return ("alias", r.extern[1] or "String"), aux
    if "string" in r.flags:
        if "position" in r.flags:
            return ("struct", [("string", "String"), ("position", "Range<usize>")]), aux
        return ("alias", "String"), aux
    fs = fields_of(r.body, g)
    if len(fs) == 1 and fs[0].name == "_override":
        f = fs[0]
        if len(f.types) <= 1:
            return ("alias", rust_type_of_field(r.name, f)), aux
        return ("enum", [(t, ("Box<%s>" % t) if bx else ("char" if t == "char" else t)) for t, bx in sorted(f.types.items())]), aux
    if any(f.name == "_override" for f in fs):
        raise Reject("mixing @: with named fields")
    for f in fs:
        if len(f.types) > 1:
            aux.append(("%s_%s" % (r.name, f.name), [(t, ("Box<%s>" % t) if bx else ("char" if t == "char" else t)) for t, bx in sorted(f.types.items())]))
    fields = [(f.name, rust_type_of_field(r.name, f)) for f in fs]
    if "position" in r.flags:
        fields.append(("position", "Range<usize>"))
    if not fields:
        return ("unit",), aux
    return ("struct", fields), aux
