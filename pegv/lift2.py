"""Semantic lifter (DESIGN.md §14.3): the parser term a generated function denotes, read off its semantic
summary (sem.py) instead of the shape of its MIR.

Every generated function (and every closure handed to ChoiceHelper::choice) is one *unit*.  Its summary - with the
runtime's result helpers (ChoiceHelper, map_inner, discard_result, ParseOk::map..) inlined, results of parser calls
kept as symbols and `record_error` / `report_error` / `report_farthest_error` read as state/error constructors -
is a decision tree over the outcomes of the parser calls it makes.  The tree is matched against the continuation
semantics of the PEG operators:

    chain  c1(S) ok-> c2(ok1) ok-> ... -> END            every call starts where the previous one ended
    END    Ok(state = last)          consuming            Ok(state = entry)     lookahead
           Err(report_error(entry, NegativeLookaheadFailed))                   negated
    FAIL   Err(err_i)                propagate            Ok(state = record_error(entry, err_i))   optional
           Ok(state = entry)         negated              next alternative from record_error(entry, err_i), ending in
                                                          Err(report_farthest_error(..))            ordered choice
    LOOP   state variable L := entry; trip: chain from L, L := last; exit on failure with Ok(record_error(L, err))
           (`+`: a counter 0,+1 per trip whose zero test turns that exit into Err(report_farthest_error(..)))

so `match`, `if let`, `?`, `is_ok()`, combinators, early returns, extracted helpers and renamed modules all lift
alike.  Terms are those of lift.py in canonical form (`canon`).
"""
from . import mir, sem, lift
from .mir import mk, last, short, is_call
from .lift import Unliftable, TERMINALS

P1 = mk("param", 1)


def canon(t):
    """Canonical term: skipped(W, x) = seq(W, x); nested sequences flattened; singleton sequences dropped."""
    if not isinstance(t, tuple) or not t:
        return t
    k = t[0]
    if k == "skipped":
        return canon(("seq", (("ref", "Whitespace"), t[2])))
    if k == "seq":
        out = []
        for x in t[1]:
            c = canon(x)
            if c[0] == "seq":
                out.extend(c[1])
            elif c[0] == "empty":
                continue
            else:
                out.append(c)
        if not out:
            return ("empty",)
        return out[0] if len(out) == 1 else ("seq", tuple(out))
    if k == "choice":
        alts = []
        for x in t[1]:
            c = canon(x)
            alts.append(c)
            if infallible(c):
                break        # later alternatives can never be tried
        # a last alternative that is itself a choice / optional which cannot fail is tried exactly like its own alternatives
        while alts and infallible(alts[-1]) and alts[-1][0] in ("choice", "opt") and len(alts) > 1:
            last_alt = alts.pop()
            alts.extend(last_alt[1] if last_alt[0] == "choice" else (last_alt[1], ("empty",)))
        if len(alts) == 2 and alts[1] == ("empty",):
            return ("opt", alts[0])      # `(x | )` and `[x]` are the same parser, failure bookkeeping included
        return alts[0] if len(alts) == 1 and infallible(alts[0]) and len(t[1]) > 1 else ("choice", tuple(alts))
    if k in ("opt", "star", "plus", "not", "and"):
        c = canon(t[1])
        if k == "opt" and infallible(c):
            return c         # an optional around something that cannot fail never takes its failure branch
        return (k, c)
    if k == "charclass":
        return ("charclass", tuple(canon(x) for x in t[1]), t[2])
    return t


def infallible(t):
    """A term that succeeds on every input (so that an alternative after it is dead)."""
    k = t[0]
    if k in ("opt", "star", "empty"):
        return True
    if k == "seq":
        return all(infallible(x) for x in t[1])
    if k == "choice":
        return any(infallible(x) for x in t[1])
    return False


class Node:
    __slots__ = ("type", "k", "term", "sarg", "children", "leaf", "atom", "extra")

    def __init__(self, type_, **kw):
        self.type = type_
        self.k = self.term = self.sarg = self.leaf = self.atom = self.extra = None
        self.children = {}
        for a, b in kw.items():
            setattr(self, a, b)


class SemLifter:
    def __init__(self, cx, inst):
        self.cx, self.inst, self.crate = cx, inst, inst.crate
        self.cache = {}
        self.stack = []
        self.own_ws = "Whitespace" in inst.rule_fns

        def inline(p):
            return "peginator::" in p and ("ChoiceHelper" in p or "ParseResultExtras" in p
                                                    or ("ParseOk" in p and last(p) in ("map", "map_with_state")))

        def opaque_closure(d, stack):
            return any(last(q) == "choice" and "ChoiceHelper" in q for q in stack)
        self.S = sem.Sem(cx, inst.crate, inline=inline, extra_crates=[cx.runtime], opaque_closure=opaque_closure,
                         stable_roots=True, max_leaves=6000)
        self.S.named = True

    # ------------------------------------------------------------ calls
    def call_kind(self, term):
        if term[0] == "icall":
            f = term[1]
            if f[0] == "closure":
                return ("arm", f[1])
            return None
        if term[0] != "call":
            return None
        p = mir.strip_generics(term[1])
        l = last(term[1])
        pre = self.inst.prefix + "::"
        raw = term[3] or term[1]
        if raw in self.inst.fns or term[1] in self.inst.fns or p.startswith(pre):
            rest = p[len(pre):] if p.startswith(pre) else p
            if "::" not in rest and rest.startswith("parse_"):
                return ("rule", rest[len("parse_"):])
            path = raw if raw in self.inst.fns else term[1]
            if path in self.inst.fns and self._returns_parse_result(path):
                return ("sub", path)
            return None
        if l in TERMINALS and (p.startswith("peginator::") or "builtin_parsers" in p):
            return ("terminal", l)
        if l == "parse_Whitespace" and (p.startswith("peginator::") or "builtin_parsers" in p):
            return ("ws", l)
        return None

    def _returns_parse_result(self, path):
        f = self.inst.fns.get(path)
        out = (f or {}).get("output", "")
        return "ParseOk" in out or "ParseResult" in out

    def term_of_call(self, node, where):
        kind = node.extra
        t = node.term
        if kind[0] == "rule":
            return ("ref", kind[1])
        if kind[0] == "ws":
            if self.own_ws:
                raise Unliftable(where, "the built-in whitespace skipper is called although the grammar defines its own Whitespace rule")
            return ("ref", "Whitespace")
        if kind[0] == "sub":
            return self.lift_fn(kind[1])
        if kind[0] == "arm":
            return self.lift_fn(kind[1], entry=mk("param", 2))
        if kind[0] == "terminal":
            v = kind[1]
            tk = TERMINALS[v]
            args = t[2]
            if tk in ("lit", "ilit"):
                c = args[1]
                if c[0] != "const" or not isinstance(c[2], str):
                    raise Unliftable(where, "literal argument is not a constant: %s" % mir.show(c))
                if v.startswith("parse_character") and len(c[2]) != 1:
                    raise Unliftable(where, "character literal of length %d" % len(c[2]))
                return ("lit", c[2], tk == "ilit")
            if tk == "range":
                a, c = args[1], args[2]
                if a[0] != "const" or c[0] != "const":
                    raise Unliftable(where, "range ends are not constants")
                return ("range", a[2], c[2])
            if tk == "eoi":
                return ("eoi",)
            if tk == "anychar":
                return ("anychar",)
        raise Unliftable(where, "uninterpretable parser call %s" % mir.show(t)[:120])

    # ------------------------------------------------------------ state / error forms
    def sform(self, leaf, v, entry):
        """Canonical form of a state value: ENTRY | ('ok', k) | ('rec', S, E) | ('lv', ..) | ('?', shown)"""
        if v == entry:
            return "ENTRY"
        if v[0] == "loopvar":
            return ("lv", v[2], v[3])
        if v[0] == "field" and v[2] == "state" and v[1][0] == "field" and v[1][2] == "0" and v[1][1][0] == "downcast" \
                and v[1][1][2] in ("Ok", "Continue") and v[1][1][1][0] == "r":
            return ("ok", v[1][1][1][1])
        if v[0] == "r":
            t = leaf.trace[v[1]][0]
            if is_call(t, "record_error") and len(t[2]) == 2:
                return ("rec", self.sform(leaf, t[2][0], entry), self.eform(leaf, t[2][1], entry))
            if is_call(t, "clone") and len(t[2]) == 1:
                return self.sform(leaf, t[2][0], entry)
        return ("?", mir.show(v)[:80])

    def eform(self, leaf, v, entry):
        if v[0] == "field" and v[2] == "0" and v[1][0] == "downcast" and v[1][2] in ("Err", "Break") and v[1][1][0] == "r":
            return ("err", v[1][1][1])
        if v[0] == "r":
            t = leaf.trace[v[1]][0]
            if is_call(t, "report_error") and len(t[2]) == 2:
                spec = t[2][1]
                return ("report", self.sform(leaf, t[2][0], entry), spec[2] if spec[0] == "agg" else mir.show(spec)[:40])
            if is_call(t, "report_farthest_error") and len(t[2]) == 1:
                return ("farthest", self.sform(leaf, t[2][0], entry))
        return ("?", mir.show(v)[:80])

    def ret_form(self, leaf, entry):
        """('ok', S) | ('err', E) | ('tail', k) | ('?', ..)"""
        r = leaf.ret
        if r is None:
            return ("?", leaf.kind)
        if r[0] == "r":
            return ("tail", r[1])
        if r[0] == "agg" and r[2] == "Ok" and r[1] == sem.RESULT:
            x = sem.get_field(r, "0")
            return ("ok", self.sform(leaf, sem.get_field(x, "state"), entry))
        if r[0] == "agg" and r[2] == "Err" and r[1] == sem.RESULT:
            return ("err", self.eform(leaf, sem.get_field(r, "0"), entry))
        return ("?", mir.show(r)[:100])

    # ------------------------------------------------------------ decision tree
    def items_of(self, leaf, entry):
        """Program-ordered items of a leaf: ('call', k) for parser calls, ('loop', k) for loop entries, ('as', atom, value)."""
        evs = {}
        for idx, ev in enumerate(leaf.trace):
            t = ev[0]
            if t[0] == "loopinit":
                evs.setdefault(ev[1], []).append(("loop", idx))
            elif self.call_kind(t) is not None:
                evs.setdefault(ev[1], []).append(("call", idx))
        out = []
        for i, (a, v) in enumerate(leaf.assume):
            out.extend(evs.get(i, ()))
            out.append(("as", a, v))
        out.extend(evs.get(len(leaf.assume), ()))
        return out

    def build(self, leaves, entry, where):
        seqs = [(l, self.items_of(l, entry)) for l in leaves]
        return self._build(seqs, 0, entry, where)

    def _build(self, seqs, pos, entry, where):
        if not seqs:
            return None
        done = [(l, it) for (l, it) in seqs if pos >= len(it)]
        if done:
            if len(seqs) != 1:
                raise Unliftable(where, "ambiguous decision tree (two paths with the same decisions)")
            return Node("ret" if done[0][0].kind != "loopback" else "loopback", leaf=done[0][0])
        heads = {it[pos][:2] if it[pos][0] != "as" else ("as", it[pos][1]) for (l, it) in seqs}
        if len(heads) != 1:
            raise Unliftable(where, "paths diverge without a decision: %s" % sorted(map(str, heads))[:2])
        h = heads.pop()
        leaf0 = seqs[0][0]
        if h[0] == "call":
            k = h[1]
            term = leaf0.trace[k][0]
            if any(l.trace[k][0] != term for (l, it) in seqs):
                raise Unliftable(where, "paths make different calls at the same point")
            n = Node("call", k=k, term=term, extra=self.call_kind(term), leaf=leaf0)
            a0 = term[2][0] if term[0] == "call" else (term[2][0] if term[2] else None)
            n.sarg = self.sform(leaf0, a0, entry) if a0 is not None else ("?", "no state argument")
            n.children["next"] = self._build(seqs, pos + 1, entry, where)
            return n
        if h[0] == "loop":
            n = Node("loop", k=h[1], term=leaf0.trace[h[1]][0], leaf=leaf0)
            n.children["next"] = self._build(seqs, pos + 1, entry, where)
            return n
        atom = h[1]
        n = Node("cond", atom=atom)
        groups = {}
        for (l, it) in seqs:
            groups.setdefault(it[pos][2], []).append((l, it))
        for val, grp in groups.items():
            n.children[val] = self._build(grp, pos + 1, entry, where)
        return n

    def outcomes(self, node, where):
        """(ok subtree, err subtree) of a call node; a result returned unexamined propagates both ways."""
        nx = node.children.get("next")
        d = mk("discr", mk("r", node.k))
        if nx is not None and nx.type == "cond" and nx.atom == d:
            ok = nx.children.get(0)
            er = nx.children.get(1)
            for val, ch in nx.children.items():
                if isinstance(val, tuple) and val and val[0] == "not":
                    if 0 in val[1] and er is None:
                        er = ch
                    if 1 in val[1] and ok is None:
                        ok = ch
            return ok, er
        if nx is not None and nx.type in ("ret", "loopback"):
            rf = ("tail", node.k) if nx.leaf.ret is not None and nx.leaf.ret == mk("r", node.k) else None
            if rf:
                return Node("vret", extra=("ok", ("ok", node.k))), Node("vret", extra=("err", ("err", node.k)))
        raise Unliftable(where, "the outcome of %s is not examined right after the call" % mir.show(node.term)[:80])

    def retf(self, node, entry):
        if node is None:
            return ("?", "missing branch")
        if node.type == "vret":
            return node.extra
        if node.type == "ret":
            if node.leaf.kind != "return":
                return ("?", node.leaf.kind)
            return self.ret_form(node.leaf, entry)
        if node.type == "loopback":
            ctx = self.__dict__.get("_loop_ctx")
            if ctx is None or node.leaf.ret is None:
                return ("?", "loopback")
            nv = dict(node.leaf.ret[2]).get(ctx["state_local"])
            if nv is None:
                return ("?", "loop state lost")
            # counters must have been stepped exactly by one
            for c in ctx["counters"]:
                cv = dict(node.leaf.ret[2]).get(c)
                lv = mk("loopvar", ctx["depth"], ctx["head"], c)
                if not (cv is not None and cv[0] == "binop" and cv[1] == "Add" and cv[2] == lv and cv[3][0] == "const" and cv[3][2] == 1):
                    ctx["uncounted"].add(c)
            return ("ok", self.sform(node.leaf, nv, entry))
        return None

    # ------------------------------------------------------------ units
    def lift_fn(self, path, entry=P1):
        key = (path, entry)
        if key in self.cache:
            return self.cache[key]
        if key in self.stack:
            raise Unliftable(short(path), "recursive module structure")
        self.stack.append(key)
        try:
            t = self._lift_fn(path, entry)
        finally:
            self.stack.pop()
        self.cache[key] = t
        return t

    def where_of(self, path):
        return path[len(self.inst.prefix) + 2:] if path.startswith(self.inst.prefix) else short(path)

    def _lift_fn(self, path, entry):
        where = self.where_of(path)
        try:
            sm = self.S.summarize(path)
        except sem.SemLimit as ex:
            raise Unliftable(where, "not summarised: %s" % ex)
        if sm is None:
            raise Unliftable(where, "no MIR for function")
        if not sm.complete:
            raise Unliftable(where, "irreducible control flow")
        bad = [l for l in sm.leaves if l.kind not in ("return",)]
        if bad:
            raise Unliftable(where, "a path ends in a %s" % bad[0].kind)
        tree = self.build(sm.leaves + sm.loopbacks, entry, where)
        saved = (self.__dict__.get("_rest_memo"), self.__dict__.get("_rest_objs"), self.__dict__.get("_alt_objs"))
        self._rest_memo, self._rest_objs, self._alt_objs = {}, {}, {}
        try:
            try:
                self._prefer_infallible = False
                t = canon(self.lift_tree(tree, "ENTRY", entry, where))
            except Unliftable:
                # second reading: a later alternative that cannot fail ends its choice (`(x | [y])` written without a helper)
                self._rest_memo, self._rest_objs, self._alt_objs = {}, {}, {}
                self._prefer_infallible = True
                try:
                    t = canon(self.lift_tree(tree, "ENTRY", entry, where))
                finally:
                    self._prefer_infallible = False
            # what the plumbing lifter needs of this unit
            self.__dict__.setdefault("units", {})[(path, entry)] = {"sm": sm, "tree": tree, "rest_objs": self._rest_objs, "entry": entry,
                                                                    "mode": self.__dict__.get("_modes", {}).get(id(tree))}
            return t
        finally:
            self._rest_memo = saved[0] if saved[0] is not None else {}
            self._rest_objs = saved[1] if saved[1] is not None else {}
            self._alt_objs = saved[2] if saved[2] is not None else {}

    def rest(self, node, cur, S, entry, where):
        """The remainder of a unit from `node`, the state reached being `cur` (S = the unit's own entry state):
        (terms, [failure-exit modes], end kind).  A run of items whose failures all continue exactly like the success of the
        run's last item - from the run's start state with the failure recorded - is an optional group."""
        key = (id(node), cur, S)
        memo = self.__dict__.setdefault("_rest_memo", {})
        if key in memo:
            r = memo[key]
            if isinstance(r, Unliftable):
                raise r
            return r
        try:
            r = self._rest(node, cur, S, entry, where)
        except Unliftable as ex:
            memo[key] = ex
            raise
        memo[key] = r
        return r

    def _rest(self, node, cur, S, entry, where):
        # --- one item at this position, then the remainder after it
        last_ex = None
        for (term, okn, oks, fails, obj) in self.first_items(node, cur, S, entry, where):
            try:
                r = self.rest(okn, oks, S, entry, where)
                modes = [self.fail_mode(n, e, cur, S, entry, where) for (n, e) in fails]
            except Unliftable as ex:
                last_ex = ex
                continue
            objs = self.__dict__.setdefault("_rest_objs", {})
            objs[(id(node), cur, S)] = [obj] + objs.get((id(okn), oks, S), [])
            return ([term] + r[0], modes + r[1], r[2])
        if last_ex is not None:
            raise last_ex
        # --- no item starts here: the end of the unit
        ef = self.retf(node, entry)
        if ef is None:
            if node is not None and node.type == "call":
                raise Unliftable(where, "a parser call that does not start from the state reached so far: %s starts from %s, reached %s"
                                 % (mir.show(node.term)[:60], node.sarg, cur))
            raise Unliftable(where, "unexpected %s in the decision tree" % (node.type if node is not None else "end"))
        if node.type == "loopback":
            if ef == ("ok", cur):
                return ([], [], "again")
            raise Unliftable(where, "after a successful iteration the loop does not continue from that iteration's resulting state: %s" % (ef,))
        if ef == ("ok", cur):
            return ([], [], "consume")
        if ef == ("ok", S):
            return ([], [], "peek")
        if ef[0] == "err" and ef[1][0] == "report" and ef[1][1] == S and ef[1][2] == "NegativeLookaheadFailed":
            return ([], [], "fail")
        raise Unliftable(where, "after the last parser call the function returns %s (reached state %s)" % (ef, cur))

    def atom(self, node, cur, where):
        if node is not None and node.type == "call" and node.sarg == cur:
            ok, er = self.outcomes(node, where)
            return (self.term_of_call(node, where), ok, ("ok", node.k), [(er, ("err", node.k))], ("atom", node))
        return None

    def composite(self, kind, node, cur, S, entry, where):
        """The reading of the item at `node` as an optional group / an ordered-choice group, or None.  A request that re-enters
        the recognition of the same kind at the same point (a group cannot start with itself) gets None."""
        key = ("comp", kind, id(node), cur, S)
        memo = self.__dict__.setdefault("_rest_memo", {})
        if key in memo:
            return memo[key]
        memo[key] = None          # re-entrancy guard
        item = None
        if kind == "opt":
            # optional group: a run of items whose failures all continue exactly like the run's success, from the run's start
            # state with the failure recorded (the run may start with a choice group: `[a | b]`)
            for (terms, okn, oks, fails, pobjs) in self.prefixes(node, cur, S, entry, where, first=("choice",)):
                if not fails:
                    continue
                try:
                    K = self.rest(okn, oks, S, entry, where)
                    good = all(self.rest(n, ("rec", cur, e), S, entry, where) == K for (n, e) in fails)
                except Unliftable:
                    good = False
                if good:
                    item = (("opt", canon(("seq", tuple(terms)))), okn, oks, [], ("opt", pobjs))
                    break
        else:
            # ordered choice: alternatives tried one after the other, failures recorded, every success continuing alike
            try:
                alts, K, okn, oks, fin = self.alt_rest(node, cur, S, entry, where, cur)
            except Unliftable:
                alts = None
            if alts is not None and len(alts) >= 2 and K is not None:
                arms = self.__dict__.setdefault("_alt_objs", {}).get(("alt", id(node), cur, S, cur), [])
                item = (("choice", tuple(alts)), okn, oks, [fin] if fin is not None else [], ("choice", arms))
        memo[key] = item
        return item

    def first_items(self, node, cur, S, entry, where):
        """Candidate readings of the first item at `node` (state `cur`): (term, ok node, ok state, [(failure node, error form)], structure).
        Composite items first (optional group, ordered-choice group), then the plain call."""
        a0 = self.atom(node, cur, where)
        if a0 is None:
            return []
        out = []
        for kind in ("opt", "choice"):
            it = self.composite(kind, node, cur, S, entry, where)
            if it is not None:
                out.append(it)
        out.append(a0)
        return out

    def prefixes(self, node, cur, S, entry, where, limit=10, first=()):
        """Growing runs of items from `node`: (terms, ok node, ok state, accumulated failure exits, structure).  The first item is
        read as one of the composite kinds in `first` (if it is one) or as a plain call; inside a run the first viable reading of
        each further item is taken (composite before plain)."""
        starts = []
        for kind in first:
            it = self.composite(kind, node, cur, S, entry, where)
            if it is not None:
                starts.append(it)
        a0 = self.atom(node, cur, where)
        if a0 is not None:
            starts.append(a0)
        for start_item in starts:
            terms, fails, objs = [], [], []
            item = start_item
            for _ in range(limit):
                term, okn, oks, fl, obj = item
                terms = terms + [term]
                fails = fails + list(fl)
                objs = objs + [obj]
                yield (list(terms), okn, oks, list(fails), list(objs))
                item = None
                if okn is not None and okn.type == "call" and okn.sarg == oks:
                    for cand in self.first_items(okn, oks, S, entry, where):
                        item = cand
                        break
                if item is None:
                    break

    def alt_rest(self, node, st, S, entry, where, start):
        """(alternatives, K, ok node, ok state, final failure exit): from `node`, reached with state `st`, alternatives are tried
        in order - each a run of items starting at st, a failure anywhere in it leading to the next alternative from st with
        that failure recorded, its success continuing with K - until the choice as a whole fails with the farthest recorded
        failure (final failure exit = (node, ('farthest', state with all failures recorded)))."""
        key = ("alt", id(node), st, S, start)
        memo = self.__dict__.setdefault("_rest_memo", {})
        if key in memo:
            r = memo[key]
            if isinstance(r, Unliftable):
                raise r
            return r
        stack = self.__dict__.setdefault("_alt_stack", [])
        stack.append(st)
        try:
            r = self._alt_rest(node, st, S, entry, where, start)
        except Unliftable as ex:
            memo[key] = ex
            raise
        finally:
            stack.pop()
        memo[key] = r
        return r

    def _alt_rest(self, node, st, S, entry, where, start):
        last_ex = None
        any_prefix = False
        infallible_fallback = None
        for (terms, okn, oks, fails, pobjs) in self.prefixes(node, st, S, entry, where, first=("opt",)):
            any_prefix = True
            try:
                K = self.rest(okn, oks, S, entry, where)
                if not fails and terms and st != start and isinstance(st, tuple) and st and st[0] == "rec" and self.__dict__.get("_prefer_infallible"):
                    # a later alternative that cannot fail (an optional group, a closure): it ends the choice, which then never fails.
                    # Only in the second reading of a unit (see _lift_fn): used when no reading with a failure exit exists.
                    self.__dict__.setdefault("_alt_objs", {})[("alt", id(node), st, S, start)] = [(pobjs, canon(("seq", tuple(terms))))]
                    return [canon(("seq", tuple(terms)))], K, okn, oks, None
                tails = None
                for (n, e) in fails:
                    alts_m, K_m, _, _, fin_m = self.alt_rest(n, ("rec", st, e), S, entry, where, start)
                    if K_m is not None and K_m != K:
                        raise Unliftable(where, "alternatives of one choice continue differently after succeeding")
                    if tails is None:
                        tails = (alts_m, fin_m)
                    elif tails[0] != alts_m or self._fin_sig(tails[1], S, entry, where, st, start) != self._fin_sig(fin_m, S, entry, where, st, start):
                        import os
                        if os.environ.get("LIFT2_DEBUG"):
                            print("TAILS DIFFER at", st, "\n  A:", tails[0], self._fin_sig(tails[1], S, entry, where, st, start), "\n  B:", alts_m, self._fin_sig(fin_m, S, entry, where, st, start))
                        raise Unliftable(where, "the alternatives tried after a failure depend on which part failed")
                if tails is None:
                    raise Unliftable(where, "an alternative that cannot fail")
            except Unliftable as ex:
                last_ex = ex
                continue
            # structure for the plumbing lifter: this alternative's items, then those of the alternatives after it (taken from
            # the continuation of this alternative's first failure exit)
            ao = self.__dict__.setdefault("_alt_objs", {})
            n0, e0 = fails[0]
            this_key = ("alt", id(node), st, S, start)
            ao[this_key] = [(pobjs, canon(("seq", tuple(terms))))] + ao.get(("alt", id(n0), ("rec", st, e0), S, start), [])
            pre = ([canon(("seq", tuple(terms)))] + tails[0], K, okn, oks, tails[1])
            res = self._maybe_nested(pre, st, S, entry, where, start)
            if res is not pre and tails[1] is not None:
                # the alternatives read here are a parenthesised group followed by the alternatives of the enclosing choice
                n_f, E_f = tails[1]
                ao[this_key] = ao[this_key] + ao.get(("alt", id(n_f), ("rec", st, E_f), S, start), [])
            return res
        if not any_prefix:
            # an alternative that consumes nothing and cannot fail (`| )`): the choice continues from the state reached so far
            if node is not None and node.type in ("ret", "vret", "loopback"):
                try:
                    K0 = self.rest(node, st, S, entry, where)
                except Unliftable:
                    K0 = None
                if K0 is not None and K0[0] == [] and K0[2] in ("consume", "again"):
                    self.__dict__.setdefault("_alt_objs", {})[("alt", id(node), st, S, start)] = [([], ("empty",))]
                    return [("empty",)], K0, node, st, None
            # no alternative left: the choice as a whole fails with the farthest recorded failure
            return [], None, None, None, (node, ("farthest", st))
        if infallible_fallback is not None:
            pobjs, term, K, okn, oks = infallible_fallback
            self.__dict__.setdefault("_alt_objs", {})[("alt", id(node), st, S, start)] = [(pobjs, term)]
            return [term], K, okn, oks, None
        raise last_ex or Unliftable(where, "unrecognised alternative")

    def _maybe_nested(self, res, st, S, entry, where, start):
        """The alternatives read so far end in a failure exit that is no exit of the unit: they form a parenthesised choice that
        is itself the first alternative of an enclosing choice, whose further alternatives start from `st` with the inner
        choice's farthest failure recorded."""
        alts, K, okn, oks, fin = res
        if len(alts) < 2 or fin is None or self._fin_sig(fin, S, entry, where)[0] == "mode":
            return res
        n_f, E_f = fin
        try:
            alts_o, K_o, _, _, fin_o = self.alt_rest(n_f, ("rec", st, E_f), S, entry, where, start)
        except Unliftable:
            return res
        if K_o is not None and K_o != K:
            return res
        return [("choice", tuple(alts))] + alts_o, K, okn, oks, fin_o

    def _fin_sig(self, fin, S, entry, where, st=None, start=None):
        """What the final failure exit of a list of alternatives amounts to: an exit of the unit (its mode), or - seen from a
        choice that started at `st` - the further alternatives of an enclosing choice."""
        if fin is None:
            return ("mode", ("never",))
        n, e = fin
        try:
            return ("mode", self.fail_mode(n, e, None, S, entry, where))
        except Unliftable:
            pass
        cands = []
        if st is not None:
            for g in [st] + list(reversed(self.__dict__.get("_alt_stack", []))) + [start]:
                if g is not None and g not in cands:
                    cands.append(g)
        for g in cands:
            # g: where the parenthesised group may have started (this alternative, or an earlier one of the same choice)
            try:
                alts_o, K_o, _, _, fin_o = self.alt_rest(n, ("rec", g, e), S, entry, where, start)
            except Unliftable:
                continue
            sig_o = self._fin_sig(fin_o, S, entry, where)
            if alts_o or sig_o[0] == "mode":
                return ("outer", g == st, tuple(alts_o), K_o, sig_o)
        return ("node", id(n))

    def fail_mode(self, n, e, cur, S, entry, where):
        f = self.retf(n, entry)
        if f == ("err", e):
            return ("propagate",)
        if f == ("ok", ("rec", S, e)):
            return ("optional",)
        if f == ("ok", S):
            return ("negated",)
        ctx = self.__dict__.get("_loop_ctx")
        if f is None and ctx is not None and n is not None and n.type == "cond":
            a = n.atom
            if a[0] == "binop" and a[1] == "Eq":
                for x, y in ((a[2], a[3]), (a[3], a[2])):
                    if x[0] == "loopvar" and x[3] in ctx["counters"] and y[0] == "const" and y[2] == 0:
                        ft, ff = self.retf(n.children.get(True), entry), self.retf(n.children.get(False), entry)
                        if ft == ("err", ("farthest", ("rec", S, e))) and ff == ("ok", ("rec", S, e)):
                            ctx["used_counter"].add(x[3])
                            return ("plus",)
            raise Unliftable(where, "the failing iteration is followed by an unrecognised decision: %s" % mir.show(a)[:80])
        raise Unliftable(where, "a failing parser call leaves the function with %s" % (f,))

    def lift_tree(self, node, S, entry, where):
        if node is None:
            raise Unliftable(where, "empty decision tree")
        if node.type == "loop":
            return self.lift_loop(node, S, entry, where)
        items, modes, end_kind = self.rest(node, S, S, entry, where)
        body = ("seq", tuple(items)) if items else ("empty",)
        if not items:
            if end_kind == "consume":
                return ("empty",)
            raise Unliftable(where, "no parser call and the function does not return its entry state")
        # `peek` on a body that is entirely optional items cannot be told from `consume` of nothing: only real calls count
        kinds = set(modes)
        if not kinds:
            # every item is optional: nothing can fail
            if end_kind == "consume":
                return body
            raise Unliftable(where, "a body that cannot fail used as a lookahead")
        if len(kinds) != 1:
            raise Unliftable(where, "failures of the parser calls leave in different ways: %s" % sorted(k[0] for k in kinds))
        mode = kinds.pop()
        self.__dict__.setdefault("_modes", {})[id(node)] = (mode[0], end_kind)
        if mode[0] == "propagate" and end_kind == "consume":
            return body
        if mode[0] == "propagate" and end_kind == "peek":
            return ("and", body)
        if mode[0] == "negated" and end_kind == "fail":
            return ("not", body)
        if mode[0] == "optional" and end_kind == "consume":
            return ("opt", body)
        raise Unliftable(where, "failure handling '%s' combined with success handling '%s'" % (mode[0], end_kind))

    # ------------------------------------------------------------ loops
    def lift_loop(self, node, S, entry, where):
        """`{body}` / `{body}+`: the loop variable holding the state starts as the entry state; one trip is a unit whose entry is
        the loop variable: it ends back at the loop head with the state it reached, and a failure leaves the loop with
        Ok(state = record_error(loop state, err)) - after a zero test of the trip counter for `+`."""
        init = node.term[3]
        leaf = node.leaf
        state_l = [l for (l, v) in init if self.sform(leaf, v, entry) == S]
        if len(state_l) != 1:
            raise Unliftable(where, "loop state is not initialised with the entry state")
        L = ("lv", node.term[2], state_l[0])
        counters = {l for (l, v) in init if v[0] == "const" and v[2] == 0 and v[1] in ("usize", "u32", "u64", "i32", "i64", "isize")}
        saved = self.__dict__.get("_loop_ctx")
        self._loop_ctx = {"state_local": state_l[0], "counters": counters, "depth": node.term[1], "head": node.term[2],
                          "uncounted": set(), "used_counter": set()}
        try:
            items, modes, end_kind = self.rest(node.children.get("next"), L, L, entry, where)
            ctx = self._loop_ctx
        finally:
            self._loop_ctx = saved
        if not items:
            raise Unliftable(where, "closure body does not start from the loop-carried state")
        if end_kind != "again":
            raise Unliftable(where, "a successful iteration does not repeat (closure must be greedy)")
        kinds = set(modes)
        if not kinds:
            raise Unliftable(where, "a loop whose body cannot fail")
        if kinds == {("optional",)}:
            kind = "star"
        elif kinds == {("plus",)}:
            kind = "plus"
            if ctx["used_counter"] & ctx["uncounted"]:
                raise Unliftable(where, "iteration counter is not `0, += 1`")
        else:
            raise Unliftable(where, "the failing last iteration's error is not folded into the surviving state (or the state is replaced): %s" % sorted(k[0] for k in kinds))
        return (kind, canon(("seq", tuple(items))))

    # ------------------------------------------------------------ rules
    def impl_of(self, name):
        impl = self.inst.prefix + "::" + name + "_impl::parse"
        if impl in self.crate.fns:
            return impl
        return None

    def lift_rule(self, name):
        impl = self.impl_of(name)
        if impl is not None:
            return self.lift_fn(impl)
        raise Unliftable(name, "no implementation function found")


class Lifter:
    """The lifter the rules use: semantic summaries first; the structural lifter of lift.py is kept for the rule kinds the
    summaries do not cover yet (@char classes, @extern) and as a second opinion when a function does not summarise."""

    def __init__(self, cx, inst):
        self.sem = SemLifter(cx, inst)
        self.old = lift.Lifter(cx, inst)
        self.inst = inst
        self.engine = {}

    def lift_rule(self, name):
        if self.sem.impl_of(name) is not None:
            try:
                t = self.sem.lift_rule(name)
                self.engine[name] = "summary"
                return t
            except Unliftable as ex:
                first = ex
            try:
                t = canon(self.old.lift_rule(name))
                self.engine[name] = "structure"
                return t
            except Unliftable:
                raise first
        self.engine[name] = "structure"
        return canon(self.old.lift_rule(name))
