"""MIR body model: CFG, dominators, definitions, expression reconstruction,
path enumeration and path conditions (DESIGN.md Appendix C).

Everything here is a structural query over the extracted facts; nothing of the
analysed program is executed.
"""
import re
from functools import lru_cache


# ---------------------------------------------------------------- names

_GENERIC = re.compile(r"<[^<>]*>")


def strip_generics(p):
    """Remove `::<..>` / `<..>` generic argument lists (nested) from a def path,
    but keep a leading `<T as Trait>` qualified-self as `T as Trait`."""
    s = p
    # iteratively remove innermost <...> that are preceded by '::' or an ident
    prev = None
    while prev != s:
        prev = s
        s = re.sub(r"::<(?!impl )(?![^<>]* as )[^<>]*>", "", s)
    return s


def short(p):
    """Last two path segments without generics: `ParseState::advance`,
    `Result::and_then`, `builtin_parsers::parse_char`."""
    if p is None:
        return None
    s = strip_generics(p)
    # qualified paths: <X as Y>::m  -> keep 'Y::m'
    m = re.match(r"^(?:[\w:]*::)?<(.+) as (.+)>::(\w+)((?:::\{closure#\d+\})*)$", s)
    if m:
        tr = re.sub(r"<.*$", "", m.group(2)).split("::")[-1]
        return tr + "::" + m.group(3) + m.group(4)
    m = re.match(r"^(?:[\w:]*::)?<impl (.+) for (.+)>::(\w+)((?:::\{closure#\d+\})*)$", s)
    if m:
        tr = re.sub(r"<.*$", "", m.group(1)).split("::")[-1]
        return tr + "::" + m.group(3) + m.group(4)
    s = re.sub(r"<[^<>]*>", "", s)
    segs = [x for x in s.split("::") if x]
    return "::".join(segs[-2:])


def last(p):
    if p is None:
        return None
    s = strip_generics(p)
    s = re.sub(r"<[^<>]*>", "", s)
    return s.split("::")[-1]


def qself(p):
    """For `<X as Y>::m` return (X, Y, m) else None."""
    if p is None:
        return None
    m = re.match(r"^(?:[\w:]*::)?<(.+) as ([^>]+(?:<.*>)?)>::(\w+)$", p)
    if m:
        return m.group(1), m.group(2), m.group(3)
    m = re.match(r"^(?:[\w:]*::)?<impl (.+) for (.+)>::(\w+)$", p)
    if m:
        return m.group(2), m.group(1), m.group(3)
    return None


# ---------------------------------------------------------------- expressions

class E(tuple):
    """Expression node: a tuple whose first element is the kind."""
    __slots__ = ()

    @property
    def k(self):
        return self[0]

    def __repr__(self):
        return show(self)


def mk(*a):
    return E(a)


def show(e, depth=0):
    if not isinstance(e, tuple) or not e:
        return repr(e)
    if depth > 12:
        return "…"
    k = e[0]
    d = depth + 1
    if k == "param":
        return "arg%d" % e[1]
    if k == "upvar":
        return "upvar%d%s" % (e[1], ("/" + e[2]) if len(e) > 2 and e[2] else "")
    if k == "const":
        return "const(%s)" % (e[2],)
    if k == "fnconst":
        return "fn(%s)" % short(e[1])
    if k == "call":
        return "%s(%s)" % (short(e[1]), ", ".join(show(a, d) for a in e[2]))
    if k == "field":
        return "%s.%s" % (show(e[1], d), e[2])
    if k == "downcast":
        return "(%s as %s)" % (show(e[1], d), e[2])
    if k == "deref":
        return "*%s" % show(e[1], d)
    if k == "ref":
        return "&%s" % show(e[1], d)
    if k == "agg":
        return "%s::%s{%s}" % (last(e[1]), e[2], ", ".join("%s: %s" % (n, show(v, d)) for n, v in e[3]))
    if k == "tuple":
        return "(%s)" % ", ".join(show(a, d) for a in e[1])
    if k == "array":
        return "[%s]" % ", ".join(show(a, d) for a in e[1])
    if k == "closure":
        return "λ[%s](%s)" % (short(e[1]), ", ".join(show(a, d) for a in e[2]))
    if k == "binop":
        return "%s(%s, %s)" % (e[1], show(e[2], d), show(e[3], d))
    if k == "unop":
        return "%s(%s)" % (e[1], show(e[2], d))
    if k == "cast":
        return "(%s as %s)" % (show(e[2], d), e[3])
    if k == "discr":
        return "discr(%s)" % show(e[1], d)
    if k == "local":
        return "_%d" % e[1]
    if k == "index":
        return "%s[%s]" % (show(e[1], d), show(e[2], d))
    return "%s(%s)" % (k, ", ".join(show(a, d) if isinstance(a, tuple) else repr(a) for a in e[1:]))


def walk(e):
    """Yield every sub-expression (pre-order)."""
    if not isinstance(e, tuple):
        return
    yield e
    for a in e[1:]:
        if isinstance(a, E):
            yield from walk(a)
        elif isinstance(a, (list, tuple)):
            for b in a:
                if isinstance(b, E):
                    yield from walk(b)
                elif isinstance(b, tuple) and len(b) == 2 and isinstance(b[1], E):
                    yield from walk(b[1])


def calls_in(e, name=None):
    for s in walk(e):
        if s[0] == "call" and (name is None or short(s[1]) == name or last(s[1]) == name):
            yield s


def strip(e):
    """Strip transparent wrappers: refs, derefs, copies, trivial casts and
    identity calls (deref / borrow / as_ref)."""
    while isinstance(e, tuple):
        if e[0] in ("ref", "deref"):
            e = e[1]
        elif e[0] == "call" and last(e[1]) in ("deref", "deref_mut", "borrow", "borrow_mut", "as_ref", "as_mut") and len(e[2]) == 1:
            e = e[2][0]
        else:
            break
    return e


# ---------------------------------------------------------------- un-interning

def _res_op(o, callees):
    if isinstance(o, dict) and isinstance(o.get("fn"), int):
        o["fn"] = callees[o["fn"]]


def resolve_interned(fn, cj):
    """Replace interned callee / file indices of one function's facts by the shared objects."""
    callees = cj.get("callees")
    files = cj.get("files")
    if callees is None:
        fn["_resolved"] = True
        return
    sp = fn.get("span")
    if sp and isinstance(sp.get("file"), int):
        sp["file"] = files[sp["file"]]

    def body(m):
        for d in m.get("debug", []):
            _res_op(d.get("value"), callees)
        for b in m["blocks"]:
            sp = b.get("span")
            if sp and isinstance(sp.get("file"), int):
                sp["file"] = files[sp["file"]]
            for st in b["stmts"]:
                rv = st.get("rv")
                if rv:
                    for key in ("op", "a", "b"):
                        _res_op(rv.get(key), callees)
                    for o in rv.get("ops", ()):
                        _res_op(o, callees)
            t = b["term"]
            f = t.get("func")
            if isinstance(f, int):
                t["func"] = callees[f]
            elif isinstance(f, dict) and f.get("indirect"):
                _res_op(f.get("op"), callees)
            for a in t.get("args", ()):
                _res_op(a, callees)
            for key in ("discr", "cond", "len", "index", "a", "b"):
                _res_op(t.get(key), callees)
        for pm in m.get("promoted", ()):
            body(pm)
    if "mir" in fn:
        body(fn["mir"])
    fn["_resolved"] = True


# ---------------------------------------------------------------- body

class Body:
    def __init__(self, fn, crate=None):
        self.fn = fn
        self.crate = crate
        self.path = fn["path"]
        m = fn["mir"]
        if crate is not None and not fn.get("_resolved"):
            resolve_interned(fn, crate.j)
        self.blocks = m["blocks"]
        self.locals = m["locals"]
        self.arg_count = m["arg_count"]
        self.debug = m["debug"]
        self.n = len(self.blocks)
        self.file = fn["span"]["file"]
        self.line = fn["span"]["line"]
        self.is_closure = fn["kind"] == "Closure"
        self._build_cfg()
        self._build_defs()
        self._names()

    # ---- CFG
    def _build_cfg(self):
        self.succ = [[] for _ in range(self.n)]
        self.pred = [[] for _ in range(self.n)]
        for i, b in enumerate(self.blocks):
            t = b["term"]
            k = t["k"]
            out = []
            if k == "goto":
                out.append((t["target"], ("goto",)))
            elif k == "switch":
                for v, bb in t["targets"]:
                    out.append((bb, ("sw", v)))
                out.append((t["otherwise"], ("sw", "otherwise")))
            elif k == "call":
                if t["target"] is not None:
                    out.append((t["target"], ("call",)))
            elif k == "assert":
                out.append((t["target"], ("assert",)))
            elif k == "drop":
                out.append((t["target"], ("drop",)))
            self.succ[i] = out
        for i, outs in enumerate(self.succ):
            for (j, lab) in outs:
                self.pred[j].append((i, lab))
        # reachable normal blocks
        seen = set()
        st = [0]
        while st:
            x = st.pop()
            if x in seen:
                continue
            seen.add(x)
            for (y, _) in self.succ[x]:
                if not self.blocks[y]["cleanup"]:
                    st.append(y)
        self.reach = seen
        self.returns = [i for i in sorted(seen) if self.blocks[i]["term"]["k"] == "return"]
        self._dom = None
        self._pdom = None

    def succs(self, i):
        return [j for (j, _) in self.succ[i] if j in self.reach]

    def preds(self, i):
        return [j for (j, _) in self.pred[i] if j in self.reach]

    def _idom_generic(self, roots, succf, predf, nodes):
        # simple iterative dominator sets (bodies are small)
        nodes = list(nodes)
        allset = set(nodes)
        dom = {x: set(allset) for x in nodes}
        for r in roots:
            dom[r] = {r}
        changed = True
        order = nodes
        while changed:
            changed = False
            for x in order:
                if x in roots:
                    continue
                ps = [p for p in predf(x) if p in allset]
                if ps:
                    new = set.intersection(*(dom[p] for p in ps))
                else:
                    new = set()
                new = new | {x}
                if new != dom[x]:
                    dom[x] = new
                    changed = True
        return dom

    @property
    def dom(self):
        if self._dom is None:
            self._dom = self._idom_generic([0], self.succs, self.preds, sorted(self.reach))
        return self._dom

    @property
    def pdom(self):
        """Post-dominators w.r.t. normal returns (virtual exit = -1)."""
        if self._pdom is None:
            nodes = sorted(self.reach) + [-1]

            def predf(x):  # predecessors in the reversed graph = successors
                if x == -1:
                    return []
                out = list(self.succs(x))
                if self.blocks[x]["term"]["k"] == "return":
                    out.append(-1)
                return out
            self._pdom = self._idom_generic([-1], None, predf, nodes)
        return self._pdom

    def dominates(self, a, b):
        return a in self.dom.get(b, ())

    def postdominates(self, a, b):
        return a in self.pdom.get(b, ())

    def back_edges(self):
        out = []
        for i in self.reach:
            for j in self.succs(i):
                if self.dominates(j, i):
                    out.append((i, j))
        return out

    def has_loop(self):
        return bool(self.back_edges())

    def loop_blocks(self, head):
        """Natural loop of all back edges into head."""
        body = {head}
        st = [i for (i, j) in self.back_edges() if j == head]
        while st:
            x = st.pop()
            if x in body:
                continue
            body.add(x)
            st.extend(self.preds(x))
        return body

    def reachable_from(self, start, avoid=()):
        seen = set()
        st = [start]
        avoid = set(avoid)
        while st:
            x = st.pop()
            if x in seen or x in avoid:
                continue
            seen.add(x)
            st.extend(self.succs(x))
        return seen

    def reachable_from_succs(self, i):
        out = set()
        for j in self.succs(i):
            out |= self.reachable_from(j)
        return out

    def reachable_from_succs_any(self, blocks):
        out = set()
        for i in blocks:
            out |= self.reachable_from_succs(i)
        return out

    def must_pass(self, start, pred_block, avoid_start=False):
        """True iff every path from block `start` to a normal return passes a
        block satisfying pred_block (start itself counts unless avoid_start)."""
        marked = {i for i in self.reach if pred_block(i)}
        if start in marked and not avoid_start:
            return True, None
        # search for a path to a return avoiding marked blocks
        seen = {}
        st = [(start, None)]
        while st:
            x, par = st.pop()
            if x in seen:
                continue
            if x in marked and not (x == start and avoid_start):
                continue
            seen[x] = par
            if self.blocks[x]["term"]["k"] == "return":
                path = []
                y = x
                while y is not None:
                    path.append(y)
                    y = seen[y]
                return False, list(reversed(path))
            for y in self.succs(x):
                st.append((y, x))
        return True, None

    # ---- definitions
    def _build_defs(self):
        self.defs = {}      # local -> list of (bb, idx|'t', kind, payload)
        self.pdefs = {}     # local -> list of partial defs (projection writes)
        self.uses_addr = set()  # locals whose address is taken mutably
        self.deref_writes = {}  # local (a pointer) -> writes through it
        self.mut_borrows = {}   # local -> blocks holding `&mut local`
        for i in sorted(self.reach):
            b = self.blocks[i]
            for si, s in enumerate(b["stmts"]):
                if s["k"] == "assign":
                    pl = s["place"]
                    if not pl["p"]:
                        self.defs.setdefault(pl["l"], []).append((i, si, "rv", s["rv"]))
                    elif pl["p"][0]["k"] == "deref":
                        self.deref_writes.setdefault(pl["l"], []).append((i, si, "rv", s))
                    else:
                        self.pdefs.setdefault(pl["l"], []).append((i, si, "rv", s))
                    rv = s["rv"]
                    if rv["k"] == "ref" and rv["mut"] and not rv["place"]["p"]:
                        self.uses_addr.add(rv["place"]["l"])
                        self.mut_borrows.setdefault(rv["place"]["l"], []).append(i)
                    if rv["k"] == "rawptr" and not rv["place"]["p"]:
                        self.uses_addr.add(rv["place"]["l"])
                elif s["k"] == "setdiscr":
                    self.pdefs.setdefault(s["place"]["l"], []).append((i, si, "setdiscr", s))
            t = b["term"]
            if t["k"] == "call":
                pl = t["dest"]
                if not pl["p"]:
                    self.defs.setdefault(pl["l"], []).append((i, "t", "call", t))
                elif pl["p"][0]["k"] == "deref":
                    self.deref_writes.setdefault(pl["l"], []).append((i, "t", "call", t))
                else:
                    self.pdefs.setdefault(pl["l"], []).append((i, "t", "call", t))

    def _names(self):
        self.local_name = {}
        self.upvar_name = {}
        for d in self.debug:
            v = d["value"]
            if "l" in v:
                if not v["p"]:
                    self.local_name.setdefault(v["l"], d["name"])
                elif v["l"] == 1 and self.is_closure:
                    # (_1.i) or (*_1).i  or *((*_1).i)
                    for pe in v["p"]:
                        if pe["k"] == "field":
                            self.upvar_name[pe["i"]] = d["name"]
                            break

    def ty(self, l):
        return self.locals[l]["ty"]

    def is_drop_flag(self, l):
        if self.locals[l]["ty"] != "bool":
            return False
        ds = self.defs.get(l, [])
        if not ds or l <= self.arg_count:
            return False
        for (_, _, kind, rv) in ds:
            if kind != "rv" or rv["k"] != "use" or rv["op"]["k"] != "const":
                return False
        return l not in self.local_name

    # ---- expression reconstruction
    def single_def(self, l):
        ds = self.defs.get(l, [])
        if len(ds) == 1 and l not in self.pdefs and l not in self.uses_addr:
            return ds[0]
        return None

    def expr_local(self, l, seen=None):
        c = self.__dict__.setdefault("_ecache", {})
        if l in c and (not seen or l not in seen):
            return c[l]
        r = self._expr_local(l, seen)
        if not seen or l not in seen:
            c[l] = r
        return r

    def _expr_local(self, l, seen=None):
        seen = seen or frozenset()
        if l in seen:
            return mk("local", l)
        if 1 <= l <= self.arg_count:
            if not self.defs.get(l) and l not in self.pdefs:
                return mk("param", l)
            return mk("local", l)
        d = self.single_def(l)
        if d is None:
            return mk("local", l)
        (bb, idx, kind, payload) = d
        seen = seen | {l}
        if kind == "rv":
            return self.expr_rv(payload, seen)
        return self.expr_call(payload, seen)

    def alternatives(self, e, depth=0):
        """Expand an expression whose root (through refs) is a multiply-assigned local into the
        list of expressions it may hold (one per assignment)."""
        n = norm(e)
        if n[0] == "local" and depth < 6 and n[1] not in self.pdefs and n[1] not in self.uses_addr:
            out = []
            for d in self.defs.get(n[1], []):
                x = self.expr_rv(d[3], frozenset([n[1]])) if d[2] == "rv" else self.expr_call(d[3], frozenset([n[1]]))
                out.extend(self.alternatives(x, depth + 1))
            if out:
                return out
        return [n]

    def walk_deep(self, e, _seen=None):
        """walk(e), additionally descending into every definition of multiply-assigned locals."""
        seen = _seen if _seen is not None else set()
        for s_ in walk(norm(e)):
            yield s_
            if s_[0] == "local" and s_[1] not in seen:
                seen.add(s_[1])
                for d in self.defs.get(s_[1], []):
                    x = self.expr_rv(d[3], frozenset([s_[1]])) if d[2] == "rv" else self.expr_call(d[3], frozenset([s_[1]]))
                    yield from self.walk_deep(x, seen)

    def expr_call(self, t, seen=None):
        f = t["func"]
        args = tuple(self.expr_op(a, seen) for a in t["args"])
        if f.get("indirect"):
            return mk("icall", self.expr_op(f["op"], seen), args)
        return mk("call", f["path"], args, f.get("resolved"), tuple(f.get("args", ())))

    def expr_op(self, op, seen=None):
        k = op["k"]
        if k in ("copy", "move"):
            return self.expr_place(op["place"], seen)
        if k == "const":
            if "fn" in op:
                return mk("fnconst", op["fn"]["path"], op["fn"].get("resolved"))
            if "str" in op:
                return mk("const", "str", op["str"])
            if "bits" in op:
                ty = op["ty"]
                v = op["bits"]
                if ty == "char":
                    return mk("const", "char", chr(v))
                if ty == "bool":
                    return mk("const", "bool", bool(v))
                return mk("const", ty, v)
            if "promoted" in op:
                pv = self.promoted_value(op["promoted"])
                if pv is not None:
                    return pv
            if "uneval" in op:
                return mk("const", "item", op["uneval"])
            return mk("const", op["ty"], op["text"])
        return mk("opaque", op.get("text", "?"))

    def promoted_value(self, idx):
        """Value of promoted constant #idx (a tiny MIR body returning a reference to constants)."""
        proms = self.fn["mir"].get("promoted") or []
        if idx >= len(proms):
            return None
        cache = self.__dict__.setdefault("_prom_cache", {})
        if idx not in cache:
            fake = {"path": self.path + "::promoted[%d]" % idx, "kind": "Fn", "span": self.fn["span"], "mir": proms[idx]}
            try:
                pb = Body(fake, self.crate)
                ds = pb.defs.get(0, [])
                cache[idx] = norm(pb.expr_rv(ds[0][3])) if len(ds) == 1 and ds[0][2] == "rv" else None
            except Exception:
                cache[idx] = None
        return cache[idx]

    def expr_place(self, pl, seen=None):
        l = pl["l"]
        if self.is_closure and l == 1:
            # upvar access
            proj = pl["p"]
            j = 0
            if j < len(proj) and proj[j]["k"] == "deref":
                j += 1
            if j < len(proj) and proj[j]["k"] == "field":
                e = mk("upvar", proj[j]["i"], self.upvar_name.get(proj[j]["i"]))
                return self._apply_proj(e, proj[j + 1:], seen)
        e = self.expr_local(l, seen)
        return self._apply_proj(e, pl["p"], seen)

    def _apply_proj(self, e, proj, seen=None):
        for pe in proj:
            k = pe["k"]
            if k == "deref":
                if isinstance(e, tuple) and e[0] == "ref":
                    e = e[1]
                else:
                    e = mk("deref", e)
            elif k == "field":
                name = pe["name"] if pe["name"] is not None else str(pe["i"])
                base = e
                # simplify field(agg)
                sb = base
                if sb[0] == "agg":
                    hit = [v for (n, v) in sb[3] if n == name]
                    if hit:
                        e = hit[0]
                        continue
                if sb[0] == "tuple" and name.isdigit() and int(name) < len(sb[1]):
                    e = sb[1][int(name)]
                    continue
                e = mk("field", e, name)
            elif k == "downcast":
                e = mk("downcast", e, pe["variant"])
            elif k == "index":
                e = mk("index", e, self.expr_local(pe["local"], seen))
            elif k == "cindex":
                e = mk("index", e, mk("const", "usize", pe["offset"]))
            else:
                e = mk("proj", e, k)
        return e

    def expr_rv(self, rv, seen=None):
        k = rv["k"]
        if k == "use":
            return self.expr_op(rv["op"], seen)
        if k == "ref":
            pl = rv["place"]
            if rv["mut"] and not pl["p"]:
                # the unique, non-looping `&mut x` of a singly-defined local sees x's initial value
                l = pl["l"]
                mb = self.mut_borrows.get(l, [])
                ds = self.defs.get(l, [])
                if len(mb) == 1 and len(ds) == 1 and l not in self.pdefs and l > self.arg_count \
                        and mb[0] not in self.reachable_from_succs(mb[0]) and (seen is None or l not in seen):
                    (bb, idx, kind, payload) = ds[0]
                    s2 = (seen or frozenset()) | {l}
                    inner = self.expr_rv(payload, s2) if kind == "rv" else self.expr_call(payload, s2)
                    return mk("ref", inner)
            return mk("ref", self.expr_place(rv["place"], seen))
        if k == "rawptr":
            return mk("ref", self.expr_place(rv["place"], seen))
        if k == "cast":
            return mk("cast", rv["kind"], self.expr_op(rv["op"], seen), rv["ty"])
        if k == "binop":
            return mk("binop", rv["op"], self.expr_op(rv["a"], seen), self.expr_op(rv["b"], seen))
        if k == "unop":
            return mk("unop", rv["op"], self.expr_op(rv["a"], seen))
        if k == "discr":
            return mk("discr", self.expr_place(rv["place"], seen))
        if k == "agg":
            ops = tuple(self.expr_op(o, seen) for o in rv["ops"])
            a = rv["agg"]
            if a == "adt":
                names = rv["fields"]
                if len(names) != len(ops):
                    names = [str(i) for i in range(len(ops))]
                return mk("agg", rv["adt"], rv["variant"], tuple(zip(names, ops)))
            if a == "tuple":
                return mk("tuple", ops)
            if a == "array":
                return mk("array", ops)
            if a == "closure":
                return mk("closure", rv["def"], ops)
            return mk("aggother", a, ops)
        if k == "repeat":
            return mk("repeat", self.expr_op(rv["op"], seen), rv["n"])
        return mk("opaque", rv.get("text", k))

    # ---- terminators / calls
    def calls(self):
        """All call terminators in reachable normal blocks: (bb, term)."""
        for i in sorted(self.reach):
            t = self.blocks[i]["term"]
            if t["k"] == "call":
                yield i, t

    def callee(self, t):
        f = t["func"]
        if f.get("indirect"):
            return None
        return f

    def call_name(self, t):
        f = t["func"]
        if f.get("indirect"):
            return None
        return short(f["path"])

    def call_sites(self, pred):
        out = []
        for i, t in self.calls():
            f = t["func"]
            if f.get("indirect"):
                continue
            if pred(f):
                out.append((i, t))
        return out

    # ---- paths
    def paths(self, limit=20000, start=0, stop_at=None):
        """Enumerate acyclic entry→return paths as lists of (bb, edge_label)
        pairs.  Drop-flag switches are followed on both edges only if both
        lead somewhere different; loops are cut (each block at most once)."""
        out = []
        stack = [(start, [], frozenset())]
        while stack:
            x, acc, vis = stack.pop()
            if x in vis:
                continue
            if len(out) > limit:
                raise RuntimeError("path explosion in %s" % self.path)
            t = self.blocks[x]["term"]
            if t["k"] == "return" or (stop_at is not None and x in stop_at):
                out.append(acc + [(x, None)])
                continue
            ss = [(j, lab) for (j, lab) in self.succ[x] if j in self.reach]
            for (j, lab) in ss:
                stack.append((j, acc + [(x, lab)], vis | {x}))
        return out

    def switch_info(self, i):
        """For a switch block: (discr expr, dty)."""
        t = self.blocks[i]["term"]
        assert t["k"] == "switch"
        return self.expr_op(t["discr"]), t["dty"]

    def is_noise_switch(self, i):
        t = self.blocks[i]["term"]
        if t["k"] != "switch":
            return False
        d = t["discr"]
        if d["k"] in ("copy", "move") and not d["place"]["p"]:
            return self.is_drop_flag(d["place"]["l"])
        return False

    def path_conditions(self, site):
        """Atoms implied at block `site`: list of (discr_expr, dty, value, bb)
        for every non-noise switch block that dominates `site` and from which
        exactly one outgoing edge value can reach `site` without returning
        through the switch block again."""
        out = []
        for d in sorted(self.dom[site]):
            if d == site:
                continue
            t = self.blocks[d]["term"]
            if t["k"] != "switch" or self.is_noise_switch(d):
                continue
            reaching = []
            for (j, lab) in self.succ[d]:
                if j not in self.reach:
                    continue
                r = self.reachable_from(j, avoid=[d])
                if site in r:
                    reaching.append(lab[1])
            if len(reaching) == 1:
                e, ty = self.switch_info(d)
                val = reaching[0]
                if val == "otherwise":
                    others = [v for (v, _) in t["targets"]]
                    val = ("not", tuple(others))
                out.append((e, ty, val, d))
        return out

    def atoms(self, site):
        """Normalised path-condition atoms at block `site`:
        (expr, truth-or-value, switch_bb).  `!x` is folded into the polarity."""
        out = []
        for (e, ty, val, d) in self.path_conditions(site):
            ne = norm(e)
            if ty == "bool":
                tv = truth(val)
                while isinstance(ne, tuple) and ne[0] == "unop" and ne[1] == "Not":
                    ne = ne[2]
                    tv = (not tv) if tv is not None else None
                out.append((ne, tv, d))
            else:
                out.append((ne, val, d))
        return out

    def def_blocks(self, l):
        return [d[0] for d in self.defs.get(l, [])] + [d[0] for d in self.pdefs.get(l, [])]

    def no_redef_between(self, l, guard_bb, site_bb, ignore_blocks=()):
        """No definition of local l on any path guard_bb -> site_bb (site's own
        terminator destination excluded by construction: it executes after)."""
        region = self.reachable_from(guard_bb, avoid=[site_bb])
        for d in self.def_blocks(l):
            if d in ignore_blocks:
                continue
            if d == guard_bb:
                continue
            if d in region and site_bb in self.reachable_from(d):
                return False
        return True

    def pretty(self):
        lines = ["fn %s  [%s:%d]" % (self.path, self.file, self.line)]
        for i in sorted(self.reach):
            b = self.blocks[i]
            lines.append(" bb%d%s:" % (i, " (cleanup)" if b["cleanup"] else ""))
            for s in b["stmts"]:
                if s["k"] == "assign":
                    lines.append("    %s = %s" % (self._pl(s["place"]), show(self.expr_rv_shallow(s["rv"]))))
                else:
                    lines.append("    %s" % s["k"])
            t = b["term"]
            k = t["k"]
            if k == "call":
                f = t["func"]
                nm = short(f["path"]) if not f.get("indirect") else "<indirect>"
                res = ""
                if not f.get("indirect") and f.get("resolved") and f["resolved"] != f["path"]:
                    res = " {=%s}" % short(f["resolved"])
                lines.append("    %s = %s%s(%s) -> %s" % (
                    self._pl(t["dest"]), nm, res,
                    ", ".join(self._op(a) for a in t["args"]), t["target"]))
            elif k == "switch":
                lines.append("    switch %s [%s, else->%s]" % (
                    self._op(t["discr"]), ", ".join("%s->%s" % (v, bb) for v, bb in t["targets"]), t["otherwise"]))
            elif k in ("goto", "drop", "assert"):
                extra = ""
                if k == "drop":
                    extra = " " + self._pl(t["place"])
                if k == "assert":
                    extra = " %s %s==%s" % (t["kind"], self._op(t["cond"]), t["expected"])
                lines.append("    %s%s -> %s" % (k, extra, t["target"]))
            else:
                lines.append("    %s" % k)
        return "\n".join(lines)

    def _pl(self, pl):
        s = "_%d" % pl["l"]
        for pe in pl["p"]:
            if pe["k"] == "deref":
                s = "(*%s)" % s
            elif pe["k"] == "field":
                s = "%s.%s" % (s, pe["name"] if pe["name"] is not None else pe["i"])
            elif pe["k"] == "downcast":
                s = "(%s as %s)" % (s, pe["variant"])
            else:
                s = "%s[%s]" % (s, pe["k"])
        return s

    def _op(self, op):
        if op["k"] in ("copy", "move"):
            return op["k"] + " " + self._pl(op["place"])
        if op["k"] == "const":
            if "fn" in op:
                return "fn " + short(op["fn"]["path"])
            if "str" in op:
                return repr(op["str"])
            return op.get("text", "?")
        return "?"

    def expr_rv_shallow(self, rv):
        # one-level printing for pretty(): operands as locals
        k = rv["k"]

        def o(op):
            return mk("raw", self._op(op))
        if k == "use":
            return o(rv["op"])
        if k == "ref":
            return mk("raw", ("&mut " if rv["mut"] else "&") + self._pl(rv["place"]))
        if k == "discr":
            return mk("raw", "discr(%s)" % self._pl(rv["place"]))
        if k == "agg":
            if rv["agg"] == "adt":
                return mk("raw", "%s::%s{%s}" % (last(rv["adt"]), rv["variant"], ", ".join(
                    "%s: %s" % (n, self._op(x)) for n, x in zip(rv["fields"] + ["?"] * 9, rv["ops"]))))
            if rv["agg"] == "closure":
                return mk("raw", "closure %s [%s]" % (short(rv["def"]), ", ".join(self._op(x) for x in rv["ops"])))
            return mk("raw", "%s(%s)" % (rv["agg"], ", ".join(self._op(x) for x in rv["ops"])))
        if k == "binop":
            return mk("raw", "%s(%s, %s)" % (rv["op"], self._op(rv["a"]), self._op(rv["b"])))
        if k == "unop":
            return mk("raw", "%s(%s)" % (rv["op"], self._op(rv["a"])))
        if k == "cast":
            return mk("raw", "%s as %s [%s]" % (self._op(rv["op"]), rv["ty"], rv["kind"]))
        return mk("raw", rv.get("text", k))


def show_raw(e):
    return e[1]


_orig_show = show


def show(e, depth=0):  # noqa: F811  (extend with 'raw')
    if isinstance(e, tuple) and e and e[0] == "raw":
        return e[1]
    return _orig_show(e, depth)


# ---------------------------------------------------------------- normalisation

_NORM_CACHE = {}


def norm(e):
    """Deep-strip references, dereferences and reborrows everywhere in e (identity-cached)."""
    if not isinstance(e, tuple) or not e:
        return e
    if isinstance(e, E):
        hit = _NORM_CACHE.get(id(e))
        if hit is not None and hit[0] is e:
            return hit[1]
        r = _norm(e)
        if len(_NORM_CACHE) > 2000000:
            _NORM_CACHE.clear()
        _NORM_CACHE[id(e)] = (e, r)
        _NORM_CACHE[id(r)] = (r, r)
        return r
    return _norm(e)


def _norm(e):
    if not isinstance(e, E):
        # plain tuple such as (name, expr) pairs inside agg
        return tuple(norm(x) if isinstance(x, tuple) else x for x in e)
    k = e[0]
    if k in ("ref", "deref"):
        return norm(e[1])
    out = [k]
    for a in e[1:]:
        if isinstance(a, E):
            out.append(norm(a))
        elif isinstance(a, list):
            out.append([norm(x) if isinstance(x, tuple) else x for x in a])
        elif isinstance(a, tuple):
            out.append(tuple(norm(x) if isinstance(x, tuple) else x for x in a))
        else:
            out.append(a)
    # lists are unhashable: convert to tuples for comparability
    out = [tuple(x) if isinstance(x, list) else x for x in out]
    return E(out)


def is_call(e, *names):
    """e is a call whose callee's last segment (or short name) is one of names."""
    if not isinstance(e, tuple) or not e or e[0] != "call":
        return False
    l = last(e[1])
    s = short(e[1])
    return l in names or s in names


def truth(val):
    """Truth value of a bool switch edge label."""
    if val == 0:
        return False
    if val == 1:
        return True
    if isinstance(val, tuple) and val[0] == "not":
        if val[1] == (0,):
            return True
        if val[1] == (1,):
            return False
    return None
