"""Static translation validation of generated parsers (DESIGN.md §2.4).

`Lifter` reconstructs, from the MIR of a generated function, the parser term it denotes.
`expected_term` builds the term a grammar expression denotes (from the independent ebnf reader).
Nothing is executed: both sides are structural.

Terms
  ('lit', ch_or_str, insensitive)   ('range', a, b)   ('eoi',)   ('anychar',)   ('ref', Rule)
  ('skipped', W, atom)              W = 'builtin' | 'Whitespace' (grammar-defined)
  ('seq', (t..))  ('choice', (t..))  ('opt', t)  ('star', t)  ('plus', t)  ('not', t)  ('and', t)  ('empty',)
  ('charclass', (atoms..), checks)  ('extern', function)
"""
from . import mir, finite
from .mir import short, last, strip, walk, norm, is_call


class Unliftable(Exception):
    def __init__(self, where, why):
        Exception.__init__(self, "%s: %s" % (where, why))
        self.where = where
        self.why = why


TERMINALS = {
    "parse_character_literal": "lit", "parse_string_literal": "lit", "parse_character_literal_insensitive": "ilit",
    "parse_string_literal_insensitive": "ilit", "parse_character_range": "range", "parse_end_of_input": "eoi", "parse_char": "anychar",
}


def unclone(e):
    while is_call(e, "clone") and len(e[2]) == 1:
        e = e[2][0]
    return e


def ok_payload_of(e):
    """If e == ((X as Continue|Ok).0) return X else None."""
    if e[0] == "field" and e[2] == "0" and e[1][0] == "downcast" and e[1][2] in ("Continue", "Ok"):
        return e[1][1]
    return None


def okstate_source(e):
    """If e == ok(X).state return X (the ParseResult expression, with Try::branch stripped) else None."""
    if e[0] == "field" and e[2] == "state":
        x = ok_payload_of(e[1])
        if x is not None:
            if is_call(x, "branch") and len(x[2]) == 1:
                return x[2][0]
            return x
    return None


class Lifter:
    def __init__(self, cx, inst):
        self.cx = cx
        self.inst = inst
        self.crate = inst.crate
        self.cache = {}
        self.stack = []
        self.own_ws = "Whitespace" in inst.rule_fns

    # ------------------------------------------------------------ expressions
    def callee_kind(self, e):
        p = mir.strip_generics(e[1])
        l = last(e[1])
        if p.startswith(self.inst.prefix + "::"):
            rest = p[len(self.inst.prefix) + 2:]
            if "::" not in rest and rest.startswith("parse_"):
                return ("rule", rest[len("parse_"):])
            if l == "parse":
                return ("sub", p)
        if l in TERMINALS and (p.startswith("peginator::") or "builtin_parsers" in p):
            return ("terminal", l)
        if l == "parse_Whitespace" and (p.startswith("peginator::") or "builtin_parsers" in p):
            return ("builtin_ws", l)
        return None

    def lift_expr(self, b, e, where):
        """e: expression of a ParseResult value.  Returns (term, input state expression)."""
        e = norm(e)
        if e[0] == "agg" and e[2] == "Ok" and e[3][0][1][0] == "agg" and e[3][0][1][1].endswith("ParseOk"):
            # the empty sequence written inline: Ok(ParseOk{result: (), state})
            d = dict(e[3][0][1][3])
            if d.get("result") == ("tuple", ()):
                return ("empty",), unclone(d.get("state"))
        if e[0] != "call":
            raise Unliftable(where, "parse result is not produced by a call: %s" % mir.show(e)[:160])
        l = last(e[1])
        args = e[2]
        kind = self.callee_kind(e)
        if kind is not None:
            k, v = kind
            st = unclone(args[0])
            if k == "rule":
                return ("ref", v), st
            if k == "sub":
                return self.lift_fn(v), st
            if k == "builtin_ws":
                return ("ref", "Whitespace"), st
            if k == "terminal":
                tk = TERMINALS[v]
                if tk in ("lit", "ilit"):
                    c = args[1]
                    if c[0] != "const" or not isinstance(c[2], str):
                        raise Unliftable(where, "literal argument is not a constant: %s" % mir.show(c))
                    if v.startswith("parse_character") and len(c[2]) != 1:
                        raise Unliftable(where, "character literal of length %d" % len(c[2]))
                    return ("lit", c[2], tk == "ilit"), st
                if tk == "range":
                    a, c = args[1], args[2]
                    if a[0] != "const" or c[0] != "const":
                        raise Unliftable(where, "range ends are not constants")
                    return ("range", a[2], c[2]), st
                if tk == "eoi":
                    return ("eoi",), st
                if tk == "anychar":
                    return ("anychar",), st
        if l in ("map_inner", "discard_result") or (l == "map" and "Result" in e[1]):
            return self.lift_expr(b, args[0], where)
        if l == "and_then" and "Result" in e[1]:
            recv, clo = args[0], args[1]
            wk = self.callee_kind(recv) if recv[0] == "call" else None
            if recv[0] != "call" or not (wk == ("builtin_ws", "parse_Whitespace") or wk == ("rule", "Whitespace")):
                raise Unliftable(where, "and_then on something that is not a whitespace skip: %s" % mir.show(recv)[:120])
            W = "Whitespace" if wk[0] == "rule" else "builtin"
            st = unclone(recv[2][0])
            if clo[0] != "closure":
                raise Unliftable(where, "and_then continuation is not a closure")
            cb = self.cx.body(self.crate, clo[1])
            inner_e = self.single_return(cb, where + " (skip continuation)")
            it, ist = self.lift_expr(cb, inner_e, where + " (skip continuation)")
            if ist != ("field", ("param", 2), "state"):
                raise Unliftable(where, "the atom after a whitespace skip does not start from the skipper's resulting state: %s" % mir.show(ist)[:120])
            return ("skipped", W, it), st
        if l == "or_else" and "Result" in e[1]:
            recv, clo = args[0], args[1]
            it, ist = self.lift_expr(b, recv, where)
            if clo[0] != "closure":
                raise Unliftable(where, "or_else handler is not a closure")
            cb = self.cx.body(self.crate, clo[1])
            he = norm(self.single_return_any(cb, where + " (optional failure handler)"))
            # Ok(ParseOk{result: default, state: record_error(captured state, err)})
            good = False
            st_cap = None
            if he[0] == "agg" and he[2] == "Ok" and he[3][0][1][0] == "agg" and he[3][0][1][1].endswith("ParseOk"):
                d = dict(he[3][0][1][3])
                s_ = d.get("state")
                if is_call(s_, "record_error") and len(s_[2]) == 2 and s_[2][1] == ("param", 2) and s_[2][0][0] == "upvar":
                    idx = s_[2][0][1]
                    st_cap = unclone(clo[2][idx]) if idx < len(clo[2]) else None
                    good = st_cap is not None
            if not good:
                raise Unliftable(where, "optional's failure handler is not Ok(ParseOk{default, state.record_error(err)}): %s" % mir.show(he)[:200])
            if unclone(ist) != st_cap:
                raise Unliftable(where, "optional: the body starts from %s but the failure path resumes from %s" % (mir.show(ist)[:80], mir.show(st_cap)[:80]))
            return ("opt", it), st_cap
        if l == "end" and "ChoiceHelper" in e[1]:
            chain = []
            cur = args[0]
            while is_call(cur, "choice") and "ChoiceHelper" in cur[1]:
                chain.append(cur[2][1])
                cur = cur[2][0]
            if not (is_call(cur, "new") and "ChoiceHelper" in cur[1]):
                raise Unliftable(where, "choice chain does not start with ChoiceHelper::new")
            st = unclone(cur[2][0])
            alts = []
            for k_, clo in enumerate(reversed(chain)):
                if clo[0] != "closure":
                    raise Unliftable(where, "choice arm %d is not a closure" % k_)
                cb = self.cx.body(self.crate, clo[1])
                ae = self.single_return(cb, where + " (choice arm %d)" % k_)
                at, ast = self.lift_expr(cb, ae, where + " (choice arm %d)" % k_)
                if unclone(ast) != ("param", 2):
                    raise Unliftable(where, "choice arm %d does not start from the state the helper hands it: %s" % (k_, mir.show(ast)[:100]))
                alts.append(at)
            return ("choice", tuple(alts)), st
        raise Unliftable(where, "uninterpretable parser expression: %s" % mir.show(e)[:200])

    def single_return_any(self, b, where):
        ds = b.defs.get(0, [])
        if len(ds) != 1:
            raise Unliftable(where, "%d return assignments where one was expected" % len(ds))
        d = ds[0]
        return b.expr_rv(d[3]) if d[2] == "rv" else b.expr_call(d[3])

    def single_return(self, b, where):
        e = norm(self.single_return_any(b, where))
        return e

    # ------------------------------------------------------------ functions
    def lift_fn(self, path):
        if path in self.cache:
            return self.cache[path]
        if path in self.stack:
            raise Unliftable(short(path), "recursive module structure")
        self.stack.append(path)
        try:
            t = self._lift_fn(path)
        finally:
            self.stack.pop()
        self.cache[path] = t
        return t

    def _lift_fn(self, path):
        if path not in self.crate.fns or "mir" not in self.crate.fns[path]:
            raise Unliftable(short(path), "no MIR for function")
        b = self.cx.body(self.crate, path)
        where = path[len(self.inst.prefix) + 2:]
        S0 = ("param", 1)
        if b.has_loop():
            return self.lift_loop(b, where)
        ds = b.defs.get(0, [])
        tries = [(i, t) for i, t in b.calls() if not t["func"].get("indirect") and last(t["func"]["path"]) == "branch" and "Try" in t["func"]["path"]]
        # (1) a single expression
        if len(ds) == 1 and not tries:
            e = norm(b.expr_rv(ds[0][3]) if ds[0][2] == "rv" else b.expr_call(ds[0][3]))
            if e[0] == "call":
                t, st = self.lift_expr(b, e, where)
                if unclone(st) != S0:
                    raise Unliftable(where, "the body starts from %s, not from the function's entry state" % mir.show(st)[:100])
                return t
            # (5) empty sequence
            if e[0] == "agg" and e[2] == "Ok":
                po = e[3][0][1]
                if po[0] == "agg" and dict(po[3]).get("state") == S0:
                    return ("empty",)
            raise Unliftable(where, "single return that is neither a parser expression nor Ok(entry state): %s" % mir.show(e)[:160])
        oks = []
        others = []
        for d in ds:
            e = norm(b.expr_rv(d[3]) if d[2] == "rv" else b.expr_call(d[3]))
            if e[0] == "agg" and e[2] == "Ok":
                oks.append((d[0], e))
            else:
                others.append((d[0], e))
        # (4) negative lookahead: match on the result, no `?`
        if not tries:
            return self.lift_match(b, where, oks, others)
        if len(oks) != 1:
            raise Unliftable(where, "%d Ok returns in a `?`-threaded body" % len(oks))
        po = oks[0][1][3][0][1]
        if not (po[0] == "agg" and po[1].endswith("ParseOk")):
            raise Unliftable(where, "Ok return is not Ok(ParseOk{..}): %s" % mir.show(po)[:120])
        SF = dict(po[3]).get("state")
        apps = []
        for (i, t) in tries:
            a = norm(b.expr_op(t["args"][0]))
            apps.append(a)
        # unfold the final state
        chain = []
        cur = SF
        guard = 0
        while True:
            guard += 1
            if guard > 500:
                raise Unliftable(where, "state chain does not terminate")
            src = okstate_source(cur)
            if src is None:
                break
            chain.append(src)
            tt, st = self.lift_expr(b, src, where)
            cur = unclone(st)
        if cur != S0:
            raise Unliftable(where, "the state threading does not start at the function's entry state but at %s" % mir.show(cur)[:120])
        chain.reverse()
        # every `?` application must be on the chain, or be a pure lookahead (its ok state unused)
        off = [a for a in apps if a not in chain]
        for (bb, e) in others:
            if not is_call(e, "from_residual"):
                raise Unliftable(where, "a return that is neither the success value nor a propagated failure: %s" % mir.show(e)[:160])
        if off:
            if len(off) == 1 and not chain and SF == S0:
                t, st = self.lift_expr(b, off[0], where)
                if unclone(st) != S0:
                    raise Unliftable(where, "lookahead body does not start at the entry state")
                return ("and", t)
            raise Unliftable(where, "%d parser application(s) whose resulting state is not threaded into the result" % len(off))
        terms = [self.lift_expr(b, a, where)[0] for a in chain]
        if len(set(map(id, chain))) != len(chain) and len(set(chain)) != len(chain):
            pass
        if len(apps) != len(chain):
            raise Unliftable(where, "%d `?` applications but %d on the state chain" % (len(apps), len(chain)))
        if not terms:
            return ("empty",)
        return ("seq", tuple(terms)) if len(terms) > 1 else terms[0]

    def lift_match(self, b, where, oks, others):
        S0 = ("param", 1)
        # find the matched application
        res_calls = []
        for i, t in b.calls():
            if t["func"].get("indirect"):
                continue
            ty = b.ty(t["dest"]["l"]) if not t["dest"]["p"] else ""
            if ty.startswith("std::result::Result<") and "ParseOk" in ty and last(t["func"]["path"]) not in ("report_error",):
                res_calls.append((i, t))
        errs = [(bb, e) for (bb, e) in others if e[0] == "agg" and e[2] == "Err"]
        specs = []
        for (bb, e) in errs:
            pe = e[3][0][1]
            if is_call(pe, "report_error") and pe[2][1][0] == "agg":
                specs.append(pe[2][1][2])
        if "NegativeLookaheadFailed" in specs and len(res_calls) == 1 and len(oks) == 1:
            i, t = res_calls[0]
            R = norm(b.expr_call(t))
            tt, st = self.lift_expr(b, R, where)
            if unclone(st) != S0:
                raise Unliftable(where, "negative lookahead body does not start at the entry state")
            okb, oke = oks[0]
            po = oke[3][0][1]
            if not (po[0] == "agg" and dict(po[3]).get("state") == S0):
                raise Unliftable(where, "a succeeding negative lookahead does not return the entry state")
            # polarity: Ok return on the Err edge of R, Err return on the Ok edge
            at_ok = [(e, v) for (e, v, d) in b.atoms(okb) if e[0] == "discr" and e[1] == R]
            errb = [bb for (bb, e) in errs][0]
            at_err = [(e, v) for (e, v, d) in b.atoms(errb) if e[0] == "discr" and e[1] == R]
            def is_err_edge(v):
                return v == 1 or (isinstance(v, tuple) and v[0] == "not" and 0 in v[1])
            def is_ok_edge(v):
                return v == 0 or (isinstance(v, tuple) and v[0] == "not" and 1 in v[1])
            if not (at_ok and is_err_edge(at_ok[-1][1]) and at_err and is_ok_edge(at_err[-1][1])):
                raise Unliftable(where, "negative lookahead polarity: success must be returned exactly when the body fails")
            return ("not", tt)
        raise Unliftable(where, "unrecognised match-based body (returns: %d Ok, %d other)" % (len(oks), len(others)))

    def lift_loop(self, b, where):
        S0 = ("param", 1)
        heads = sorted({j for (_, j) in b.back_edges()})
        if len(heads) != 1:
            raise Unliftable(where, "%d loops" % len(heads))
        head = heads[0]
        loop = b.loop_blocks(head)
        # the application inside the loop
        res_calls = []
        for i, t in b.calls():
            if i not in loop or t["func"].get("indirect"):
                continue
            ty = b.ty(t["dest"]["l"]) if not t["dest"]["p"] else ""
            if ty.startswith("std::result::Result<") and "ParseOk" in ty:
                res_calls.append((i, t))
        # the outermost one: its destination is switched on
        matched = None
        for (i, t) in res_calls:
            dl = t["dest"]["l"]
            for j in loop:
                tj = b.blocks[j]["term"]
                if tj["k"] == "switch":
                    e, ty = b.switch_info(j)
                    e = norm(e)
                    if e[0] == "discr" and e[1] == norm(b.expr_local(dl)):
                        # the real `match` dominates the drop-elaboration re-reads of the discriminant
                        if matched is None or len(b.dom[j]) < len(b.dom[matched[2]]):
                            matched = (i, t, j)
        if matched is None:
            raise Unliftable(where, "loop without a matched parser application")
        i, t, swb = matched
        R = norm(b.expr_call(t))
        tt, st = self.lift_expr(b, R, where)
        L = unclone(st)
        if L[0] != "local":
            raise Unliftable(where, "closure body does not start from the loop-carried state: %s" % mir.show(st)[:100])
        Ll = L[1]
        defs = b.defs.get(Ll, [])
        init = [d for d in defs if d[0] not in loop and d[0] not in b.reachable_from(head)]
        if len(init) != 1 or norm(b.expr_rv(init[0][3])) != S0:
            raise Unliftable(where, "loop state is not initialised with the entry state")
        sw = b.blocks[swb]["term"]
        vals = dict((v, bb) for v, bb in sw["targets"])
        ok_t = vals.get(0)
        err_t = vals.get(1, sw["otherwise"])
        if ok_t is None:
            raise Unliftable(where, "cannot identify Ok edge of the closure match")
        ok_region = b.reachable_from(ok_t, avoid=[head])
        err_region = b.reachable_from(err_t, avoid=[head])
        ok_defs = [d for d in defs if d[0] in ok_region and d[0] in loop]
        err_defs = [d for d in defs if d[0] in err_region and d not in ok_defs and d not in init]
        want_ok = ("field", ("field", ("downcast", R, "Ok"), "0"), "state")
        if not ok_defs or any(norm(b.expr_rv(d[3], frozenset([Ll]))) != want_ok for d in ok_defs if d[2] == "rv"):
            got = [mir.show(norm(b.expr_rv(d[3], frozenset([Ll]))))[:80] for d in ok_defs if d[2] == "rv"]
            raise Unliftable(where, "after a successful iteration the loop does not continue from that iteration's resulting state: %s" % got)
        # on EVERY way round the loop after a success the state must be replaced
        okd = {d[0] for d in ok_defs}
        seen_, st_ = set(), [ok_t]
        while st_:
            x = st_.pop()
            if x in seen_ or x in okd:
                continue
            seen_.add(x)
            if x == head:
                raise Unliftable(where, "after a successful iteration the loop can continue WITHOUT advancing to that iteration's resulting state")
            st_.extend(b.succs(x))
        # the Ok edge must loop back, the Err edge must leave the loop
        if head not in b.reachable_from(ok_t):
            raise Unliftable(where, "a successful iteration does not repeat (closure must be greedy)")
        if head in b.reachable_from(err_t, avoid=[]) and all(x in loop for x in [err_t]):
            # err target inside natural loop means it loops again
            if err_t in loop:
                raise Unliftable(where, "a failed iteration does not end the closure")
        okerr = False
        for d in err_defs:
            e = norm(b.expr_rv(d[3], frozenset([Ll])) if d[2] == "rv" else b.expr_call(d[3], frozenset([Ll])))
            if is_call(e, "record_error") and e[2][0] == L and e[2][1] == ("field", ("downcast", R, "Err"), "0"):
                okerr = True
        if not okerr:
            raise Unliftable(where, "the failing last iteration's error is not folded into the surviving state (or the state is replaced)")
        # returns
        oks, errs = [], []
        for d in b.defs.get(0, []):
            e = norm(b.expr_rv(d[3]) if d[2] == "rv" else b.expr_call(d[3]))
            if e[0] == "agg" and e[2] == "Ok":
                oks.append((d[0], e))
            else:
                errs.append((d[0], e))
        if len(oks) != 1:
            raise Unliftable(where, "closure with %d Ok returns" % len(oks))
        po = oks[0][1][3][0][1]
        if not (po[0] == "agg" and dict(po[3]).get("state") == L):
            raise Unliftable(where, "closure does not return the state after the last successful iteration")
        plus = False
        for (bb, e) in errs:
            pe = e[3][0][1] if e[0] == "agg" and e[2] == "Err" else None
            if pe is not None and is_call(pe, "report_farthest_error") and pe[2][0] == L:
                at = b.atoms(bb)
                zero = [(x, v) for (x, v, d) in at if x[0] == "binop" and x[1] == "Eq" and x[3] == ("const", "usize", 0) and v is True]
                if zero:
                    plus = True
                    continue
            raise Unliftable(where, "unexpected failure return in a closure: %s" % mir.show(e)[:120])
        if plus:
            # the counter must count iterations: incremented once per successful iteration, starts at 0
            x = zero[0][0][2]
            if x[0] != "local":
                raise Unliftable(where, "at-least-one test is not on the iteration counter")
            cdefs = b.defs.get(x[1], [])
            inits = [norm(b.expr_rv(d[3])) for d in cdefs if d[0] not in b.reachable_from(head) and d[2] == "rv"]
            incs = [finite.plain_arith(norm(b.expr_rv(d[3], frozenset([x[1]])))) for d in cdefs if d[0] in b.reachable_from(head) and d[2] == "rv"]
            if inits != [("const", "usize", 0)] or len(incs) != 1 or incs[0] != ("binop", "Add", x, ("const", "usize", 1)):
                raise Unliftable(where, "iteration counter is not `0, += 1`: %s %s" % (inits, [mir.show(i_) for i_ in incs]))
            inc_bb = [d[0] for d in cdefs if d[0] in b.reachable_from(head)][0]
            if not (inc_bb in ok_region):
                raise Unliftable(where, "iteration counter is not incremented on the successful edge")
        return ("plus", tt) if plus else ("star", tt)

    # ------------------------------------------------------------ rules
    def lift_rule(self, name):
        """Term of rule `name` (its body), or ('charclass',..)/('extern',..) for the special kinds."""
        impl = self.inst.prefix + "::" + name + "_impl::parse"
        if impl in self.crate.fns:
            return self.lift_fn(impl)
        p = self.inst.rule_fns.get(name)
        if p is None:
            raise Unliftable(name, "no parse function for rule")
        b = self.cx.body(self.crate, p)
        where = "parse_" + name
        aggs = set()
        for i in b.reach:
            for st in b.blocks[i]["stmts"]:
                if st["k"] == "assign" and st["rv"]["k"] == "agg" and st["rv"].get("agg") == "adt":
                    aggs.add(st["rv"]["variant"])
        if "ExternRuleFailed" in aggs:
            user = [t for _, t in b.calls() if not t["func"].get("indirect") and t["func"]["krate"] not in ("peginator", "core", "std", "alloc")]
            return ("extern", mir.strip_generics(user[0]["func"]["path"]) if user else "?")
        if "ExpectedCharacterClass" in aggs:
            S0 = ("param", 1)
            alts = []
            order = []
            for i, t in b.calls():
                if t["func"].get("indirect"):
                    continue
                ty = b.ty(t["dest"]["l"]) if not t["dest"]["p"] else ""
                if ty.startswith("std::result::Result<") and "ParseOk" in ty and last(t["func"]["path"]) != "report_error":
                    order.append((i, t))
            # order of attempts = dominance order
            order.sort(key=lambda it: len(b.dom[it[0]]))
            for (i, t) in order:
                R = norm(b.expr_call(t))
                tt, st = self.lift_expr(b, R, where)
                if unclone(st) != S0:
                    raise Unliftable(where, "@char alternative does not start at the entry state")
                alts.append(tt)
                # Ok edge returns the payload
                good = False
                for d in b.defs.get(0, []):
                    e = norm(b.expr_rv(d[3])) if d[2] == "rv" else None
                    if e is not None and e[0] == "agg" and e[2] == "Ok" and e[3][0][1] == ("field", ("downcast", R, "Ok"), "0"):
                        good = True
                if not good:
                    raise Unliftable(where, "@char alternative's success is not returned unchanged")
            nchecks = 0
            for i, t in b.calls():
                if t["func"].get("indirect") or not t["args"]:
                    continue
                a0 = norm(b.expr_op(t["args"][0]))
                if a0[0] == "field" and a0[2] == "0" and a0[1][0] == "downcast" and a0[1][2] == "Some":
                    nchecks += 1
            return ("charclass", tuple(alts), nchecks)
        raise Unliftable(where, "rule function of unknown kind")


# ---------------------------------------------------------------------------- expected terms

def expected_term(g, e, skip, depth=0):
    """The term expression e of grammar g denotes under skip mode `skip` (bool)."""
    if depth > 100:
        raise Unliftable("grammar", "include cycle")
    W = "Whitespace" if g.rule("Whitespace") is not None else "builtin"

    def atom(t):
        return ("skipped", W, t) if skip else t
    k = e[0]
    if k == "lit":
        s = "".join(e[1])
        ins = e[2]
        if ins:
            s = "".join(c.lower() if ord(c) < 128 else c for c in s)
        return atom(("lit", s, ins))
    if k == "range":
        return atom(("range", e[1], e[2]))
    if k == "eoi":
        return atom(("eoi",))
    if k == "field":
        typ = e[3]
        if typ == "char" and g.rule("char") is None:
            return atom(("anychar",))
        return atom(("ref", typ))
    if k == "group":
        return expected_term(g, e[1], skip, depth + 1)
    if k == "include":
        r = g.rule(e[1])
        if r is None or r.kind != "rule":
            raise Unliftable("grammar", "include of missing rule %s" % e[1])
        return expected_term(g, r.body, skip, depth + 1)
    if k == "opt":
        return ("opt", expected_term(g, e[1], skip, depth + 1))
    if k == "closure":
        return ("plus" if e[2] else "star", expected_term(g, e[1], skip, depth + 1))
    if k == "neg":
        return ("not", expected_term(g, e[1], skip, depth + 1))
    if k == "pos":
        return ("and", expected_term(g, e[1], skip, depth + 1))
    if k == "seq":
        ts = [expected_term(g, x, skip, depth + 1) for x in e[1]]
        if not ts:
            return ("empty",)
        return ("seq", tuple(ts)) if len(ts) > 1 else ts[0]
    if k == "choice":
        ts = [expected_term(g, x, skip, depth + 1) for x in e[1]]
        return ("choice", tuple(ts)) if len(ts) > 1 else ts[0]
    raise ValueError(k)


def expected_rule_term(g, r):
    if r.kind == "char":
        alts = []
        for p in r.char_parts:
            if p[0] == "range":
                alts.append(("range", p[1], p[2]))
            elif p[0] == "lit":
                alts.append(("lit", "".join(p[1]), False))
            else:
                alts.append(("anychar",) if p[1] == "char" and g.rule("char") is None else ("ref", p[1]))
        return ("charclass", tuple(alts), len(r.checks))
    if r.kind == "extern":
        return ("extern", r.extern[0])
    return expected_term(g, r.body, "no_skip_ws" not in r.flags)


def show_term(t, depth=0):
    if not isinstance(t, tuple):
        return repr(t)
    k = t[0]
    if k == "lit":
        return ("i" if t[2] else "") + repr(t[1])
    if k == "range":
        return "%r..%r" % (t[1], t[2])
    if k in ("eoi", "anychar", "empty"):
        return {"eoi": "$", "anychar": "char", "empty": "ε"}[k]
    if k == "ref":
        return t[1]
    if k == "skipped":
        return "_" + show_term(t[2])
    if k in ("seq", "choice"):
        sep = " " if k == "seq" else " | "
        return "(" + sep.join(show_term(x) for x in t[1]) + ")"
    if k in ("opt", "star", "plus", "not", "and"):
        a = show_term(t[1])
        return {"opt": "[%s]", "star": "{%s}", "plus": "{%s}+", "not": "!%s", "and": "&%s"}[k] % a
    if k == "charclass":
        return "@char<" + "|".join(show_term(x) for x in t[1]) + ";checks=%d>" % t[2]
    if k == "extern":
        return "@extern(%s)" % t[1]
    return str(t)


def first_difference(a, b, path="body"):
    """Human-readable location of the first difference between two terms."""
    if a == b:
        return None
    if not isinstance(a, tuple) or not isinstance(b, tuple) or a[0] != b[0]:
        return "%s: generated %s, grammar says %s" % (path, show_term(a)[:120], show_term(b)[:120])
    k = a[0]
    if k in ("seq", "choice", "charclass"):
        xa, xb = a[1], b[1]
        if len(xa) != len(xb):
            return "%s: %s of %d parts, grammar says %d" % (path, k, len(xa), len(xb))
        for i, (x, y) in enumerate(zip(xa, xb)):
            d = first_difference(x, y, "%s.%s[%d]" % (path, k, i))
            if d:
                return d
        if k == "charclass" and a[2] != b[2]:
            return "%s: %d checks, grammar says %d" % (path, a[2], b[2])
    if k in ("opt", "star", "plus", "not", "and"):
        return first_difference(a[1], b[1], path + "." + k)
    if k == "skipped":
        if a[1] != b[1]:
            return "%s: whitespace skipped by %s, grammar says %s" % (path, a[1], b[1])
        return first_difference(a[2], b[2], path)
    return "%s: generated %s, grammar says %s" % (path, show_term(a)[:120], show_term(b)[:120])
