"""Field-level plumbing read off semantic summaries (C02.plumb; the summary-based counterpart of plumb.py).

For a unit (generated function / choice-arm closure) the structural reading of lift2 gives its items - plain parser calls,
optional groups, ordered-choice groups (with the items of every alternative), or a loop body.  The value the unit returns on
the all-succeed path (and, for every alternative of a choice group, on the path where that alternative is the one that
succeeds; for a loop, what one trip appends to the accumulators) is a term over the results `r(k)` of those calls:

    payload(r(k)).result[.comp]            the value of call k (a component of a multi-field sub-result)
    Box::new(v)  Variant(v)  Some(v)  vec![v]                post-processing
    ext(a, b)                              `a.extend(b)`: concatenation in order
    None / Vec::new() / Default::default() the default

Reading these terms item by item yields the same provenance descriptors as plumb.py:
('unit',) | ('one', p) | ('struct', ((name, p), ..)) with p in app / seq / alt / opt / rep / default / from.
"""
from . import mir, sem, lift, lift2
from .mir import mk, last, short, is_call, walk
from .lift import Unliftable, TERMINALS
from .plumb import DEFAULT


def payload_of(v):
    """(k, comp) if v == (r(k) as Ok).0.result[.comp] else None"""
    comp = None
    x = v
    if x[0] == "field" and x[2] != "result":
        comp = x[2].replace("r#", "")
        x = x[1]
    if x[0] == "field" and x[2] == "result" and x[1][0] == "field" and x[1][2] == "0" and x[1][1][0] == "downcast" \
            and x[1][1][2] in ("Ok", "Continue") and x[1][1][1][0] == "r":
        return x[1][1][1][1], comp
    return None


class SemPlumber:
    def __init__(self, cx, inst, lifter):
        self.cx, self.inst = cx, inst
        self.L = lifter          # lift2.SemLifter
        self.cache = {}

    # ------------------------------------------------------------ navigation
    def first_atom(self, obj):
        if obj[0] == "atom":
            return obj[1]
        if obj[0] == "opt":
            return self.first_atom(obj[1][0])
        if obj[0] == "choice":
            return self.first_atom(obj[1][0][0][0])
        return None

    def navigate(self, node, fail_ids, where):
        """The leaf reached from `node` when every parser call succeeds except the nodes in fail_ids."""
        cur = node
        for _ in range(10000):
            if cur is None:
                raise Unliftable(where, "no path for the requested outcome")
            if cur.type in ("ret", "loopback"):
                return cur.leaf
            if cur.type == "vret":
                return None
            if cur.type == "call":
                nx = cur.children.get("next")
                if nx is not None and nx.type in ("ret", "loopback"):
                    return nx.leaf
                ok, er = self.L.outcomes(cur, where)
                cur = er if id(cur) in fail_ids else ok
                continue
            if cur.type == "loop":
                cur = cur.children.get("next")
                continue
            if cur.type == "cond":
                # a decision that is not the outcome of a parser call (e.g. the `+` counter): any branch that goes on
                nxt = None
                for val, ch in cur.children.items():
                    if ch is not None:
                        nxt = ch if nxt is None else nxt
                cur = nxt
                continue
            raise Unliftable(where, "cannot navigate through %s" % cur.type)
        raise Unliftable(where, "navigation does not terminate")

    def ks_of(self, obj, out=None):
        """ids of the call nodes of an item (all alternatives included)."""
        out = out if out is not None else set()
        if obj[0] == "atom":
            out.add(id(obj[1]))
        elif obj[0] == "opt":
            for o in obj[1]:
                self.ks_of(o, out)
        elif obj[0] == "choice":
            for (arm, _t) in obj[1]:
                for o in arm:
                    self.ks_of(o, out)
        return out

    # ------------------------------------------------------------ value terms
    def result_of(self, leaf, where):
        r = leaf.ret
        if leaf.kind == "return" and r is not None and r[0] == "agg" and r[2] == "Ok" and r[1] == sem.RESULT:
            return sem.get_field(sem.get_field(r, "0"), "result")
        if leaf.kind == "return" and r is not None and r[0] == "r":
            # the result of the last parser call handed on unexamined: its success value is the unit's
            return mk("field", mk("field", mk("downcast", r, "Ok"), "0"), "result")
        raise Unliftable(where, "the path does not end in a successful result")

    def vec_elements(self, leaf, a):
        """Elements of the `vec![..]` whose uninitialised box is r(a): the array written through that box."""
        ra = mk("r", a)
        for key, val in leaf.mem.items():
            if key[0] == "root" and any(s_ == ra for s_ in walk(key[1])):
                v = val
                if v[0] == "array":
                    return list(v[1])
                for s_ in walk(v):
                    if s_[0] == "array":
                        return list(s_[1])
        return None

    def contribs(self, leaf, v, where, wraps=()):
        """[('c', k, comp, wraps) | ('default',) | ('acc', loopvar)] in concatenation order."""
        if v[0] == "ext":
            return self.contribs(leaf, v[1], where, wraps) + self.contribs(leaf, v[2], where, wraps)
        p = payload_of(v)
        if p is not None:
            return [("c", p[0], p[1], wraps)]
        if v[0] == "loopvar":
            return [("acc", v)]
        if v[0] == "agg" and v[1] == sem.OPTION:
            if v[2] == "None":
                return [DEFAULT]
            return self.contribs(leaf, v[3][0][1], where, wraps + ("some",))
        if v[0] == "tuple" and not v[1]:
            return [("unitvalue",)]
        if v[0] == "r":
            t = leaf.trace[v[1]][0]
            if t[0] == "call":
                nm = last(t[1])
                sp = mir.strip_generics(t[1])
                if nm == "new" and "Box" in sp and len(t[2]) == 1:
                    return self.contribs(leaf, t[2][0], where, wraps + ("box",))
                if nm in ("box_assume_init_into_vec_unsafe",) and t[2] and t[2][0][0] == "r":
                    els = self.vec_elements(leaf, t[2][0][1])
                    if els is None or len(els) != 1:
                        raise Unliftable(where, "cannot read the elements of a vec![..]")
                    return self.contribs(leaf, els[0], where, wraps + ("vec",))
                if nm == "into_vec" and t[2]:
                    for s_ in walk(t[2][0]):
                        if s_[0] == "array" and len(s_[1]) == 1:
                            return self.contribs(leaf, s_[1][0], where, wraps + ("vec",))
                    if t[2][0][0] == "r":
                        t2 = leaf.trace[t[2][0][1]][0]
                        for s_ in walk(t2):
                            if s_[0] == "array" and len(s_[1]) == 1:
                                return self.contribs(leaf, s_[1][0], where, wraps + ("vec",))
                    raise Unliftable(where, "cannot read the elements of a vec![..]")
                if (nm == "new" and "Vec" in sp and not t[2]) or (nm == "default" and not t[2]):
                    return [DEFAULT]
                if nm == "Some" and len(t[2]) == 1:
                    return self.contribs(leaf, t[2][0], where, wraps + ("some",))
                if len(t[2]) == 1 and not sp.startswith(("std::", "core::", "alloc::", "peginator::")) and (nm[:1].isupper() or self._is_enum(sp.rsplit("::", 1)[0])):
                    # enum variant constructor used as a function
                    return self.contribs(leaf, t[2][0], where, wraps + ("variant:" + nm.replace("r#", ""),))
                if nm in ("clone", "into", "from") and len(t[2]) == 1:
                    return self.contribs(leaf, t[2][0], where, wraps)
        if v[0] == "agg" and len(v[3]) == 1 and v[1] not in (sem.OPTION, sem.RESULT) and not v[1].endswith("Parsed") and v[2] not in ("Ok", "Err"):
            # enum variant aggregate `Enum::Variant(x)`
            adt = self.inst.crate.adts.get(v[1])
            if adt is not None and str(adt.get("kind", "")).lower() == "enum":
                return self.contribs(leaf, v[3][0][1], where, wraps + ("variant:" + v[2].replace("r#", ""),))
        raise Unliftable(where, "a result component is built from %s" % mir.show(v)[:100])

    # ------------------------------------------------------------ sources
    def source(self, node, comp, wraps, where):
        kind = node.extra
        if kind[0] == "rule":
            d = ("one", ("app", kind[1], ()))
        elif kind[0] == "ws":
            return ("unitvalue",)
        elif kind[0] == "terminal":
            if TERMINALS[kind[1]] != "anychar":
                return ("unitvalue",)      # literals, ranges and `$` are never fields: their values are discarded
            d = ("one", ("app", "char", ()))
        elif kind[0] == "sub":
            d = self.desc_fn(kind[1], lift2.P1)
        elif kind[0] == "arm":
            d = self.desc_fn(kind[1], mk("param", 2))
        else:
            raise Unliftable(where, "value taken from an uninterpretable call")
        if comp is None:
            if d[0] == "one":
                p = d[1]
            elif d[0] == "unit":
                return ("unitvalue",)
            else:
                raise Unliftable(where, "a multi-field sub-result is used as one value")
        else:
            if d[0] != "struct" or comp not in dict(d[1]):
                raise Unliftable(where, "component %s not present in the sub-result" % comp)
            p = ("from", comp, dict(d[1])[comp])
        for w in wraps[::-1] if False else wraps:
            pass
        if wraps:
            # wraps were collected outside-in; post-processing order is inside-out
            ws = tuple(reversed(wraps))
            if p[0] != "app":
                raise Unliftable(where, "post-processing `%s` applied to something that is not a single field match: %s" % (ws[0], str(p)[:80]))
            p = ("app", p[1], p[2] + ws)
        return p

    # ------------------------------------------------------------ assembling a field
    def assemble(self, objs, entries, root, fail_ids, field_of, where):
        """Provenance of one field over the items `objs`, given the contributions `entries` [(node id, prov)] of the current path.
        Returns a list of provenance parts (in item order)."""
        parts = []
        for obj in objs:
            if obj[0] == "atom":
                for (nid, p) in entries:
                    if nid == id(obj[1]):
                        parts.append(p)
            elif obj[0] == "opt":
                inner = self.assemble(obj[1], entries, root, fail_ids, field_of, where)
                if inner:
                    parts.append(("opt", inner[0] if len(inner) == 1 else ("seq", tuple(inner))))
            elif obj[0] == "choice":
                arms = obj[1]
                alts = []
                anyp = False
                fails = set(fail_ids)
                for j, (arm, aterm) in enumerate(arms):
                    if j == 0:
                        ents = entries
                    else:
                        prev = arms[j - 1][0]
                        if prev:
                            fails = fails | {id(self.first_atom(prev[0]))}
                        leaf = self.navigate(root, fails, where)
                        ents = field_of(leaf)
                    inner = self.assemble(arm, ents, root, fails, field_of, where)
                    if inner:
                        anyp = True
                        alts.append(inner[0] if len(inner) == 1 else ("seq", tuple(inner)))
                    else:
                        alts.append(DEFAULT)
                    if lift2.infallible(aterm):
                        break        # alternatives after one that cannot fail are never tried
                if anyp:
                    parts.append(("alt", tuple(alts)))
        return parts

    def node_by_k(self, leaf, tree):
        """{k: call node} along the path of `leaf` through the tree."""
        out = {}
        want = leaf
        stack = [tree]
        # walk down following the children that contain the leaf
        def contains(n):
            if n is None:
                return False
            if n.type in ("ret", "loopback"):
                return n.leaf is want
            return any(contains(c) for c in n.children.values())
        cur = tree
        while cur is not None and cur.type not in ("ret", "loopback", "vret"):
            if cur.type == "call":
                out[cur.k] = cur
            nxt = None
            for c in cur.children.values():
                if contains(c):
                    nxt = c
                    break
            cur = nxt
        return out

    # ------------------------------------------------------------ units
    def desc_fn(self, path, entry):
        key = (path, entry)
        if key in self.cache:
            d = self.cache[key]
            if isinstance(d, Unliftable):
                raise d
            return d
        try:
            d = self._desc_fn(path, entry)
        except Unliftable as ex:
            self.cache[key] = ex
            raise
        self.cache[key] = d
        return d

    def _desc_fn(self, path, entry):
        where = self.L.where_of(path)
        self.L.lift_fn(path, entry)          # fills the structural reading
        info = self.L.units.get((path, entry))
        if info is None:
            raise Unliftable(where, "no structural reading")
        tree = info["tree"]
        ro = info["rest_objs"]
        if tree is not None and tree.type == "loop":
            return self.desc_loop(tree, info, where)
        objs = ro.get((id(tree), "ENTRY", "ENTRY"), [])
        term = self.L.cache.get((path, entry))
        leaf0 = self.navigate(tree, set(), where)
        try:
            V0 = self.result_of(leaf0, where)
        except Unliftable:
            # a negated lookahead succeeds where its body fails: the value is that of the path on which the first call fails
            if term is not None and term[0] == "not" and objs:
                leaf0 = self.navigate(tree, {id(self.first_atom(objs[0]))}, where)
                V0 = self.result_of(leaf0, where)
            else:
                raise
        if V0[0] == "tuple" and not V0[1]:
            return ("unit",)
        p0 = payload_of(V0)
        if p0 is not None and p0[1] is None and len(objs) == 1 and objs[0][0] == "atom":
            # the unit hands its only item's value on unchanged
            n0 = objs[0][1]
            if n0.extra[0] in ("sub", "arm"):
                return self.desc_fn(n0.extra[1], lift2.P1 if n0.extra[0] == "sub" else mk("param", 2))
        struct = V0[0] == "agg" and V0[1] not in (sem.OPTION, sem.RESULT) and V0[2] not in ("Some", "None", "Ok", "Err") \
            and not self._is_enum(V0[1])
        struct_names = [n for (n, _) in V0[3]] if struct else None
        if not struct and p0 is not None and p0[1] is None:
            # the whole value of one item handed on: the unit has that item's shape (each alternative of a choice group hands its own)
            n0 = self.node_by_k(leaf0, tree).get(p0[0])
            if n0 is not None and n0.extra[0] in ("sub", "arm"):
                d0 = self.desc_fn(n0.extra[1], lift2.P1 if n0.extra[0] == "sub" else mk("param", 2))
                if d0[0] == "struct":
                    struct = True
                    struct_names = [n for (n, _) in d0[1]]
                elif d0[0] == "unit":
                    return ("unit",)

        def make_field_of(name):
            def field_of(leaf):
                V = self.result_of(leaf, where)
                if name is not None:
                    if V[0] == "agg" and name in [n for (n, _) in V[3]]:
                        V = dict(V[3])[name]
                    elif payload_of(V) is not None and payload_of(V)[1] is None:
                        V = mk("field", V, name)       # a whole multi-field sub-result handed on
                    else:
                        raise Unliftable(where, "an alternative does not build field %s" % name)
                nodes = self.node_by_k(leaf, tree)
                out = []
                last_k = -1
                for c in self.contribs(leaf, V, where):
                    if c[0] == "c":
                        n = nodes.get(c[1])
                        if n is None:
                            raise Unliftable(where, "a result component comes from a call that is not on this path")
                        p = self.source(n, c[2], c[3], where)
                        if p != ("unitvalue",):
                            if c[1] <= last_k:
                                raise Unliftable(where, "field %s concatenates its matches in another order than they were made" % (name or "<value>"))
                            last_k = c[1]
                            out.append((id(n), p))
                return out
            return field_of

        def describe(name):
            fo = make_field_of(name)
            ents = fo(leaf0)
            parts = self.assemble(objs, ents, tree, set(), fo, where)
            used = sum(1 for _ in ents)
            # every contribution of the main path must belong to some item
            flat = []

            def count(p):
                if p[0] in ("seq", "alt"):
                    for x in p[1]:
                        count(x)
                elif p[0] in ("opt",):
                    count(p[1])
                elif p != DEFAULT:
                    flat.append(p)
            for p in parts:
                count(p)
            if not parts:
                return DEFAULT
            return parts[0] if len(parts) == 1 else ("seq", tuple(parts))
        # a unit whose failures all leave as Ok(default) is an optional as a whole (lift2's unit-level reading)
        whole_opt = info.get("mode") is not None and info["mode"][0] == "optional"
        wrap = (lambda p: p if p == DEFAULT else ("opt", p)) if whole_opt else (lambda p: p)
        if struct:
            return ("struct", tuple((n.replace("r#", ""), wrap(describe(n))) for n in struct_names))
        d1 = describe(None)
        if d1 == DEFAULT and all(c[0] in ("c", "unitvalue") for c in self.contribs(leaf0, V0, where)):
            return ("unit",)         # nothing but discarded values (literals, whitespace, `$`)
        return ("one", wrap(d1))

    def _is_enum(self, adt_path):
        adt = self.inst.crate.adts.get(adt_path)
        return adt is not None and str(adt.get("kind", "")).lower() == "enum"

    def desc_loop(self, tree, info, where):
        ro = info["rest_objs"]
        init = dict(tree.term[3])
        depth, head = tree.term[1], tree.term[2]
        body = tree.children.get("next")
        # the loop state variable
        L = None
        for (l, v) in tree.term[3]:
            if self.L.sform(tree.leaf, v, info["entry"]) == "ENTRY":
                L = ("lv", head, l)
        objs = ro.get((id(body), L, L), [])
        # a return path and the trip path
        ret_leaf = None
        trip_leaf = None

        def leaves(n):
            if n is None:
                return
            if n.type in ("ret", "loopback"):
                yield n
            for c in n.children.values():
                yield from leaves(c)
        for n in leaves(body):
            if n.type == "ret" and n.leaf.kind == "return" and n.leaf.ret is not None and n.leaf.ret[0] == "agg" and n.leaf.ret[2] == "Ok" and ret_leaf is None:
                ret_leaf = n.leaf
        trip_leaf = self.navigate(body, set(), where)
        if ret_leaf is None or trip_leaf is None or trip_leaf.kind != "loopback":
            raise Unliftable(where, "loop without a returning path and a trip round the loop")
        V = self.result_of(ret_leaf, where)
        if V[0] == "tuple" and not V[1]:
            return ("unit",)
        new = dict(trip_leaf.ret[2])
        nodes = self.node_by_k(trip_leaf, body)

        def acc_desc(v, name):
            if v[0] != "loopvar":
                raise Unliftable(where, "closure result %s is not an accumulator" % name)
            l = v[3]
            iv = init.get(l)
            if iv is None or self.contribs(tree.leaf, iv, where) != [DEFAULT]:
                raise Unliftable(where, "accumulator %s is not initialised empty" % name)
            nv = new.get(l)
            if nv is None:
                raise Unliftable(where, "accumulator %s is not carried round the loop" % name)
            cs = self.contribs(trip_leaf, nv, where)
            if not cs or cs[0] != ("acc", v):
                raise Unliftable(where, "accumulator %s is replaced instead of extended" % name)
            ents = []
            ks = [c[1] for c in cs[1:] if c[0] == "c"]
            if ks != sorted(ks) or len(set(ks)) != len(ks):
                raise Unliftable(where, "accumulator %s concatenates an iteration's matches in another order than they were made" % name)
            for c in cs[1:]:
                if c[0] != "c":
                    raise Unliftable(where, "accumulator %s is extended with %s" % (name, c))
                n = nodes.get(c[1])
                if n is None:
                    raise Unliftable(where, "accumulator %s is extended with a value that is not this iteration's" % name)
                ents.append((id(n), self.source(n, c[2], c[3], where)))
            if len(ents) < 1:
                raise Unliftable(where, "accumulator %s is not extended in an iteration" % name)

            def fo(leaf):
                if leaf is None or leaf.kind != "loopback" or leaf.ret is None:
                    raise Unliftable(where, "an alternative inside a loop body does not go round the loop")
                nv2 = dict(leaf.ret[2]).get(l)
                cs2 = self.contribs(leaf, nv2, where) if nv2 is not None else []
                if not cs2 or cs2[0] != ("acc", v):
                    raise Unliftable(where, "accumulator %s is replaced instead of extended" % name)
                nodes2 = self.node_by_k(leaf, body)
                out = []
                for c in cs2[1:]:
                    if c[0] != "c" or nodes2.get(c[1]) is None:
                        raise Unliftable(where, "accumulator %s is extended with %s" % (name, c))
                    out.append((id(nodes2[c[1]]), self.source(nodes2[c[1]], c[2], c[3], where)))
                return out
            parts = self.assemble(objs, ents, body, set(), fo, where)
            if not parts:
                raise Unliftable(where, "accumulator %s is extended with values that do not belong to the loop body's items" % name)
            inner = parts[0] if len(parts) == 1 else ("seq", tuple(parts))
            return ("rep", inner)
        if V[0] == "agg" and V[1] not in (sem.OPTION, sem.RESULT) and V[2] not in ("Some", "None"):
            return ("struct", tuple((n.replace("r#", ""), acc_desc(v, n)) for (n, v) in V[3]))
        return ("one", acc_desc(V, "<single>"))


def expected_prov_live(g, e, n, RF, depth=0):
    """plumb.expected_prov, with the alternatives after one that cannot fail left out (they are never tried, and a generator
    that does not emit them produces the same parser)."""
    from . import ebnf, plumb
    k = e[0]
    if k == "group":
        return expected_prov_live(g, e[1], n, RF, depth + 1)
    if k == "include":
        return expected_prov_live(g, g.rule(e[1]).body, n, RF, depth + 1)
    if k == "opt":
        p = expected_prov_live(g, e[1], n, RF, depth + 1)
        return ("opt", p) if p is not None else None
    if k == "closure":
        p = expected_prov_live(g, e[1], n, RF, depth + 1)
        return ("rep", p) if p is not None else None
    if k == "seq":
        ps = [expected_prov_live(g, x, n, RF, depth + 1) for x in e[1]]
        ps = [p for p in ps if p is not None]
        if not ps:
            return None
        return ps[0] if len(ps) == 1 else ("seq", tuple(ps))
    if k == "choice":
        live = []
        for x in e[1]:
            live.append(x)
            try:
                if lift2.infallible(lift2.canon(lift.expected_term(g, x, False))):
                    break
            except Exception:
                pass
        ps = [expected_prov_live(g, x, n, RF, depth + 1) for x in live]
        if all(p is None for p in ps):
            return None
        if len(e[1]) == 1:
            return ps[0]
        return ("alt", tuple(p if p is not None else DEFAULT for p in ps))
    return plumb.expected_prov(g, e, n, RF, depth)


def norm_prov(p):
    """Normal form for comparison: nested alternatives flattened, `opt(p)` = `alt(p, default)`, single alternatives unwrapped."""
    if p is None:
        return DEFAULT       # a field that only dead alternatives would feed
    if not isinstance(p, tuple) or not p:
        return p
    if p[0] == "from":
        return norm_prov(p[2])
    if p[0] == "alt":
        out = []
        for x in p[1]:
            x = norm_prov(x)
            if isinstance(x, tuple) and x and x[0] == "alt":
                out.extend(x[1])
            else:
                out.append(x)
        if len(out) == 1 or all(x == DEFAULT for x in out):
            return out[0]
        return ("alt", tuple(out))
    if p[0] == "seq":
        xs = tuple(x for x in (norm_prov(x) for x in p[1]) if x != DEFAULT)
        if not xs:
            return DEFAULT
        return xs[0] if len(xs) == 1 else ("seq", xs)
    if p[0] == "opt":
        return norm_prov(("alt", (p[1], DEFAULT)))
    if p[0] == "rep":
        return ("rep", norm_prov(p[1]))
    return p
