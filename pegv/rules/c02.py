"""C02 — the tree holds exactly the matches on the successful path, in order.

pure  : generated parse functions have the signature (ParseState, &mut ParseGlobal<..>) -> ParseResult<_>; the only
        mutable channel is `global` (no statics / interior mutability: shared with C20).
plumb : field-name-level lifting: for every rule, each named field of the value its body produces is fed by exactly
        the field matches the grammar labels with that name, in order (first binding then extends; one extend per
        successful closure iteration; defaults exactly on arms / failure paths lacking the field), post-processed as
        the mapping prescribes (box -> enum variant of the rule that matched -> Some / vec!).
wrap  : the rule wrapper builds the public struct field-by-field from the body's value under the same names;
        override wrappers return the body's value unchanged; @string rules return the consumed slice (C09.pair).
"""
from .. import lift2, plumb2
from .. import mir, lift, plumb, ebnf
from ..mir import short, last, strip, walk, norm, is_call
from . import common, c20

LEVEL = "translation_validation"


def check_pure(cx, chk):
    n = 0
    for inst in cx.instances():
        for p, f in inst.fns.items():
            if f["kind"] != "Fn" or not (last(p) == "parse" or (last(p).startswith("parse_") and "::" not in p[len(inst.prefix) + 2:])):
                continue
            n += 1
            ins = f.get("inputs", [])
            okk = len(ins) == 2 and "ParseState" in ins[0] and ins[1].startswith("&mut ") and "ParseGlobal" in ins[1] and "ParseOk" in f.get("output", "")
            if not okk:
                chk.violation("C02.pure", "%s/%s signature" % (inst.name, p[len(inst.prefix) + 2:]),
                              "generated parse function has signature %s -> %s (a side channel for abandoned matches)" % (ins, f.get("output")))
    chk.ok("C02.pure", "signatures", {"parse_functions": n})
    chk.floor("C02.pure", "generated parse functions", n, 2000)
    c20.check_static(cx, chk)
    if "C20.static" in chk.rules:
        chk.rules["C02.pure.static"] = chk.rules.pop("C20.static")


def check_plumb(cx, chk):
    n_ok = 0
    n_rules = 0
    for inst in cx.instances():
        g = cx.grammar_of(inst)
        if g is None:
            chk.violation("C02.plumb", "%s grammar-unreadable" % inst.name, "cannot read the grammar of %s" % inst.name)
            continue
        L = lift.Lifter(cx, inst)
        P = plumb.Plumber(cx, inst, L)
        L2 = lift2.SemLifter(cx, inst)
        P2 = plumb2.SemPlumber(cx, inst, L2)
        chk.programs.add(inst.name)
        for r in g.rules:
            if r.kind != "rule":
                continue
            n_rules += 1
            tag = "%s/%s" % (inst.name, r.name)
            impl = inst.prefix + "::" + r.name + "_impl::parse"
            try:
                fs = ebnf.fields_of(r.body, g)
            except ebnf.Reject as ex:
                chk.violation("C02.plumb", tag + " model-rejects", "documented mapping rejects the rule: %s" % ex)
                continue
            RF = {f.name: f for f in fs}
            names = [f.name for f in fs]
            # the summary-based reading first; the structural one (plumb.py) as a second opinion when a function does not summarise
            engine = "summary"
            try:
                d = P2.desc_fn(impl, lift2.P1)
            except lift.Unliftable as ex:
                first = ex
                engine = "structure"
                try:
                    d = P.val_fn(impl)
                except lift.Unliftable:
                    chk.violation("C02.plumb", tag + " UNLIFTABLE", "UNLIFTABLE %s: %s" % (first.where, first.why))
                    continue
            want = [(n, plumb2.expected_prov_live(g, r.body, n, RF)) for n in names]
            got = None
            if d[0] == "unit":
                got = []
            elif d[0] == "one":
                got = [(names[0] if len(names) == 1 else "?", d[1])]
            else:
                got = list(d[1])
            probs = []
            if [n for n, _ in got] != [n for n, _ in want]:
                probs.append("the body produces fields %s, the grammar has %s (rule-level order)" % ([n for n, _ in got], [n for n, _ in want]))
            else:
                for (n, pg), (_, pw) in zip(got, want):
                    bad = plumb.from_names_ok(pg, n)
                    if bad:
                        probs.append(bad)
                    if plumb2.norm_prov(pg) != plumb2.norm_prov(pw):
                        probs.append("field `%s` is built as %s but the grammar says %s" % (n, plumb.show_prov(plumb.strip_from(pg))[:200], plumb.show_prov(pw)[:200] if pw is not None else "nothing"))
            if probs:
                for pr in probs[:3]:
                    chk.violation("C02.plumb", "%s %s" % (tag, pr.split(" is ")[0][:60]),
                                  "rule %s of %s: %s - the returned tree would not hold exactly the matches on the successful path" % (r.name, inst.name, pr),
                                  getattr(g, "path", None))
            else:
                n_ok += 1
                chk.ok("C02.plumb", tag, {"rule": tag, "engine": engine, "fields": {n: (plumb.show_prov(p)[:120] if p is not None else None) for n, p in want}})
    chk.disagreements_checked += n_rules
    chk.floor("C02.plumb", "rules whose plumbing equals the grammar's", n_ok, 1134)


def check_wrap(cx, chk):
    """Rule wrappers: struct built by name identity from the body's value; overrides returned unchanged - read off the
    semantic summary of every wrapper (wrapsem.RuleView): on every path that evaluates the body successfully, the value that is
    returned / stored is ParseOk{result: Rule{f: body.result.f ..}, state: body.state}."""
    from . import wrapsem
    from .. import sem
    views = wrapsem.rule_views(cx)
    n = 0
    for inst in cx.instances():
        g = cx.grammar_of(inst)
        if g is None:
            continue
        for r in g.rules:
            if r.kind != "rule":
                continue
            v = views.get((inst.name, r.name))
            if v is None or v.path is None:
                continue
            tag = "%s/%s" % (inst.name, r.name)
            if v.sm is None:
                chk.violation("C02.wrap", tag + " unsummarised", "wrapper of rule %s: %s" % (r.name, v.problem), cx.site(v.body))
                continue
            pairs = []
            for leaf in v.leaves:
                pairs.extend(v.mapped(leaf))
            if not pairs:
                chk.violation("C02.wrap", tag + " no-body-call", "wrapper of rule %s never evaluates its body successfully into a result" % r.name, cx.site(v.body))
                continue
            n += 1
            try:
                fs = ebnf.fields_of(r.body, g)
            except ebnf.Reject:
                continue
            names = [f.name for f in fs]
            probs = []
            for (R, X) in pairs:
                pay = mir.mk("field", mir.mk("downcast", R, "Ok"), "0")
                body_res, body_st = mir.mk("field", pay, "result"), mir.mk("field", pay, "state")
                val, st = sem.get_field(X, "result"), sem.get_field(X, "state")
                if st != body_st:
                    probs.append(("state", "the wrapper's result resumes from %s, not from the state the body ended in" % mir.show(st)[:100]))
                if "string" in r.flags:
                    # `@string` ignores field declarations: the value is the consumed slice, measured from the entry state to the
                    # state the body ended in (the measurement itself is C09.pair's subject)
                    sv = val
                    if val[0] == "agg" and "string" in [n_ for (n_, _) in val[3]]:
                        sv = dict(val[3])["string"]
                    meas = [s_ for s_ in walk(sv) if s_[0] == "call" and last(s_[1]) == "slice_until" and "ParseState" in s_[1]]
                    if not meas or tuple(meas[0][2]) != (mir.mk("param", 1), body_st):
                        probs.append(("string-value", "a @string rule does not return the slice it consumed (entry state .. end of body): %s" % mir.show(sv)[:160]))
                    continue
                if names == ["_override"]:
                    if val != body_res:
                        probs.append(("override-remapped", "an override rule does not return the overridden value itself: %s" % mir.show(val)[:200]))
                    continue
                if val[0] != "agg":
                    probs.append(("shape", "normal rule wrapper does not build the rule struct from the body's value: %s" % mir.show(val)[:200]))
                    continue
                got_names = []
                for (fn_, fv) in val[3]:
                    fn_ = fn_.replace("r#", "")
                    if fn_ == "position":
                        continue
                    got_names.append(fn_)
                    if len(names) == 1:
                        if fv != body_res:
                            probs.append((fn_, "field %s is fed by %s, not by the body's single value" % (fn_, mir.show(fv)[:60])))
                    else:
                        if not (fv[0] == "field" and fv[1] == body_res and fv[2].replace("r#", "") == fn_):
                            probs.append((fn_, "field %s is fed by %s, not by the body's component of the same name" % (fn_, mir.show(fv)[:60])))
                if got_names != names:
                    probs.append(("fields", "struct fields %s differ from the rule's fields %s" % (got_names, names)))
            if probs:
                for (k, pr) in sorted(set(probs)):
                    chk.violation("C02.wrap", "%s %s" % (tag, k[:50]), pr, cx.site(v.body))
            else:
                chk.ok("C02.wrap", tag, {"rule": tag, "kind": "override" if names == ["_override"] else ("string" if "string" in r.flags else "struct"), "fields": names, "paths": len(pairs)})
    chk.floor("C02.wrap", "rule wrappers examined", n, 1134)


def run(cx, chk):
    chk.explanation = (
        "Static translation validation at field-name level: for every rule of every analysed grammar the value produced by the "
        "generated body is lifted from MIR into a provenance term per named field (which field applications feed it, concatenated "
        "in which order, which choice arm supplies a default, what a failing optional / a closure iteration contributes, which "
        "box / enum-variant / Some / vec! post-processing is applied) and compared with the provenance an independent reader of the "
        "grammar derives. Rule wrappers are checked to build the public struct by name identity (overrides: unchanged value). "
        "Purity: generated parse functions have only (state, &mut global) as channels and there are no statics, so results of "
        "abandoned alternatives / iterations / lookaheads cannot leak except through the values tracked here.")
    chk.assumptions = ["terminal contracts and combinator axioms (C01.prim / C01.ax)", "structure equality of the same functions (C01.tv)"]
    check_pure(cx, chk)
    check_plumb(cx, chk)
    check_wrap(cx, chk)
    # `@string` rules yield exactly the consumed slice: slice_until(entry, body end) (C09.pair / C09.rt) over a cursor whose
    # offset and remaining input always move together (C04.cursor)
    from . import c09, c04
    c09.check_pair(cx, chk)
    c09.check_rt(cx, chk)
    c04.check_cursor(cx, chk, cx.runtime, "runtime")
    for old, new in (("C09.pair", "C02.string.pair"), ("C09.rt", "C02.string.rt"), ("C04.cursor", "C02.string.cursor")):
        if old in chk.rules:
            chk.rules[new] = chk.rules.pop(old)
