"""C02 — the tree holds exactly the matches on the successful path, in order.

pure  : generated parse functions have the signature (ParseState, &mut ParseGlobal<..>) -> ParseResult<_>; the only
        mutable channel is `global` (no statics / interior mutability: shared with C20).
plumb : field-name-level lifting: for every rule, each named field of the value its body produces is fed by exactly
        the field matches the grammar labels with that name, in order (first binding then extends; one extend per
        successful closure iteration; defaults exactly on arms / failure paths lacking the field), post-processed as
        the mapping prescribes (box -> enum variant of the rule that matched -> Some / vec!).
wrap  : the rule wrapper builds the public struct field-by-field from the body's value under the same names;
        override wrappers return the body's value unchanged; @string rules return the consumed slice (C09.pair).
"""
from .. import mir, lift, plumb, ebnf
from ..mir import short, last, strip, walk, norm, is_call
from . import common, c20

LEVEL = "translation_validation"


def check_pure(cx, chk):
    n = 0
    for inst in cx.instances():
        for p, f in inst.fns.items():
            if f["kind"] != "Fn" or not (last(p) == "parse" or (last(p).startswith("parse_") and "::" not in p[len(inst.prefix) + 2:])):
                continue
            n += 1
            ins = f.get("inputs", [])
            okk = len(ins) == 2 and "ParseState" in ins[0] and ins[1].startswith("&mut ") and "ParseGlobal" in ins[1] and "ParseOk" in f.get("output", "")
            if not okk:
                chk.violation("C02.pure", "%s/%s signature" % (inst.name, p[len(inst.prefix) + 2:]),
                              "generated parse function has signature %s -> %s (a side channel for abandoned matches)" % (ins, f.get("output")))
    chk.ok("C02.pure", "signatures", {"parse_functions": n})
    chk.floor("C02.pure", "generated parse functions", n, 2000)
    c20.check_static(cx, chk)
    if "C20.static" in chk.rules:
        chk.rules["C02.pure.static"] = chk.rules.pop("C20.static")


def check_plumb(cx, chk):
    n_ok = 0
    n_rules = 0
    for inst in cx.instances():
        g = cx.grammar_of(inst)
        if g is None:
            chk.violation("C02.plumb", "%s grammar-unreadable" % inst.name, "cannot read the grammar of %s" % inst.name)
            continue
        L = lift.Lifter(cx, inst)
        P = plumb.Plumber(cx, inst, L)
        chk.programs.add(inst.name)
        for r in g.rules:
            if r.kind != "rule":
                continue
            n_rules += 1
            tag = "%s/%s" % (inst.name, r.name)
            impl = inst.prefix + "::" + r.name + "_impl::parse"
            try:
                fs = ebnf.fields_of(r.body, g)
            except ebnf.Reject as ex:
                chk.violation("C02.plumb", tag + " model-rejects", "documented mapping rejects the rule: %s" % ex)
                continue
            RF = {f.name: f for f in fs}
            names = [f.name for f in fs]
            try:
                d = P.val_fn(impl)
            except lift.Unliftable as ex:
                chk.violation("C02.plumb", tag + " UNLIFTABLE", "UNLIFTABLE %s: %s" % (ex.where, ex.why))
                continue
            want = [(n, plumb.expected_prov(g, r.body, n, RF)) for n in names]
            got = None
            if d[0] == "unit":
                got = []
            elif d[0] == "one":
                got = [(names[0] if len(names) == 1 else "?", d[1])]
            else:
                got = list(d[1])
            probs = []
            if [n for n, _ in got] != [n for n, _ in want]:
                probs.append("the body produces fields %s, the grammar has %s (rule-level order)" % ([n for n, _ in got], [n for n, _ in want]))
            else:
                for (n, pg), (_, pw) in zip(got, want):
                    bad = plumb.from_names_ok(pg, n)
                    if bad:
                        probs.append(bad)
                    if plumb.strip_from(pg) != pw:
                        probs.append("field `%s` is built as %s but the grammar says %s" % (n, plumb.show_prov(plumb.strip_from(pg))[:200], plumb.show_prov(pw)[:200]))
            if probs:
                for pr in probs[:3]:
                    chk.violation("C02.plumb", "%s %s" % (tag, pr.split(" is ")[0][:60]),
                                  "rule %s of %s: %s - the returned tree would not hold exactly the matches on the successful path" % (r.name, inst.name, pr),
                                  getattr(g, "path", None))
            else:
                n_ok += 1
                chk.ok("C02.plumb", tag, {"rule": tag, "fields": {n: plumb.show_prov(p)[:120] for n, p in want}})
    chk.disagreements_checked += n_rules
    chk.floor("C02.plumb", "rules whose plumbing equals the grammar's", n_ok, 1134)


def check_wrap(cx, chk):
    """Rule wrappers: struct built by name identity from the body's value; overrides returned unchanged."""
    n = 0
    for inst in cx.instances():
        g = cx.grammar_of(inst)
        if g is None:
            continue
        for r in g.rules:
            if r.kind != "rule":
                continue
            pfn = inst.rule_fns.get(r.name)
            if pfn is None:
                continue
            tag = "%s/%s" % (inst.name, r.name)
            impl = inst.prefix + "::" + r.name + "_impl::parse"
            # find the closure that calls the body
            cands = [pfn] + sorted(inst.closures_of(pfn))
            body_b = None
            for q in cands:
                bq = cx.body(inst.crate, q)
                if bq is None:
                    continue
                if any(not t["func"].get("indirect") and mir.strip_generics(t["func"]["path"]) == impl for _, t in bq.calls()):
                    body_b = bq
            if body_b is None:
                chk.violation("C02.wrap", tag + " no-body-call", "wrapper of rule %s never evaluates its body" % r.name)
                continue
            b = body_b
            n += 1
            oks = [norm(b.expr_rv(d[3])) for d in b.defs.get(0, []) if d[2] == "rv" and norm(b.expr_rv(d[3]))[0] == "agg" and norm(b.expr_rv(d[3]))[2] == "Ok"]
            if len(oks) != 1:
                chk.violation("C02.wrap", tag + " returns", "wrapper body has %d success returns" % len(oks), cx.site(b))
                continue
            val = oks[0][3][0][1]
            # the body application's Ok payload
            okp = None
            for s_ in walk(val):
                pl = lift.ok_payload_of(s_) if isinstance(s_, mir.E) else None
                if pl is not None and any(x[0] == "call" and mir.strip_generics(x[1]) == impl for x in walk(pl)):
                    okp = s_
            if okp is None:
                chk.violation("C02.wrap", tag + " value-source", "the value returned by the wrapper does not derive from the body's Ok payload: %s" % mir.show(val)[:160], cx.site(b))
                continue
            try:
                fs = ebnf.fields_of(r.body, g)
            except ebnf.Reject:
                continue
            names = [f.name for f in fs]
            if "string" in r.flags:
                continue        # value is the consumed slice (C09.pair)
            if len(names) == 1 and names[0] == "_override":
                if val == okp:
                    chk.ok("C02.wrap", tag, {"rule": tag, "kind": "override", "returns": "the body's value unchanged"})
                else:
                    chk.violation("C02.wrap", tag + " override-remapped", "an override rule does not return the overridden value itself: %s" % mir.show(val)[:200], cx.site(b))
                continue
            # normal rule: map / map_with_state(okp, closure) building the struct
            if not (is_call(val, "map", "map_with_state") and val[2][0] == okp and val[2][1][0] == "closure"):
                chk.violation("C02.wrap", tag + " shape", "normal rule wrapper is not body_ok.map(|r| Rule{..}): %s" % mir.show(val)[:200], cx.site(b))
                continue
            cb = cx.body(inst.crate, val[2][1][1])
            ds = cb.defs.get(0, [])
            e = norm(cb.expr_rv(ds[0][3])) if len(ds) == 1 and ds[0][2] == "rv" else None
            if e is None or e[0] != "agg":
                chk.violation("C02.wrap", tag + " struct", "rule struct is not built by a plain aggregate", cx.site(cb))
                continue
            probs = []
            got_names = []
            for (fn_, v) in e[3]:
                fn_ = fn_.replace("r#", "")
                if fn_ == "position":
                    continue
                got_names.append(fn_)
                if len(names) == 1:
                    if v != ("param", 2):
                        probs.append("field %s is fed by %s, not by the body's single value" % (fn_, mir.show(v)[:60]))
                else:
                    if not (v[0] == "field" and v[1] == ("param", 2) and v[2].replace("r#", "") == fn_):
                        probs.append("field %s is fed by %s, not by the body's component of the same name" % (fn_, mir.show(v)[:60]))
            if got_names != names:
                probs.append("struct fields %s differ from the rule's fields %s" % (got_names, names))
            if probs:
                for pr in probs:
                    chk.violation("C02.wrap", "%s %s" % (tag, pr.split(" is fed")[0][:50]), pr, cx.site(cb))
            else:
                chk.ok("C02.wrap", tag, {"rule": tag, "kind": "struct", "fields": names})
    chk.floor("C02.wrap", "rule wrappers examined", n, 1134)


def run(cx, chk):
    chk.explanation = (
        "Static translation validation at field-name level: for every rule of every analysed grammar the value produced by the "
        "generated body is lifted from MIR into a provenance term per named field (which field applications feed it, concatenated "
        "in which order, which choice arm supplies a default, what a failing optional / a closure iteration contributes, which "
        "box / enum-variant / Some / vec! post-processing is applied) and compared with the provenance an independent reader of the "
        "grammar derives. Rule wrappers are checked to build the public struct by name identity (overrides: unchanged value). "
        "Purity: generated parse functions have only (state, &mut global) as channels and there are no statics, so results of "
        "abandoned alternatives / iterations / lookaheads cannot leak except through the values tracked here.")
    chk.assumptions = ["terminal contracts and combinator axioms (C01.prim / C01.ax)", "structure equality of the same functions (C01.tv)"]
    check_pure(cx, chk)
    check_plumb(cx, chk)
    check_wrap(cx, chk)
    # `@string` rules yield exactly the consumed slice: slice_until(entry, body end) (C09.pair / C09.rt) over a cursor whose
    # offset and remaining input always move together (C04.cursor)
    from . import c09, c04
    c09.check_pair(cx, chk)
    c09.check_rt(cx, chk)
    c04.check_cursor(cx, chk, cx.runtime, "runtime")
    for old, new in (("C09.pair", "C02.string.pair"), ("C09.rt", "C02.string.rt"), ("C04.cursor", "C02.string.cursor")):
        if old in chk.rules:
            chk.rules[new] = chk.rules.pop(old)
