"""C04 — no panic, no split UTF-8 sequence.

who    : the unchecked cursor advance is an `unsafe fn`; the only unsafe
         operations in the runtime are that function's unchecked slice and the
         terminal matchers' calls to it; generated code has no unsafe at all.
len    : every call of the unchecked advance passes a length that the path
         conditions at the call prove to be the UTF-8 length of a matched
         prefix of *this* state (obligation table in DESIGN.md §3 C04).
acc    : accessor axioms used by `len` (s() is the remaining input, is_empty).
cursor : ParseState is only built/updated by new / advance* / record_error,
         each keeping start_index + len(partial_string) invariant.
ascii  : external fact of the insensitive matchers: every literal reaching
         them is ASCII (instances: constants; generator: dominance rule).
panic  : inventory of panic-capable constructs reachable from generated
         parsers, each discharged by a guard, another rule, or a reasoned entry.
"""
from .. import mir
from ..mir import short, last, strip, walk, norm, is_call
from . import common

LEVEL = "other"


# ------------------------------------------------------------------ helpers

def is_state_s(e, STATE):
    """e denotes the remaining input of STATE: s(STATE) or STATE.partial_string."""
    if is_call(e, "s") and "ParseState" in e[1] and len(e[2]) == 1 and e[2][0] == STATE:
        return True
    if e[0] == "field" and e[2] == "partial_string" and e[1] == STATE:
        return True
    return False


def is_byte0(e, STATE):
    if e[0] != "index":
        return False
    base, idx = e[1], e[2]
    if idx != ("const", "usize", 0):
        return False
    return is_call(base, "as_bytes") and len(base[2]) == 1 and is_state_s(base[2][0], STATE)


def as_u8(e):
    """cast(x as u8) -> x"""
    if e[0] == "cast" and e[3] == "u8":
        return e[2]
    return None


def first_char_source(v, STATE):
    """v is the first char of STATE's remaining input, obtained by unwrapping
    chars().next() (via `?`, match, unwrap...)."""
    e = v
    for _ in range(8):
        if e[0] == "field" and e[2] == "0" and e[1][0] == "downcast" and e[1][2] in ("Continue", "Some", "Ok"):
            e = e[1][1]
            continue
        if is_call(e, "branch") and len(e[2]) == 1:
            e = e[2][0]
            continue
        if is_call(e, "ok_or_else", "ok_or", "unwrap", "expect") and e[2]:
            e = e[2][0]
            continue
        break
    if is_call(e, "next") and len(e[2]) == 1:
        it = e[2][0]
        if is_call(it, "chars") and len(it[2]) == 1 and is_state_s(it[2][0], STATE):
            return True
    return False


def highbit_preserving(e, x):
    """Is e = f(x) for a byte function f with f(b) >= 0x80 <=> b >= 0x80 ?  Returns 'lower' for
    to_ascii_lowercase (which additionally fixes every non-ASCII byte), 'highbit' for other such maps."""
    if is_call(e, "to_ascii_lowercase") and len(e[2]) == 1 and e[2][0] == x:
        return "lower"
    if is_call(e, "to_ascii_uppercase") and len(e[2]) == 1 and e[2][0] == x:
        return "highbit"
    if e[0] == "binop" and e[1] in ("BitOr", "BitXor") and e[2] == x and e[3][0] == "const" and isinstance(e[3][2], int) and e[3][2] < 0x80:
        return "highbit"
    if e[0] == "binop" and e[1] == "BitAnd" and e[2] == x and e[3][0] == "const" and isinstance(e[3][2], int) and e[3][2] >= 0x80:
        return "highbit"
    return None


def closure_is_lowercase(cx, crate, clo):
    """λ(b) = b.to_ascii_lowercase()  (or another high-bit-preserving byte map): 'lower' | 'highbit' | None"""
    if clo[0] != "closure":
        return None
    b = cx.body(crate, clo[1])
    if b is None:
        return None
    ds = b.defs.get(0, [])
    if len(ds) != 1:
        return None
    e = norm(b.expr_call(ds[0][3]) if ds[0][2] == "call" else b.expr_rv(ds[0][3]))
    return highbit_preserving(e, ("param", 2))


def prefix_helper(cx, crate, e, S):
    """If e = helper(as_bytes(s(S)), as_bytes(v)) for a crate-local boolean helper recognised (semspec.forall_loop) as
    `len(v) <= len(s) && for (a, b) in zip(s bytes, v bytes) { fold(a) == b }` with a high-bit-preserving fold:
    (v, 'lower' | 'highbit'); else None."""
    from .. import sem
    from . import semspec
    if e[0] != "call" or len(e[2]) != 2:
        return None
    H, N = e[2]
    if not (is_call(H, "as_bytes") and H[2] and is_state_s(H[2][0], S) and is_call(N, "as_bytes") and N[2]):
        return None
    v = N[2][0]
    target = e[3] or e[1]
    if target not in crate.fns or "mir" not in crate.fns[target]:
        return None
    try:
        sm = sem.Sem(cx, crate).summarize(target)
    except sem.SemLimit:
        return None
    fl = semspec.forall_loop(sm)
    if fl is None:
        return None
    P1, P2 = mir.mk("param", 1), mir.mk("param", 2)
    it = fl["iter"]
    while is_call(it, "into_iter", "iter") and len(it[2]) == 1 and not (it[2][0] in (P1, P2)):
        it = it[2][0]
    if not (is_call(it, "zip") and len(it[2]) == 2):
        return None
    a, b_ = it[2]
    while is_call(a, "iter", "into_iter") and len(a[2]) == 1:
        a = a[2][0]
    while is_call(b_, "iter", "into_iter") and len(b_[2]) == 1:
        b_ = b_[2][0]
    if (a, b_) != (P1, P2):
        return None

    def is_len(t, p):
        return (is_call(t, "len") and t[2] and t[2][0] == p) or (t[0] == "unop" and t[1] == "PtrMetadata" and t[2] == p)
    if not any(at[0] == "binop" and at[1] == "Le" and val is True and is_len(at[2], P2) and is_len(at[3], P1) for (at, val) in fl["pre"]):
        return None
    x0, x1 = mir.mk("field", fl["elem"], "0"), mir.mk("field", fl["elem"], "1")
    kinds = []
    for (at, val) in fl["body"]:
        if at[0] == "binop" and at[1] == "Eq" and val is True:
            for l_, r_ in ((at[2], at[3]), (at[3], at[2])):
                if r_ == x1:
                    k = "identity" if l_ == x0 else highbit_preserving(l_, x0)
                    if k:
                        kinds.append(k)
    if len(kinds) != 1 or len(fl["body"]) != 1:
        return None
    return v, ("lower" if kinds[0] in ("lower", "identity") else kinds[0])


class LenProof:
    """Obligation at one call of the unchecked advance.  Two sources of the conditions that hold at the call:
    the dominating switch atoms of the MIR body (b, site, t) or - preferred - the assumptions of one leaf of the
    function's semantic summary before the call event (sem=(state value, length value, [(atom, truth)]))."""

    def __init__(self, cx, crate, b, site, t, semargs=None):
        self.cx, self.crate, self.b, self.site, self.t = cx, crate, b, site, t
        self.used = []
        self.external = []
        if semargs is not None:
            self.STATE, self.L, atoms = semargs
            self.atoms = []
            for (a, v) in atoms:
                self.atoms.append((a, v, -1))
                # canonical Le atoms also in the forms the byte-range clause looks for
                if a[0] == "binop" and a[1] == "Le" and v is False:
                    self.atoms.append((mir.mk("binop", "Lt", a[3], a[2]), True, -1))
            self.sem = True
        else:
            self.STATE = norm(b.expr_op(t["args"][0]))
            self.L = norm(b.expr_op(t["args"][1]))
            self.atoms = b.atoms(site)
            self.sem = False

    def has(self, pred, want):
        for (e, tv, d) in self.atoms:
            if tv is want and pred(e):
                if self.STATE[0] == "local" and not self.sem:
                    if not self.b.no_redef_between(self.STATE[1], d, self.site):
                        continue
                self.used.append("%s is %s @bb%d" % (mir.show(e), tv, d))
                return True
        return False

    def insens_helper(self, e):
        r = prefix_helper(self.cx, self.crate, e, self.STATE)
        if r is None or r[0] != self.L[2][0]:
            return False
        self._fold_kind = r[1]
        self.used.append("%s recognised as a prefix comparison up to the fold `%s`" % (short(e[3] or e[1]), r[1]))
        return True

    def nonempty(self):
        S = self.STATE
        return self.has(lambda e: (is_call(e, "is_empty") and len(e[2]) == 1 and (e[2][0] == S or is_state_s(e[2][0], S))), False)

    def prove(self):
        S, L = self.STATE, self.L
        if S[0] not in ("param", "local", "loopvar"):
            return False, "state operand is not a plain state variable: %s" % mir.show(S)
        # --- len_utf8(v)
        if is_call(L, "len_utf8") and len(L[2]) == 1:
            v = L[2][0]
            if first_char_source(v, S):
                self.used.append("v = first char of s(%s)" % mir.show(S))
                return True, "len_utf8 of the first char of this state"
            if self.has(lambda e: is_call(e, "starts_with") and len(e[2]) == 2 and is_state_s(e[2][0], S)
                        and e[2][1] == v and "char" in (e[4] if len(e) > 4 else ()), True):
                return True, "len_utf8(v) under starts_with::<char>(s, v)"
            return False, "len_utf8(%s): value is not proven to be the first char of this state" % mir.show(v)
        # --- str::len(v)
        if is_call(L, "len") and len(L[2]) == 1 and "str" in L[1]:
            v = L[2][0]
            if self.has(lambda e: is_call(e, "starts_with") and len(e[2]) == 2 and is_state_s(e[2][0], S)
                        and e[2][1] == v and "char" not in (e[4] if len(e) > 4 else ()), True):
                return True, "len(v) under starts_with::<&str>(s, v)"

            def insens(e):
                if not (is_call(e, "eq") and len(e[2]) == 2):
                    return False
                a, bb = e[2]
                if not (is_call(a, "bytes") and a[2][0] == v):
                    a, bb = bb, a
                if not (is_call(a, "bytes") and a[2][0] == v):
                    return False
                # take(len(v)) and map(fold) in either order around bytes(s)
                cur, took, clo = bb, False, None
                for _ in range(2):
                    if is_call(cur, "take") and len(cur[2]) == 2 and cur[2][1] == L and not took:
                        took = True
                        cur = cur[2][0]
                    elif is_call(cur, "map") and len(cur[2]) == 2 and clo is None:
                        clo = cur[2][1]
                        cur = cur[2][0]
                if not took or clo is None:
                    return False
                if not (is_call(cur, "bytes") and is_state_s(cur[2][0], S)):
                    return False
                kind = closure_is_lowercase(self.cx, self.crate, clo)
                self._fold_kind = kind
                return kind is not None
            if self.has(insens, True) or self.has(self.insens_helper, True):
                if getattr(self, "_fold_kind", None) == "highbit":
                    # a fold that may change non-ASCII bytes: every matched input byte is ASCII only if v is
                    self.external.append(("Ascii", mir.show(v)))
                    return True, "len(v) under bytes(v) == take(map(bytes(s), high-bit-preserving fold), len(v)) [needs Ascii(v)]"
                # No external fact needed: equality of len(v) bytes means every input byte either equals a non-ASCII
                # byte of v exactly (to_ascii_lowercase only changes A-Z) or is ASCII where v is ASCII; v is a valid
                # &str, so the input prefix ends where a character of v ends, i.e. on a boundary of the (valid) input.
                return True, "len(v) under bytes(v) == take(map(bytes(s), to_ascii_lowercase), len(v)) [byte-wise equal up to ASCII case]"
            return False, "len(%s): no dominating prefix test on this state" % mir.show(v)
        # --- constant 1
        if L == ("const", "usize", 1):
            if not self.nonempty():
                return False, "advance(1) without a dominating non-empty test on this state"
            if self.has(lambda e: is_call(e, "is_ascii_whitespace") and len(e[2]) == 1 and is_byte0(e[2][0], S), True):
                return True, "advance(1): first byte is ASCII whitespace"

            def eq_byte(e, want_ne):
                if e[0] != "binop" or e[1] != ("Ne" if want_ne else "Eq"):
                    return None
                for x, y in ((e[2], e[3]), (e[3], e[2])):
                    c = as_u8(y)
                    if c is not None and is_byte0(x, S):
                        return ("plain", c)
                    if c is not None:
                        # f(byte0) == c as u8 for a high-bit-preserving f
                        for sub in walk(x):
                            if is_byte0(sub, S) and highbit_preserving(x, sub):
                                return ("lower", c)
                return None
            found = None
            for (e, tv, d) in self.atoms:
                r = eq_byte(e, True) if tv is False else (eq_byte(e, False) if tv is True else None)
                if r:
                    found = r
                    self.used.append("%s is %s @bb%d" % (mir.show(e), tv, d))
                    break
            if found:
                kind, c = found
                if kind == "plain":
                    if self.has(lambda e: is_call(e, "is_ascii") and len(e[2]) == 1 and e[2][0] == c, True):
                        return True, "advance(1): byte0 == c as u8 with c.is_ascii()"
                    return False, "advance(1): byte0 == %s as u8 but %s is not proven ASCII" % (mir.show(c), mir.show(c))
                self.external.append(("Ascii", mir.show(c)))
                return True, "advance(1): f(byte0) == c as u8 for a high-bit-preserving fold f [needs Ascii(c)]"
            # range
            lo = hi = None
            for (e, tv, d) in self.atoms:
                if e[0] == "binop" and tv is False and is_byte0(e[2], S):
                    if e[1] == "Gt" and as_u8(e[3]) is not None:
                        hi = as_u8(e[3])
                        self.used.append("%s is False @bb%d" % (mir.show(e), d))
                    if e[1] == "Lt" and as_u8(e[3]) is not None:
                        lo = as_u8(e[3])
                if e[0] == "binop" and tv is True and is_byte0(e[2], S):
                    if e[1] == "Le" and as_u8(e[3]) is not None:
                        hi = as_u8(e[3])
                        self.used.append("%s is True @bb%d" % (mir.show(e), d))
            if hi is not None:
                if self.has(lambda e: is_call(e, "is_ascii") and len(e[2]) == 1 and e[2][0] == hi, True):
                    return True, "advance(1): byte0 <= to as u8 with to.is_ascii()"
                return False, "advance(1): byte0 <= %s as u8 but it is not proven ASCII" % mir.show(hi)
            return False, "advance(1): first byte not proven ASCII on this path"
        return False, "unrecognised length expression %s" % mir.show(L)


def unchecked_slice_guarded(cx, crate, b, i):
    from .. import sem
    S = sem.Sem(cx, crate, inline=lambda p: p in crate.fns and "mir" in crate.fns[p] and not crate.fns[p].get("unsafe") and "{closure" not in p)
    try:
        sm = S.summarize(b.path)
    except sem.SemLimit:
        return False, False, False, mir.mk("opaque", "unsummarised")
    P1 = mir.mk("param", 1)
    own = mir.mk("field", P1, "partial_string")
    okr = okrecv = guard = True
    seen = 0
    rng = mir.mk("opaque", "no unchecked slice on any path")
    for leaf in sm.leaves:
        for ev in leaf.trace:
            t = ev[0]
            if ev[2] == (b.path, i) and t[0] == "call" and last(t[1]).startswith("get_unchecked") and len(t[2]) == 2:
                seen += 1
                recv, rng = t[2]
                r_ok = rng[0] == "agg" and rng[2] == "RangeFrom" and rng[3][0][1][0] == "param"
                okr = okr and r_ok
                okrecv = okrecv and recv == own
                lenp = rng[3][0][1] if r_ok else None
                g = any(v is True and a[0] == "binop" and a[1] == "Le" and a[2] == lenp
                        and ((is_call(a[3], "len") and a[3][2] and a[3][2][0] == own) or (a[3][0] == "unop" and a[3][1] == "PtrMetadata" and a[3][2] == own))
                        for (a, v) in leaf.assumed_before(ev))
                guard = guard and g
    if not seen:
        return False, False, False, rng
    return okr, okrecv, guard, rng


def prove_site(cx, crate, b, i, t, adv):
    """Discharge the length obligation of the unsafe advance called in block i of b: in every leaf of the function's
    semantic summary that performs this call, under the assumptions made before it; falls back to the dominating
    conditions of the MIR body when the function does not summarise."""
    from .. import sem
    S = cx.__dict__.setdefault("_c04_sem", {}).get(crate.file)
    if S is None:
        S = cx.__dict__["_c04_sem"][crate.file] = sem.Sem(cx, crate)
    try:
        sm = S.summarize(b.path)
    except sem.SemLimit:
        sm = None
    if sm is not None and sm.complete and not sm.heap_in_loop:
        evs = []
        for leaf in sm.leaves + sm.loopbacks:
            for ev in leaf.trace:
                if ev[2] == (b.path, i) and ev[0][0] == "call" and (ev[0][1] in adv or ev[0][3] in adv):
                    evs.append((leaf, ev))
        if evs:
            last_pr = None
            for (leaf, ev) in evs:
                pr = LenProof(cx, crate, b, i, t, semargs=(ev[0][2][0], ev[0][2][1], list(leaf.assume[:ev[1]])))
                ok, why = pr.prove()
                if not ok:
                    return False, why + " [on the path: %s]" % " & ".join("%s=%s" % (mir.show(a)[:60], v) for a, v in leaf.assume[:ev[1]])[:400], pr
                last_pr = pr
            return True, why + " [%d summary path(s)]" % len(evs), last_pr
    pr = LenProof(cx, crate, b, i, t)
    ok, why = pr.prove()
    return ok, why, pr


# ------------------------------------------------------------------ rules

def unsafe_cursor_fns(cx, crate):
    """Role anchor: unsafe fns of the crate that reach an unchecked slice op."""
    out = []
    for p, f in crate.fns.items():
        if f.get("unsafe") and "mir" in f:
            b = cx.body(crate, p)
            if any(last(t["func"]["path"]).startswith("get_unchecked") for _, t in b.calls() if not t["func"].get("indirect")):
                out.append(p)
    return out


def check_who_len(cx, chk, crate, label):
    adv = unsafe_cursor_fns(cx, crate)
    if not adv:
        # either renamed away or made safe: both are reportable
        cands = [p for p in crate.fns if "mir" in crate.fns[p] and any(
            not t["func"].get("indirect") and last(t["func"]["path"]).startswith("get_unchecked")
            for _, t in cx.body(crate, p).calls())]
        for p in cands:
            chk.violation("C04.who", "%s safe-fn-with-unchecked-slice %s" % (label, short(p)),
                          "%s performs an unchecked slice but is not an `unsafe fn`: its char-boundary obligation "
                          "is no longer visible to callers" % short(p), cx.site(cx.body(crate, p)))
        if not cands:
            chk.anchor_missing("C04.who", "%s: unsafe cursor-advance function" % label)
        return []
    externals = []
    n_sites = 0
    audited_fns = set(adv)
    for p, f in sorted(crate.fns.items()):
        if "mir" not in f:
            continue
        b = cx.body(crate, p)
        for i, t in b.calls():
            fn = t["func"]
            if fn.get("indirect") or not fn.get("unsafe"):
                continue
            nm = short(fn["path"])
            tag = "%s %s -> %s" % (label, short(p), nm)
            # expansion of format_args!/panic!: fmt internals only
            if t.get("fn_exp") and ("fmt::" in fn["path"] or "core::fmt" in fn["path"] or "panicking" in fn["path"]):
                continue
            if fn["path"] in adv or fn.get("resolved") in adv:
                n_sites += 1
                audited_fns.add(p)
                ok, why, pr = prove_site(cx, crate, b, i, t, adv)
                if ok:
                    chk.ok("C04.len", tag, {"site": cx.site(b, i), "fn": short(p), "length": mir.show(pr.L),
                                            "why": why, "atoms": pr.used})
                    for ex in pr.external:
                        externals.append((p, ex))
                else:
                    chk.violation("C04.len", "%s len=%s" % (tag, mir.show(pr.L)),
                                  "unsafe cursor advance whose length is not justified by the conditions that "
                                  "dominate the call: %s" % why, cx.site(b, i),
                                  {"state": mir.show(pr.STATE), "length": mir.show(pr.L),
                                   "atoms": [(mir.show(e), str(tv)) for (e, tv, d) in pr.atoms]})
            elif last(fn["path"]).startswith("get_unchecked") and p in adv:
                # inside the cursor-advance fn: range must be `length..` of the fn's own parameter, and every summary path
                # reaching it has passed `length <= len` (the guard may live in a local helper: helpers are inlined)
                okr, okrecv, guard, rng = unchecked_slice_guarded(cx, crate, b, i)
                if okr and okrecv and guard:
                    chk.ok("C04.who", tag, {"site": cx.site(b, i), "range": mir.show(rng), "guard": "length <= len"})
                else:
                    chk.violation("C04.who", tag + " shape", "unchecked slice in the cursor advance is not "
                                  "`partial_string[length..]` under a length<=len guard: %s" % mir.show(rng), cx.site(b, i))
            else:
                chk.violation("C04.who", tag, "call to unsafe function %s outside the audited cursor-advance "
                              "protocol" % nm, cx.site(b, i))
        # raw pointer dereferences
        for i in b.reach:
            for st in b.blocks[i]["stmts"]:
                if st["k"] != "assign" or st.get("exp"):
                    continue
                for pl in [st["place"], st["rv"].get("place")]:
                    if pl and pl["p"] and pl["p"][0]["k"] == "deref" and b.ty(pl["l"]).startswith("*"):
                        chk.violation("C04.who", "%s %s raw-deref" % (label, short(p)),
                                      "raw pointer dereference in the runtime", cx.site(b, i))
    # user-written unsafe blocks must sit in audited functions
    ub = [u for u in crate.j["unsafe_blocks"] if u["user"] and not u["span"]["exp"]]
    for u in ub:
        owner = u["fn"]
        # closures: attribute to the root fn
        root = owner.split("::{closure")[0]
        if owner not in audited_fns and root not in audited_fns:
            chk.violation("C04.who", "%s unsafe-block in %s" % (label, short(owner)),
                          "unsafe block in a function that is not part of the audited cursor-advance protocol",
                          "%s:%d" % (u["span"]["file"], u["span"]["line"]))
    chk.floor("C04.who", "%s user unsafe blocks" % label, len(ub), 6)
    chk.floor("C04.len", "%s unsafe advance call sites" % label, n_sites, 6)
    # the safe variant must use checked slicing
    return externals


def check_acc(cx, chk, crate):
    """s(self) == self.partial_string ; is_empty(self) == s(self).is_empty()"""
    def ret_expr(p):
        b = cx.body(crate, p)
        ds = b.defs.get(0, [])
        if len(ds) != 1:
            return None, b
        return norm(b.expr_rv(ds[0][3]) if ds[0][2] == "rv" else b.expr_call(ds[0][3])), b
    sp = [p for p in crate.fns if mir.strip_generics(p).endswith("ParseState::s")]
    ie = [p for p in crate.fns if mir.strip_generics(p).endswith("ParseState::is_empty")]
    if not sp or not ie:
        chk.anchor_missing("C04.acc", "ParseState::s / is_empty")
        return
    e, b = ret_expr(sp[0])
    if e == ("field", ("param", 1), "partial_string"):
        chk.ok("C04.acc", "s", {"s": mir.show(e)})
    else:
        chk.violation("C04.acc", "ParseState::s", "s() does not return the remaining input: %s" % mir.show(e), cx.site(b))
    e, b = ret_expr(ie[0])
    if e is not None and is_call(e, "is_empty") and "str" in e[1] and is_state_s(e[2][0], ("param", 1)):
        chk.ok("C04.acc", "is_empty", {"is_empty": mir.show(e)})
    else:
        chk.violation("C04.acc", "ParseState::is_empty", "is_empty() is not s().is_empty(): %s" % mir.show(e), cx.site(b))


def touches_cursor(b):
    """Does body b build a ParseState, assign one of its cursor fields or borrow one mutably?"""
    for i in sorted(b.reach):
        t = b.blocks[i]["term"]
        if t["k"] == "call" and not t["func"].get("indirect") and mir.strip_generics(t["func"]["path"]).endswith("ParseState::new") \
                and not mir.strip_generics(b.path).endswith("ParseState::new"):
            return True     # a state made with the constructor outside the constructor: must be `new(the caller's own input)`
        for st in b.blocks[i]["stmts"]:
            if st["k"] != "assign":
                continue
            rv = st["rv"]
            if rv["k"] == "agg" and rv.get("agg") == "adt" and rv["adt"].endswith("::ParseState"):
                return True
            for pe in st["place"]["p"]:
                if pe["k"] == "field" and (pe.get("owner") or "").endswith("::ParseState") and pe["name"] in ("partial_string", "start_index"):
                    return True
            if rv["k"] == "ref" and rv["mut"]:
                for pe in rv["place"]["p"]:
                    if pe["k"] == "field" and (pe.get("owner") or "").endswith("::ParseState") and pe["name"] in ("partial_string", "start_index"):
                        return True
    return False


def check_cursor(cx, chk, crate, label):
    """Every function that builds a ParseState or touches its cursor fields returns (on every path of its semantic summary)
    a state that is `new(s)`, the receiver's cursor unchanged, or the receiver advanced by one n in both cursor fields -
    so start_index + len(partial_string) is invariant.  Struct literal, struct update and in-place mutation summarise alike."""
    from .. import sem
    from . import semspec
    names = semspec.adt_fields(crate, "state::ParseState")
    if not names or not {"partial_string", "start_index"} <= set(names):
        chk.anchor_missing("C04.cursor", "%s: struct ParseState with partial_string / start_index" % label)
        return
    S = sem.Sem(cx, crate, inline=lambda p: p in crate.fns and "mir" in crate.fns[p] and not crate.fns[p].get("unsafe") and "{closure" not in p)
    P1 = mir.mk("param", 1)
    n = 0
    for p, f in sorted(crate.fns.items()):
        if "mir" not in f or "{closure" in p:
            continue
        b = cx.body(crate, p)
        if not touches_cursor(b):
            continue
        n += 1
        sp = short(p)
        tag = "%s %s" % (label, sp)
        try:
            sm = S.summarize(p)
        except sem.SemLimit as ex:
            chk.violation("C04.cursor", tag + " unsummarised", "a function touching the cursor fields could not be summarised: %s" % ex, cx.site(b))
            continue
        out_ty = f.get("output", "")
        forms = set()
        probs = []
        for leaf in sm.leaves:
            if leaf.kind != "return":
                continue
            vals = []
            if "ParseState" in out_ty and not any(x in out_ty for x in ("ParseOk", "Result", "Option", "ChoiceHelper")):
                vals.append(leaf.ret)
            for k, w in leaf.writes.items():
                vals.append(w)
            if not vals:
                probs.append("builds or modifies a ParseState that is neither returned nor the receiver: %s" % mir.show(leaf.ret)[:100])
            for v in vals:
                fs = semspec.fields(v, names)
                ps, si = fs["partial_string"], fs["start_index"]
                own_ps, own_si = mir.mk("field", P1, "partial_string"), mir.mk("field", P1, "start_index")
                if si == ("const", "usize", 0) and ps[0] == "param" and fs.get("farthest_error") == sem.NONE:
                    forms.add("new(s, 0, None)")
                    continue
                if si == own_si and ps == own_ps:
                    forms.add("cursor unchanged")
                    continue
                amount = None
                if si[0] == "binop" and si[1] == "Add" and si[2] == own_si:
                    amount = si[3]
                elif si[0] == "binop" and si[1] == "Add" and si[3] == own_si:
                    amount = si[2]
                okk = False
                if amount is not None and is_call(ps, "get_unchecked", "index") and len(ps[2]) == 2:
                    recv, rng = ps[2]
                    if recv == own_ps and rng[0] == "agg" and rng[2] == "RangeFrom" and rng[3][0][1] == amount:
                        okk = all(fs[n_] == mir.mk("field", P1, n_) for n_ in names if n_ not in ("partial_string", "start_index"))
                if okk:
                    forms.add("advance: partial_string[n..], start_index+n, same n=%s" % mir.show(amount)[:40])
                    continue
                probs.append("returns a state with start_index=%s partial_string=%s" % (mir.show(si)[:80], mir.show(ps)[:120]))
        if probs:
            for pr in sorted(set(probs))[:2]:
                chk.violation("C04.cursor", tag + (" builds ParseState" if "returns" in pr or "builds" in pr else ""),
                              "cursor invariant start_index + len(partial_string) = input length is not preserved by %s: %s" % (sp, pr), cx.site(b))
        else:
            chk.ok("C04.cursor", tag, {"fn": sp, "forms": sorted(forms), "leaves": len(sm.leaves)})
    chk.floor("C04.cursor", "%s functions touching the cursor" % label, n, 2)


PANIC_CALLEES = ("panic", "panic_fmt", "panic_display", "panic_explicit", "begin_panic", "unreachable_display",
                 "panic_nounwind", "panic_bounds_check", "assert_failed", "unwrap_failed", "expect_failed",
                 "panic_cold_explicit", "panic_str_2015", "panic_const")
PANICKY_METHODS = ("unwrap", "expect", "unwrap_err", "expect_err", "unwrap_unchecked")
INDEX_TRAITS = ("Index::index", "IndexMut::index_mut")


def panic_sites(b):
    """(bb, kind, detail) for every panic-capable construct of body b (normal blocks)."""
    for i in sorted(b.reach):
        t = b.blocks[i]["term"]
        if t["k"] == "assert":
            if t["kind"] in ("misaligned", "nullptr") and b.blocks[i]["span"]["exp"]:
                # debug-build pointer checks rustc inserts into std macro expansions (vec!): std's own unsafe code
                continue
            yield i, "assert:" + t["kind"], t
        elif t["k"] == "call" and not t["func"].get("indirect"):
            f = t["func"]
            l = last(f["path"])
            s = short(f["path"])
            if l in PANIC_CALLEES or l.startswith("panic_const"):
                yield i, "panic", t
            elif l in PANICKY_METHODS and ("Option" in f["path"] or "Result" in f["path"]):
                yield i, "unwrap", t
            elif s in INDEX_TRAITS or (l in ("index", "index_mut") and "Index" in f["path"]):
                yield i, "index", t
            elif l in ("split_at", "copy_from_slice", "swap", "remove", "swap_remove", "insert") and ("slice" in f["path"] or "Vec" in f["path"] or "str" in f["path"]):
                yield i, "slice_op:" + l, t
            elif l in ("borrow", "borrow_mut") and "RefCell" in f["path"]:
                yield i, "refcell", t
            elif t["target"] is None:
                yield i, "diverges:" + s, t


# (function short name, kind) -> reason.  Entries confirmed by reading the code.
RUNTIME_PANIC_TABLE = {
    ("ParseState::advance", "panic"): "overrun guard: unreachable because every caller's length is <= remaining length (C04.len: starts_with / first-char / non-empty guards)",
    ("ParseState::advance", "assert:overflow_Add"): "start_index + length <= input length <= usize::MAX by the cursor invariant (C04.cursor) and length <= remaining (C04.len)",
    ("ParseState::advance_safe", "panic"): "documented user obligation: extern functions must return a length within the remaining input",
    ("ParseState::advance_safe", "assert:overflow_Add"): "as for advance: guarded by the preceding length <= len test and the cursor invariant",
    ("ParseState::advance_safe", "index"): "checked str slicing: panics only if the extern function returns a non-boundary length (documented user obligation; never UB)",
    ("ParseState::slice_until", "assert:overflow_Sub"): "other.start_index >= self.start_index: the argument pair is always (entry state, descendant state) - C09.pair",
    ("ParseState::slice_until", "index"): "offset difference of two states of one parse is a char boundary within partial_string (C04.cursor + C09.pair)",
    ("IndentedTracer::print_trace_start", "assert:overflow_Add"): "nesting depth is bounded by the call stack",
    ("IndentedTracer::print_trace_result", "assert:overflow_Sub"): "entries and exits are paired (C19.pair), so the level is >= 1 here",
}


def guarded_byte0(b, i, t):
    """bounds assert for as_bytes()[0] dominated by a non-empty test of the same state."""
    if t["kind"] != "bounds":
        return False
    idx = norm(b.expr_op(t["index"]))
    if idx != ("const", "usize", 0):
        return False
    ln = norm(b.expr_op(t["len"]))
    # len = PtrMetadata(as_bytes(s(STATE)))
    base = None
    for s in walk(ln):
        if is_call(s, "as_bytes"):
            base = s
    if base is None:
        return False
    inner = base[2][0]
    STATE = inner[2][0] if is_call(inner, "s") else None
    if STATE is None:
        return False
    for (e, tv, d) in b.atoms(i):
        if tv is False and is_call(e, "is_empty") and (e[2][0] == STATE or is_state_s(e[2][0], STATE)):
            if STATE[0] == "local" and not b.no_redef_between(STATE[1], d, i):
                continue
            return True
    return False


def runtime_reachable(cx, crate):
    """Runtime functions reachable from what generated parsers call (everything
    public in builtin_parsers / state / choice_helper / parse_result / global + tracers)."""
    roots = []
    for p, f in crate.fns.items():
        if "mir" not in f:
            continue
        sp = mir.strip_generics(p)
        if any(x in sp for x in ("::builtin_parsers::", "::state::", "::choice_helper::", "::parse_result::",
                                 "::global::", "::trace::", "ParseResultExtras", "ParseTracer")):
            if "fmt::Debug" in p:
                continue
            roots.append(p)
    seen = set()
    st = list(roots)
    while st:
        p = st.pop()
        if p in seen or p not in crate.fns or "mir" not in crate.fns[p]:
            continue
        seen.add(p)
        b = cx.body(crate, p)
        for _, t in b.calls():
            f = t["func"]
            if f.get("indirect"):
                continue
            for q in (f.get("resolved"), f["path"]):
                if q in crate.fns:
                    st.append(q)
        for q in crate.fns:
            if q.startswith(p + "::{closure"):
                st.append(q)
    return sorted(seen)


def fn_key(p):
    """`IndentedTracer::print_trace_start` for impl methods, `ParseState::advance` for inherent."""
    q = mir.qself(p)
    if q:
        return "%s::%s" % (last(q[0]), q[2])
    return short(p)


def check_panic_runtime(cx, chk, crate, label):
    from . import guards
    fns = runtime_reachable(cx, crate)
    n = 0
    G = guards.Guards(cx, crate)
    for p in fns:
        b = cx.body(crate, p)
        for i, kind, t in panic_sites(b):
            n += 1
            key = (fn_key(p), kind)
            tag = "%s %s %s" % (label, key[0], kind)
            if t["k"] == "call" and t.get("fn_exp") and kind.startswith("diverges"):
                continue
            if kind in ("assert:overflow_Sub", "assert:bounds") and key not in RUNTIME_PANIC_TABLE and G.verdicts(p).get(i) == "proved":
                chk.ok("C04.panic", tag, {"fn": key[0], "kind": kind, "discharged_by": "the tests the function makes before the site exclude every value for "
                                          "which it fails (path-sensitive summary, small values enumerated)"})
                continue
            if kind == "assert:bounds" and guarded_byte0(b, i, t):
                chk.ok("C04.panic", tag, {"fn": key[0], "kind": kind, "discharged_by": "dominating non-empty test"})
                continue
            if key in RUNTIME_PANIC_TABLE:
                chk.ok("C04.panic", tag, {"fn": key[0], "kind": kind, "reason": RUNTIME_PANIC_TABLE[key]})
                continue
            # a private helper: the site belongs to its callers (an extracted guard keeps its justification)
            if crate.fns[p].get("vis") != "Public":
                callers = set()
                for q in fns:
                    qb = cx.body(crate, q)
                    for _, tq in qb.calls():
                        fq = tq["func"]
                        if not fq.get("indirect") and (fq.get("resolved") or fq["path"]) == p:
                            callers.add(q)
                if callers and all((fn_key(q), kind) in RUNTIME_PANIC_TABLE for q in callers):
                    chk.ok("C04.panic", tag, {"fn": key[0], "kind": kind, "private_helper_of": sorted(fn_key(q) for q in callers),
                                              "reason": "; ".join(sorted({RUNTIME_PANIC_TABLE[(fn_key(q), kind)] for q in callers}))[:300]})
                    continue
            chk.violation("C04.panic", tag, "panic-capable construct (%s) in a runtime function reachable from "
                          "generated parsers, with no recognised guard and no justification entry" % kind,
                          cx.site(b, i))
    chk.floor("C04.panic", "%s panic-capable sites examined" % label, n, 7)


# generated code: (kind) -> reason, by role of the function
def check_generated(cx, chk, ext_names=("parse_character_literal_insensitive",)):
    n_fns = 0
    n_ins = 0
    for inst in cx.instances():
        ub = [u for u in inst.crate.j["unsafe_blocks"] if u["fn"].startswith(inst.prefix + "::") or u["fn"].startswith(inst.outer + "::")]
        ub = [u for u in ub if not (u["span"]["exp"] and not u["user"])]
        for u in ub:
            chk.violation("C04.who", "%s unsafe-block in generated %s" % (inst.name, short(u["fn"])),
                          "unsafe block inside generated code", "%s:%d" % (u["span"]["file"], u["span"]["line"]))
        for p, f in sorted(inst.fns.items()):
            if "mir" not in f:
                continue
            n_fns += 1
            b = cx.body(inst.crate, p)
            rest = p[len(inst.prefix) + 2:]
            for i, t in b.calls():
                fn = t["func"]
                if fn.get("indirect"):
                    continue
                if fn.get("unsafe") and not (t.get("fn_exp") and "fmt" in fn["path"]):
                    chk.violation("C04.who", "%s/%s calls unsafe %s" % (inst.name, rest, short(fn["path"])),
                                  "generated code calls an unsafe function", cx.site(b, i))
                l = last(fn["path"])
                if l in ("parse_string_literal_insensitive", "parse_character_literal_insensitive"):
                    n_ins += 1
                    c = b.expr_op(t["args"][1])
                    need_ascii = l in ext_names
                    if c[0] == "const" and isinstance(c[2], str) and (not need_ascii or all(ord(ch) < 128 for ch in c[2])) \
                            and not any("A" <= ch <= "Z" for ch in c[2]):
                        chk.ok("C04.ascii", "%s/%s %r" % (inst.name, rest, c[2]), {"instance": inst.name, "literal": c[2]})
                    else:
                        chk.violation("C04.ascii", "%s/%s insensitive literal %s" % (inst.name, rest, mir.show(c)),
                                      "case-insensitive matcher called with a literal that is not a lower-case ASCII constant "
                                      "(its unsafe advance relies on ASCII)", cx.site(b, i))
            for i, kind, t in panic_sites(b):
                tag = "%s/%s %s" % (inst.name, rest, kind)
                if kind == "assert:overflow_Add":
                    # closure iteration counter: `iterations += 1`
                    a = norm(b.expr_op(t["a"]))
                    c = norm(b.expr_op(t["b"]))
                    if c == ("const", "usize", 1) and a[0] == "local" and b.ty(a[1]) == "usize":
                        chk.ok("C04.panic", tag, {"fn": rest, "kind": kind, "reason": "closure iteration counter: bounded by input length + 1 under the well-formedness assumption (each iteration consumes)"})
                        continue
                chk.violation("C04.panic", tag, "panic-capable construct (%s) in generated code" % kind, cx.site(b, i))
    chk.floor("C04.who", "generated functions scanned for unsafe", n_fns, 1200)
    chk.floor("C04.ascii", "insensitive matcher call sites in instances", n_ins, 4)


def run(cx, chk):
    chk.explanation = (
        "Sound discharge of every unsafe precondition in the runtime crate plus a panic inventory, for all inputs: "
        "(who) the only unsafe operations are the unchecked slice inside the unsafe cursor-advance fn and the terminal "
        "matchers' calls to it, generated code has none; (len) at each such call the length expression is proven from "
        "the dominating branch conditions to be the UTF-8 length of a matched prefix of the same state; (cursor) "
        "ParseState is only built by new/advance*/clone with start_index and partial_string moving by the same amount; "
        "(ascii) insensitive matchers only ever receive lower-case ASCII constants; (panic) every panic-capable "
        "construct reachable from generated parsers is discharged by a guard, another rule or a reasoned table entry.")
    chk.assumptions = ["extern functions return byte lengths on char boundaries within the remaining input (documented user obligation; the checked advance panics otherwise, never UB)",
                       "stack depth is excluded by the property",
                       "allocation failure and failing stderr (eprintln! in the tracer) are environmental"]
    rt = cx.runtime
    ext = check_who_len(cx, chk, rt, "runtime")
    check_acc(cx, chk, rt)
    check_cursor(cx, chk, rt, "runtime")
    check_panic_runtime(cx, chk, rt, "runtime")
    if cx.runtime_nodefault is not None:
        check_who_len(cx, chk, cx.runtime_nodefault, "runtime(no-default-features)")
        check_cursor(cx, chk, cx.runtime_nodefault, "runtime(no-default-features)")
        check_panic_runtime(cx, chk, cx.runtime_nodefault, "runtime(no-default-features)")
    # external facts: Ascii(param) of the insensitive matchers -> discharged on callers
    needs = sorted({short(p) for (p, ex) in ext})
    chk.extra["external_facts"] = [{"fn": short(p), "fact": ex} for (p, ex) in ext]
    ext_names = tuple(sorted({last(p) for (p, ex) in ext if ex[0] == "Ascii"}))
    check_generated(cx, chk, ext_names)
    from . import templates
    templates.check_c04_ascii(cx, chk, ext_names)
