"""C07 — @leftrec terminates and grows.

strict   : is_further_than is a strict comparison of absolute offsets.
seed     : a failing seed is stored under the entry key before the first body evaluation.
progress : every trip round the growth loop re-stores a best result that is either
           strictly further than the previous one, or the first success.
exit     : every exit returns the best result as last stored.
"""
from .. import mir
from ..mir import short, last, strip, walk, norm, is_call
from . import memo

LEVEL = "other"


def is_ok_state_of(e, base):
    """e == ((base as Ok).0).state"""
    return (e[0] == "field" and e[2] == "state" and e[1][0] == "field" and e[1][2] == "0"
            and e[1][1][0] == "downcast" and e[1][1][2] == "Ok" and e[1][1][1] == base)


def check_strict(cx, chk):
    rt = cx.runtime
    ks = [p for p in rt.fns if mir.strip_generics(p).endswith("ParseState::is_further_than")]
    if not ks:
        chk.anchor_missing("C07.strict", "ParseState::is_further_than")
        return
    b = cx.body(rt, ks[0])
    ds = b.defs.get(0, [])
    e = norm(b.expr_rv(ds[0][3])) if len(ds) == 1 and ds[0][2] == "rv" else None
    me, ot = ("field", ("param", 1), "start_index"), ("field", ("param", 2), "start_index")
    # decide over the three orderings of two integers
    verdict = None
    if e and e[0] == "binop" and {e[2], e[3]} == {me, ot}:
        op = e[1]
        a_is_me = e[2] == me
        table = {}
        for name, (x, y) in {"lt": (0, 1), "eq": (1, 1), "gt": (2, 1)}.items():
            l, r = (x, y) if a_is_me else (y, x)
            table[name] = {"Gt": l > r, "Ge": l >= r, "Lt": l < r, "Le": l <= r, "Eq": l == r, "Ne": l != r}.get(op)
        verdict = table
    want = {"lt": False, "eq": False, "gt": True}
    if verdict == want:
        chk.ok("C07.strict", "is_further_than", {"expr": mir.show(e), "orderings": verdict})
    else:
        chk.violation("C07.strict", "is_further_than", "progress test is not `self.start_index > other.start_index` "
                      "(evaluated over the 3 orderings: %s): a non-strict test lets the growth loop spin forever" % verdict,
                      cx.site(b), {"expr": mir.show(e) if e else None})


def run(cx, chk):
    chk.explanation = (
        "Loop rule over every generated @leftrec wrapper: a failing seed is inserted under the entry key before the loop; "
        "every cyclic path through the loop passes an insert of a newly assigned best result that is guarded either by "
        "is_further_than(new.state, best.state) = true or by (new Ok, best Err); every exit returns the best-result "
        "variable and every assignment to it is followed by an insert. With is_further_than decided strict over the 3 "
        "orderings of two offsets, the loop runs at most input-length+2 times provided the body terminates.")
    chk.assumptions = ["termination of the rule body itself (C01's well-formedness assumption)"]
    check_strict(cx, chk)
    n = 0
    for w in memo.cached_wrappers(cx):
        if not w.ok or not w.leftrec:
            continue
        n += 1
        tag = "%s/%s" % (w.inst.name, w.rule)
        b = w.body
        L = memo.LeftrecLoop(w)
        if L.problems:
            for p in L.problems:
                chk.violation("C07.shape", "%s %s" % (tag, p), "left-recursive wrapper not recognised: %s" % p, cx.site(b))
            continue
        Bx = ("local", L.B)
        # ---- seed
        if len(L.seed_defs) != 1:
            chk.violation("C07.seed", tag + " seed-count", "expected one seed assignment before the loop, found %d" % len(L.seed_defs), cx.site(b))
        else:
            sb, d = L.seed_defs[0]
            e = norm(b.expr_rv(d[3])) if d[2] == "rv" else None
            okseed = False
            if e and e[0] == "agg" and e[2] == "Err":
                inner = e[3][0][1]
                if is_call(inner, "report_error") and len(inner[2]) == 2:
                    st, spec = inner[2]
                    st_src = st[2][0] if is_call(st, "clone") else st
                    if w.state_capture(st_src) and spec[0] == "agg" and spec[2] == "LeftRecursionSentinel":
                        okseed = True
            ins_before = [i for (i, _) in w.inserts if i not in L.loop and b.dominates(i, L.head) and b.dominates(sb, i)]
            body_calls_before = [obb for (obb, body, i, t) in w.flat.items
                                 if obb not in L.loop and b.dominates(w.miss, obb)
                                 and not t["func"].get("indirect") and t["func"]["path"].startswith(w.inst.prefix)]
            if okseed and ins_before and not body_calls_before:
                chk.ok("C07.seed", tag, {"wrapper": tag, "seed": mir.show(e), "insert_bb": ins_before[0]})
            else:
                chk.violation("C07.seed", tag, "no failing sentinel seed stored under the entry key before the first body "
                              "evaluation (seed=%s, insert before loop=%s, body calls before loop=%s)"
                              % (mir.show(e) if e else None, bool(ins_before), len(body_calls_before)), cx.site(b, sb))
        # ---- N: the value matched against B = result of the calls inside the loop that evaluate the body
        # ---- progress
        cyc = []
        for src in L.back_srcs:
            for pth in L.iter_paths(L.head, {src}):
                if all(x in L.loop for x in pth):
                    cyc.append(pth)
        good_cyc = 0
        for pth in cyc:
            edges = L.path_edges(pth)
            ins = [x for x in pth if x in L.insert_bbs]
            defs = [x for x in pth if any(x == db for (db, _) in L.loop_defs)]
            why = None
            if not ins or not defs:
                why = "a trip round the loop neither updates nor re-stores the best result"
            else:
                strict = [(e, v) for (e, v, _) in edges if v is True and is_call(e, "is_further_than") and len(e[2]) == 2
                          and is_ok_state_of(e[2][1], Bx) and e[2][0][0] == "field" and e[2][0][2] == "state"
                          and e[2][0] != e[2][1]]
                first = [(e, v) for (e, v, _) in edges if e[0] == "discr" and e[1] == Bx and v == 1]
                new_ok = [(e, v) for (e, v, _) in edges if e[0] == "discr" and e[1] != Bx and v == 0]
                if strict:
                    # the new state compared must belong to the value that becomes B
                    good_cyc += 1
                elif first and new_ok:
                    good_cyc += 1
                else:
                    why = "a trip round the loop is not guarded by the strict progress test nor by (new Ok, best Err)"
            if why:
                chk.violation("C07.progress", "%s %s" % (tag, why.split(" is ")[0][:60]),
                              "growth loop of parse_%s: %s" % (w.rule, why), cx.site(b, pth[-1]),
                              {"path": memo.describe_path(b, pth), "edges": [(mir.show(e), str(v)) for (e, v, _) in edges]})
        if not cyc:
            chk.violation("C07.progress", tag + " no-cycle", "no cyclic path found in the growth loop", cx.site(b))
        elif good_cyc == len(cyc):
            chk.ok("C07.progress", tag, {"wrapper": tag, "cyclic_paths": len(cyc), "loop_head": L.head})
        # every loop assignment to B takes the new result and is followed by an insert
        for (db, d) in L.loop_defs:
            stops = {L.head} | set(b.returns)
            found_bad = None
            st = [db]
            seen = set()
            while st:
                x = st.pop()
                if x in seen:
                    continue
                seen.add(x)
                if x in L.insert_bbs and x != db or (x == db and db in L.insert_bbs):
                    continue
                for y in b.succs(x):
                    if y in stops and y not in L.insert_bbs:
                        found_bad = y
                    else:
                        st.append(y)
            if found_bad is not None:
                chk.violation("C07.exit", tag + " update-without-store",
                              "best result is updated without being re-stored in the cache before the next iteration / exit",
                              cx.site(b, db))
            else:
                chk.ok("C07.exit", tag + " def@bb%d stored" % db)
        # ---- exit: every return reachable from the miss edge returns B
        miss_blocks = b.reachable_from(w.miss) - (b.reachable_from(w.hit) - b.reachable_from(w.miss))
        rets = [(d[0], d) for d in b.defs.get(0, []) if d[0] in b.reachable_from(w.miss) and d[0] not in (b.reachable_from(w.hit) - {x for x in b.reachable_from(w.miss)})]
        bad = []
        for (rb, d) in b.defs.get(0, []) and [(d[0], d) for d in b.defs.get(0, [])]:
            if rb not in b.reachable_from(w.miss) or b.dominates(w.hit, rb):
                continue
            okr = d[2] == "rv" and d[3]["k"] == "use" and d[3]["op"]["k"] in ("move", "copy") and d[3]["op"]["place"] == {"l": L.B, "p": []}
            if not okr:
                bad.append((rb, d))
        if bad:
            for (rb, d) in bad:
                e = norm(b.expr_rv(d[3]) if d[2] == "rv" else b.expr_call(d[3]))
                chk.violation("C07.exit", "%s returns %s" % (tag, short(e[1]) if e[0] == "call" else e[0]),
                              "an exit of the left-recursive wrapper returns %s instead of the best result as last stored "
                              "(a failing growth step then discards the grown seed / leaks the sentinel)" % mir.show(e),
                              cx.site(b, rb))
        else:
            chk.ok("C07.exit", tag + " returns best", {"wrapper": tag, "best_local": "_%d" % L.B})
    chk.floor("C07.progress", "leftrec wrappers", n, 2)
