"""C07 — @leftrec terminates and grows.

strict   : is_further_than is a strict comparison of absolute offsets.
seed     : a failing seed is stored under the entry key before the first body evaluation.
progress : every trip round the growth loop re-stores a best result that is either
           strictly further than the previous one, or the first success.
exit     : every exit returns the best result as last stored.
"""
from .. import mir
from ..mir import short, last, strip, walk, norm, is_call
from . import memo

LEVEL = "other"


def is_ok_state_of(e, base):
    """e == ((base as Ok).0).state"""
    return (e[0] == "field" and e[2] == "state" and e[1][0] == "field" and e[1][2] == "0"
            and e[1][1][0] == "downcast" and e[1][1][2] == "Ok" and e[1][1][1] == base)


def check_strict(cx, chk):
    rt = cx.runtime
    ks = [p for p in rt.fns if mir.strip_generics(p).endswith("ParseState::is_further_than")]
    if not ks:
        chk.anchor_missing("C07.strict", "ParseState::is_further_than")
        return
    b = cx.body(rt, ks[0])
    ds = b.defs.get(0, [])
    e = norm(b.expr_rv(ds[0][3])) if len(ds) == 1 and ds[0][2] == "rv" else None
    me, ot = ("field", ("param", 1), "start_index"), ("field", ("param", 2), "start_index")
    # decide over the three orderings of two integers
    verdict = None
    if e and e[0] == "binop" and {e[2], e[3]} == {me, ot}:
        op = e[1]
        a_is_me = e[2] == me
        table = {}
        for name, (x, y) in {"lt": (0, 1), "eq": (1, 1), "gt": (2, 1)}.items():
            l, r = (x, y) if a_is_me else (y, x)
            table[name] = {"Gt": l > r, "Ge": l >= r, "Lt": l < r, "Le": l <= r, "Eq": l == r, "Ne": l != r}.get(op)
        verdict = table
    want = {"lt": False, "eq": False, "gt": True}
    if verdict == want:
        chk.ok("C07.strict", "is_further_than", {"expr": mir.show(e), "orderings": verdict})
    else:
        chk.violation("C07.strict", "is_further_than", "progress test is not `self.start_index > other.start_index` "
                      "(evaluated over the 3 orderings: %s): a non-strict test lets the growth loop spin forever" % verdict,
                      cx.site(b), {"expr": mir.show(e) if e else None})


def run(cx, chk):
    chk.explanation = (
        "Loop rule over every generated @leftrec wrapper: a failing seed is inserted under the entry key before the loop; "
        "every cyclic path through the loop passes an insert of a newly assigned best result that is guarded either by "
        "is_further_than(new.state, best.state) = true or by (new Ok, best Err); every exit returns the best-result "
        "variable and every assignment to it is followed by an insert. With is_further_than decided strict over the 3 "
        "orderings of two offsets, the loop runs at most input-length+2 times provided the body terminates.")
    chk.assumptions = ["termination of the rule body itself (C01's well-formedness assumption)"]
    check_strict(cx, chk)
    from . import wrapsem
    n = 0
    names = {"seed": "C07.seed", "progress": "C07.progress", "exit": "C07.exit", "shape": "C07.shape"}
    for w in wrapsem.cached(cx):
        if not w.ok:
            if w.path is not None and any("LeftRecursionSentinel" in str(st.get("rv", {}).get("variant")) for i in w.body.reach for st in w.body.blocks[i]["stmts"] if st["k"] == "assign"):
                for (rid, detail, msg, site) in w.viol:
                    chk.violation("C07.shape", ("%s %s" % (w.tag, detail)).strip(), msg, site)
            continue
        if not w.leftrec:
            continue
        n += 1
        mine = [v for v in w.viol if v[0] in names]
        for (rid, detail, msg, site) in mine:
            chk.violation(names[rid], ("%s %s" % (w.tag, detail)).strip(), msg, site)
        for rid in ("seed", "progress", "exit"):
            if not any(v[0] == rid for v in mine):
                chk.ok(names[rid], w.tag, {"wrapper": w.tag, "paths": len(w.leaves)})
    chk.floor("C07.progress", "leftrec wrappers", n, 2)
    # every rule the grammar marks @leftrec has the growing wrapper - whatever other directives it carries and in whatever order
    by = {(w.inst.name, w.rule): w for w in wrapsem.cached(cx)}
    k = 0
    for inst in cx.instances():
        g = cx.grammar_of(inst)
        if g is None:
            continue
        for r in g.rules:
            if r.kind != "rule" or "leftrec" not in r.flags:
                continue
            k += 1
            w = by.get((inst.name, r.name))
            tag = "%s/%s" % (inst.name, r.name)
            if w is None or not w.leftrec:
                chk.violation("C07.shape", "%s not-growing" % tag,
                              "rule %s is marked @leftrec%s but its wrapper is %s: its recursive reference re-enters the rule at the same position without a "
                              "seed - unbounded recursion" % (r.name, " (with " + ", ".join("@" + f for f in sorted(r.flags - {"leftrec"})) + ")" if r.flags - {"leftrec"} else "",
                                                            "a plain @memoize wrapper" if w is not None else "not cached at all"),
                              cx.site(w.body) if w is not None and getattr(w, "body", None) is not None else None)
            else:
                chk.ok("C07.shape", tag + " growing", {"rule": tag, "directives": sorted(r.flags)})
    chk.floor("C07.shape", "rules marked @leftrec in the analysed grammars", k, 10)
    check_skew(cx, chk)


def check_skew(cx, chk):
    """The growing wrapper keys its seed by the rule's *entry* state, and a skipping rule skips whitespace before every rule
    reference - the left-recursive one included.  With whitespace in front of the rule, the recursive reference therefore runs
    from the state *behind* the whitespace: another cache key, no seed, and the rule is evaluated there as a fresh left-recursive
    rule; back at the entry key nothing grows.  Decided per analysed grammar: a @leftrec rule without @no_skip_ws one of whose
    alternatives starts with a reference to itself has this shape (one finding for the generator, the rules are listed)."""
    hits = []
    n = 0
    for inst in cx.instances():
        g = cx.grammar_of(inst)
        if g is None:
            continue
        for r in g.rules:
            if r.kind != "rule" or "leftrec" not in r.flags or r.body is None:
                continue
            n += 1
            if "no_skip_ws" in r.flags:
                continue
            alts = r.body[1] if r.body[0] == "choice" else [r.body]
            for a in alts:
                first = a
                while isinstance(first, tuple) and first and first[0] in ("seq", "choice", "group") and first[1]:
                    first = first[1][0] if isinstance(first[1], list) else first[1]
                if isinstance(first, tuple) and first and first[0] == "field" and first[3] == r.name:
                    hits.append("%s/%s" % (inst.name, r.name))
                    break
    if hits:
        chk.violation("C07.key", "leftrec reference behind a whitespace skip",
                      "%d of %d analysed @leftrec rules skip whitespace and start an alternative with a reference to themselves (%s, ...): the wrapper "
                      "stores its seed under the key of the entry state, the recursive reference is evaluated from the state behind the skipped "
                      "whitespace - with leading whitespace (`Expression::parse(\" 1+2\")`) the rule does not grow at its entry and returns only the "
                      "base alternative" % (len(hits), n, ", ".join(hits[:3])))
    else:
        chk.ok("C07.key", "leftrec references start from the entry state", {"leftrec_rules": n})
