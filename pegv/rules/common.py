"""Helpers shared by several properties' rules."""
import re

from .. import mir
from ..mir import short, last, strip, walk, norm, is_call

INTERIOR = re.compile(
    r"\b(UnsafeCell|Cell|RefCell|OnceCell|LazyCell|SyncUnsafeCell|Atomic\w+|Mutex|RwLock|OnceLock|LazyLock|"
    r"Condvar|Once|Sender|Receiver|SyncSender|Rc|Arc|Weak)\b")


def field_freeze_status(adt, field):
    """'freeze' | 'generic' | 'interior'"""
    if field["freeze"] is True:
        return "freeze"
    ty = field["ty"]
    if INTERIOR.search(ty):
        return "interior"
    gens = [g for g in adt.get("generics", []) if not g.startswith("'")]
    for g in gens:
        if re.search(r"\b%s\b" % re.escape(g), ty):
            return "generic"
    return "interior"


def adt_by_suffix(crate, suffix):
    hits = [a for p, a in crate.adts.items() if p.endswith("::" + suffix) or p == suffix]
    return hits


def trait_methods(crate, trait_last):
    """Declarations (with or without default bodies) of a trait's methods in `crate`."""
    out = []
    for p, f in crate.fns.items():
        td = f.get("trait_decl")
        if td and last(td) == trait_last:
            out.append(f)
    return out


def impl_methods(crate, trait_last):
    out = []
    for p, f in crate.fns.items():
        it = f.get("impl_trait")
        if it and last(it) == trait_last:
            out.append(f)
    return out


def is_tracer_call(f):
    """callee json → name if it is a ParseTracer method."""
    if f.get("indirect"):
        return None
    p = f["path"]
    if "ParseTracer" in p or (f.get("resolved") and "ParseTracer" in f["resolved"]):
        return last(p)
    return None


def operands_of_block(block):
    """Yield every operand json in the block (statements and terminator)."""
    for s in block["stmts"]:
        if s["k"] == "assign":
            rv = s["rv"]
            for key in ("op", "a", "b"):
                if key in rv and isinstance(rv[key], dict):
                    yield rv[key]
            for o in rv.get("ops", []):
                yield o
            if "place" in rv:
                yield {"k": "place", "place": rv["place"]}
    t = block["term"]
    if t["k"] == "call":
        for a in t["args"]:
            yield a
        if t["func"].get("indirect"):
            yield t["func"]["op"]
    elif t["k"] == "switch":
        yield t["discr"]
    elif t["k"] == "assert":
        yield t["cond"]
    elif t["k"] == "drop":
        yield {"k": "place", "place": t["place"]}


def uses_local(op, l):
    pl = op.get("place")
    if pl is None:
        return False
    if pl["l"] == l:
        return True
    for pe in pl["p"]:
        if pe["k"] == "index" and pe["local"] == l:
            return True
    return False


def closure_creation(cx, crate, body):
    """(parent_body, [captured operand exprs]) for closure `body`, or (None, None)."""
    par = body.fn.get("parent")
    if not par or par not in crate.fns:
        return None, None
    pb = cx.body(crate, par)
    if pb is None:
        return None, None
    for bi in sorted(pb.reach):
        for st in pb.blocks[bi]["stmts"]:
            if st["k"] == "assign" and st["rv"]["k"] == "agg" and st["rv"].get("agg") == "closure" and st["rv"]["def"] == body.path:
                return pb, [norm(pb.expr_op(o)) for o in st["rv"]["ops"]]
    return pb, None


def capture_root(cx, crate, body, e, depth=0):
    """Resolve an upvar expression up the closure chain: returns (body, expr) where expr
    is expressed in `body`'s own terms (a non-closure fn or an unresolvable closure)."""
    e = norm(e)
    if e[0] == "upvar" and body.is_closure and depth < 8:
        pb, caps = closure_creation(cx, crate, body)
        if pb is None or caps is None or e[1] >= len(caps):
            return body, e
        return capture_root(cx, crate, pb, caps[e[1]], depth + 1)
    return body, e


def closure_uses(cx, crate, body):
    """Where is closure `body` consumed in its parent: list of (parent_body, bb, call term, arg index)."""
    pb, caps = closure_creation(cx, crate, body)
    out = []
    if pb is None:
        return out
    for i, t in pb.calls():
        for ai, a in enumerate(t["args"]):
            e = norm(pb.expr_op(a))
            if e[0] == "closure" and e[1] == body.path:
                out.append((pb, i, t, ai))
    return out


def resolve_state(cx, crate, body, e, depth=0):
    """Resolve a parse-state expression to its origin: clones are transparent (clone(S) == S for the
    cursor), upvars are followed up the closure chain.  Returns (body, expr)."""
    e = norm(e)
    for _ in range(12):
        if is_call(e, "clone") and len(e[2]) == 1:
            e = e[2][0]
            continue
        if e[0] == "upvar" and body.is_closure:
            nb, ne = capture_root(cx, crate, body, e)
            if nb is body and ne == e:
                break
            body, e = nb, ne
            continue
        break
    return body, e
