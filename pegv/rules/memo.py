"""Shared analysis of cached (`@memoize` / `@leftrec`) rule wrappers.

Anchors by role: a cached rule is a field of the instance's `ParseCache`
struct; its wrapper is the function of the instance that calls `get` on that
field; the key function is whatever computes the second argument of that call.
"""
from .. import mir
from ..mir import short, last, strip, walk, norm


def cache_fields(inst):
    adt = inst.crate.adts.get(inst.prefix + "::ParseCache")
    out = []
    if adt:
        for f in adt["variants"][0]["fields"]:
            if "PhantomData" in f["ty"]:
                continue
            out.append(f["name"])
    return out


def mentions_cache_field(e, field=None):
    """Does expression e denote (a borrow of) `<global>.cache.<field>`?"""
    for s in walk(e):
        if s[0] == "field" and (field is None or s[2] == field):
            b = s[1]
            if isinstance(b, tuple) and b[0] == "field" and b[2] == "cache":
                return s[2]
    return None


def mentions_cache(e):
    """Does e denote the cache (field) itself - not merely a value obtained from it by `get`?"""
    if not isinstance(e, tuple):
        return False
    if e[0] == "call" and last(e[1]) in ("get", "clone"):
        return False
    if e[0] == "field" and e[2] == "cache":
        return True
    for a in e[1:]:
        if isinstance(a, mir.E):
            if mentions_cache(a):
                return True
        elif isinstance(a, (list, tuple)):
            for b in a:
                if isinstance(b, mir.E) and mentions_cache(b):
                    return True
                if isinstance(b, tuple) and len(b) == 2 and isinstance(b[1], mir.E) and mentions_cache(b[1]):
                    return True
    return False


class Flat:
    """A body with its immediately-invoked closures flattened: list of
    (outer_bb, body, bb, term) for every call, attributed to the block of the
    outermost body that (transitively) invokes the closure."""

    def __init__(self, cx, crate, body):
        self.items = []
        self.inner = []   # nested immediately invoked closure bodies
        self._walk(cx, crate, body, None, 0)

    def _walk(self, cx, crate, body, outer_bb, depth):
        for i, t in body.calls():
            obb = i if outer_bb is None else outer_bb
            f = t["func"]
            self.items.append((obb, body, i, t))
            if f.get("indirect") or depth > 6:
                continue
            if f.get("closure") and last(f["path"]) in ("call_once", "call_mut", "call"):
                # immediately invoked iff the closure value is built in this body
                a0 = body.expr_op(t["args"][0])
                if strip(a0)[0] == "closure" and f["resolved"] in crate.fns:
                    ib = cx.body(crate, f["resolved"])
                    if ib is not None:
                        self.inner.append((obb, ib))
                        self._walk(cx, crate, ib, obb, depth + 1)


class CachedWrapper:
    def __init__(self, cx, inst, rule, field):
        self.cx = cx
        self.inst = inst
        self.rule = rule
        self.field = field
        self.ok = False
        self.problems = []
        self.parent_path = inst.rule_fns.get(rule)
        if not self.parent_path:
            self.problems.append("no parse_%s function" % rule)
            return
        self.parent = cx.body(inst.crate, self.parent_path)
        # the wrapper body = the (closure) body that calls `get` on the field
        cands = [self.parent_path] + sorted(inst.closures_of(self.parent_path))
        self.body = None
        for p in cands:
            b = cx.body(inst.crate, p)
            if b is None:
                continue
            for i, t in b.calls():
                if self._is_cache_call(b, t, ("get",)):
                    self.body = b
                    break
            if self.body:
                break
        if self.body is None:
            self.problems.append("no `get` on cache field %s in parse_%s" % (field, rule))
            return
        b = self.body
        self.gets = [(i, t) for i, t in b.calls() if self._is_cache_call(b, t, ("get",))]
        self.inserts = [(i, t) for i, t in b.calls() if self._is_cache_call(b, t, ("insert",))]
        self.other_cache_calls = [
            (i, t) for i, t in b.calls()
            if any(mentions_cache(b.expr_op(a)) for a in t["args"])
            and not self._is_cache_call(b, t, ("get", "insert"))]
        if len(self.gets) != 1:
            self.problems.append("expected exactly one cache lookup, found %d" % len(self.gets))
            return
        gi, gt = self.gets[0]
        self.get_bb = gi
        self.key = strip(b.expr_op(gt["args"][1]))
        # the switch on the lookup result
        nxt = gt["target"]
        sw = b.blocks[nxt]["term"]
        if sw["k"] != "switch":
            self.problems.append("lookup result is not branched on directly")
            return
        d, _ = b.switch_info(nxt)
        if not (d[0] == "discr" and strip(d[1]) == strip(b.expr_local(gt["dest"]["l"]))) and \
                not (d[0] == "discr"):
            self.problems.append("switch after lookup is not on the lookup result")
            return
        self.switch_bb = nxt
        hit = [bb for (v, bb) in sw["targets"] if v == 1]
        miss = [bb for (v, bb) in sw["targets"] if v == 0] + [sw["otherwise"]]
        miss = [m for m in miss if m in b.reach and b.blocks[m]["term"]["k"] != "unreachable"]
        if len(hit) != 1 or len(set(miss)) != 1:
            self.problems.append("cannot identify hit/miss edges of the lookup")
            return
        self.hit = hit[0]
        self.miss = miss[0]
        self.flat = Flat(cx, inst.crate, b)
        self.leftrec = b.has_loop() or any(
            s[0] == "agg" and s[2] == "LeftRecursionSentinel"
            for i in b.reach for st in b.blocks[i]["stmts"] if st["k"] == "assign"
            for s in walk(b.expr_rv(st["rv"])))
        self.ok = True

    def _is_cache_call(self, b, t, names):
        f = t["func"]
        if f.get("indirect"):
            return False
        if last(f["path"]) not in names:
            return False
        if not t["args"]:
            return False
        return mentions_cache_field(b.expr_op(t["args"][0]), self.field) is not None

    def key_is_entry_state(self):
        """Key = <keyfn>(&entry state) where entry state = parameter 1 of parse_X
        (captured as an upvar of the wrapper closure)."""
        k = self.key
        if k[0] != "call" or len(k[2]) != 1:
            return False, "key is not a call on the state: %s" % mir.show(k)
        arg = strip(k[2][0])
        if self.body.is_closure:
            if arg[0] != "upvar":
                return False, "key argument is not the captured entry state: %s" % mir.show(k)
            # find closure creation in parent
            cap = self._capture_of(arg[1])
            if cap is None:
                return False, "cannot resolve captured variable of %s" % mir.show(k)
            cap = strip(cap)
            if cap != ("param", 1):
                return False, "key computed from %s, not from the entry state" % mir.show(cap)
        else:
            if arg != ("param", 1):
                return False, "key computed from %s, not from the entry state" % mir.show(arg)
        return True, short(k[1])

    def _capture_of(self, idx):
        """Operand captured as upvar `idx` of self.body, resolved up the closure chain to the rule fn."""
        body = self.body
        i = idx
        for _ in range(6):
            par_path = body.fn.get("parent")
            if par_path is None:
                return None
            pb = self.cx.body(self.inst.crate, par_path)
            if pb is None:
                return None
            found = None
            for bi in pb.reach:
                for st in pb.blocks[bi]["stmts"]:
                    if st["k"] == "assign" and st["rv"]["k"] == "agg" and st["rv"].get("agg") == "closure" \
                            and st["rv"]["def"] == body.path:
                        found = pb.expr_op(st["rv"]["ops"][i])
            if found is None:
                return None
            s = strip(found)
            if s[0] == "upvar" and pb.is_closure:
                body = pb
                i = s[1]
                continue
            return found
        return None

    def state_capture(self, e):
        """Resolve an expression to ('param',1) if it denotes the rule's entry state."""
        s = strip(e)
        if s == ("param", 1) and not self.body.is_closure:
            return True
        if s[0] == "upvar" and self.body.is_closure:
            cap = self._capture_of(s[1])
            return cap is not None and strip(cap) == ("param", 1)
        return False


def cached_wrappers(cx):
    out = []
    for inst in cx.instances():
        for field in cache_fields(inst):
            rule = field[2:] if field.startswith("c_") else field
            out.append(CachedWrapper(cx, inst, rule, field))
    return out


def describe_path(body, path):
    return " -> ".join("bb%d(%s:%d)" % (i, body.blocks[i]["span"]["file"].split("/")[-1], body.blocks[i]["span"]["line"]) for i in path)


def _two_variant(b, sw):
    """The switch in block sw reads the discriminant of a place whose type is Option / Result."""
    d = b.blocks[sw]["term"]["discr"]
    if d["k"] not in ("copy", "move") or d["place"]["p"]:
        return False
    sd = b.single_def(d["place"]["l"])
    if not sd or sd[2] != "rv" or sd[3]["k"] != "discr":
        return False
    pl = sd[3]["place"]
    ty = None
    for pe in reversed(pl["p"]):
        if pe["k"] == "field":
            ty = pe.get("ty")
            break
        if pe["k"] != "deref":
            break
    if ty is None and all(pe["k"] == "deref" for pe in pl["p"]):
        ty = b.ty(pl["l"])
    ty = (ty or "").lstrip("&").replace("mut ", "")
    return ty.startswith("std::result::Result<") or ty.startswith("std::option::Option<")


class LeftrecLoop:
    """Structure of the seed-and-grow loop of a @leftrec wrapper (role-based):
    B = the local whose clones are inserted (best result), head = loop header,
    N = the value of the body evaluation matched against B."""

    def __init__(self, w):
        self.w = w
        b = self.b = w.body
        self.problems = []
        self.B = None
        bl = set()
        for (i, t) in w.inserts:
            vop = t["args"][2]
            src = None
            if vop["k"] in ("move", "copy"):
                cl = b.single_def(vop["place"]["l"])
                if cl and cl[2] == "call" and last(cl[3]["func"]["path"]) == "clone":
                    a0 = cl[3]["args"][0]
                    rl = a0["place"]["l"] if a0["k"] in ("move", "copy") else None
                    rd = b.single_def(rl) if rl is not None else None
                    if rd and rd[2] == "rv" and rd[3]["k"] == "ref" and not rd[3]["place"]["p"]:
                        src = rd[3]["place"]["l"]
            bl.add(src)
        if len(bl) != 1 or None in bl:
            self.problems.append("inserted values are not clones of one best-result variable")
            return
        self.B = bl.pop()
        heads = sorted({j for (_, j) in b.back_edges()})
        if len(heads) != 1:
            self.problems.append("expected exactly one loop, found %d" % len(heads))
            return
        self.head = heads[0]
        self.loop = b.loop_blocks(self.head)
        self.back_srcs = [i for (i, j) in b.back_edges() if j == self.head]
        self.insert_bbs = {i for (i, _) in w.inserts}
        self.B_defs = [(d[0], d) for d in b.defs.get(self.B, [])]
        after = b.reachable_from(self.head)
        self.seed_defs = [x for x in self.B_defs if x[0] not in after]
        self.loop_defs = [x for x in self.B_defs if x[0] in after]

    def path_edges(self, path):
        """Atoms (norm expr, value) of the switch edges taken along an explicit block path."""
        b = self.b
        out = []
        for k in range(len(path) - 1):
            x, y = path[k], path[k + 1]
            t = b.blocks[x]["term"]
            if t["k"] != "switch" or b.is_noise_switch(x):
                continue
            labs = [lab[1] for (j, lab) in b.succ[x] if j == y]
            if len(labs) != 1:
                continue
            e, ty = b.switch_info(x)
            val = labs[0]
            if ty == "bool":
                val = mir.truth(val if val != "otherwise" else ("not", tuple(v for v, _ in t["targets"])))
            ne = norm(e)
            if val == "otherwise" and ne[0] == "discr" and len(t["targets"]) == 1 and t["targets"][0][0] in (0, 1):
                # `if let` / guard-arm form of a two-variant match: the other variant
                root = ne[1]
                while root[0] in ("field", "downcast"):
                    root = root[1]
                tys = b.ty(root[1]) if root[0] == "local" else ""
                if ne[1][0] == "local" and ("Result<" in tys or "Option<" in tys) or _two_variant(b, x):
                    val = 1 - t["targets"][0][0]
            out.append((ne, val, x))
        return out

    def iter_paths(self, start, stops):
        """Acyclic paths from start to any block in stops (stops are included as last element)."""
        b = self.b
        out = []
        st = [(start, [start])]
        while st:
            x, acc = st.pop()
            for y in b.succs(x):
                if y in stops:
                    out.append(acc + [y])
                elif y not in acc and len(out) < 5000:
                    st.append((y, acc + [y]))
        return out
