"""C13 — `>Rule` behaves exactly like the rule's body written in place.

deleg : every Codegen method of IncludeRule returns the result of the SAME method on the included
        rule's `definition`, called with the caller's own (rule_fields, grammar, settings, ..);
        the lookup uses nothing of the found rule but `definition` (no directives); Group
        (parentheses) delegates the same way, so `>R` and `(body of R)` take the same path from
        there on (sibling agreement).
thread: the includer's settings reach the included body (C08.thread, shared).
twin  : (lifter, thorough) include-vs-inlined grammar pairs lift to identical terms and types.
"""
from .. import mir
from ..mir import short, last, strip, walk, norm, is_call
from . import common, c08, c16

LEVEL = "translation_validation"


def impl_methods_of(cg, trait_last, self_last):
    out = {}
    for p, f in cg.fns.items():
        q = mir.qself(p)
        if q and last(q[1]) == trait_last and last(q[0]) == self_last and "mir" in f:
            out[q[2]] = p
    return out


def returned(b):
    out = []
    for d in b.defs.get(0, []):
        out.append((d[0], norm(b.expr_call(d[3])) if d[2] == "call" else norm(b.expr_rv(d[3]))))
    return out


def check_delegation(cx, chk, cg, self_last, target_pred, label):
    ms = impl_methods_of(cg, "Codegen", self_last)
    if not ms:
        chk.anchor_missing("C13.deleg", "impl Codegen for %s" % self_last)
        return 0
    n = 0
    for m, p in sorted(ms.items()):
        b = cx.body(cg, p)
        n += 1
        tag = "%s::%s" % (self_last, m)
        probs = []
        rets = returned(b)
        delegs = 0
        for (bb, e) in rets:
            if is_call(e, "from_residual"):
                continue       # `?` on the lookup
            if e[0] == "call" and last(e[1]) == m and "Codegen" in e[1]:
                args = e[2]
                if not target_pred(args[0]):
                    probs.append("delegates to %s, not to the included/grouped body" % mir.show(args[0])[:120])
                rest = list(args[1:])
                want = [("param", k) for k in range(2, 2 + len(rest))]
                if rest != want:
                    probs.append("does not pass its own arguments on unchanged: %s" % [mir.show(a)[:60] for a in rest])
                delegs += 1
            else:
                probs.append("returns %s instead of the result of the same method on the body" % mir.show(e)[:160])
        if delegs == 0:
            probs.append("no delegation found")
        if probs:
            for pr in sorted(set(probs)):
                chk.violation("C13.deleg", "%s %s" % (tag, pr.split(":")[0][:60]),
                              "%s.%s: %s - an include would no longer behave like the parenthesised body" % (self_last, m, pr), cx.site(b))
        else:
            chk.ok("C13.deleg", tag, {"method": tag, "delegates_to": "same method on %s with own arguments" % label})
    return n


def run(cx, chk):
    chk.explanation = (
        "Generator-level identity flows, valid for all grammars: every Codegen method implemented for IncludeRule returns the result "
        "of the same method on the included rule's `definition` with the caller's own arguments (rule_fields, grammar, settings, "
        "clone_state) and `?`-propagates only the lookup error; the lookup reads only `name` (to find) and `definition` (to return) "
        "of the rule - never its directives; Group delegates identically to its body. Together with C08.thread (settings handed on "
        "unchanged) an include and a parenthesised copy of the body are compiled by the same code with the same inputs.")
    chk.assumptions = ["the lifter-based twin comparison (include_a vs include_b corpus grammars) is part of the thorough tier"]
    cg = cx.codegen

    def is_included_def(e):
        # (Try::branch(included_rule_definition(self, grammar)) as Continue).0
        for s_ in walk(e):
            if is_call(s_, "included_rule_definition") and len(s_[2]) == 2 and s_[2][0] == ("param", 1):
                return e[0] == "field" and e[2] == "0" and e[1][0] == "downcast" and e[1][2] == "Continue"
        return False
    n1 = check_delegation(cx, chk, cg, "IncludeRule", is_included_def, "the included rule's definition")
    n2 = check_delegation(cx, chk, cg, "Group", lambda e: e == ("field", ("param", 1), "body"), "the group's body")
    chk.floor("C13.deleg", "IncludeRule Codegen methods", n1, 2)
    chk.floor("C13.deleg", "Group Codegen methods", n2, 3)
    # the lookup
    ps = [p for p in cg.fns if last(p) == "included_rule_definition" and "mir" in cg.fns[p]]
    if not ps:
        chk.anchor_missing("C13.deleg", "included_rule_definition")
    else:
        b = cx.body(cg, ps[0])
        bodies = [b] + [cx.body(cg, q) for q in cg.fns if q.startswith(ps[0] + "::{closure") and "mir" in cg.fns[q]]
        fields_read = set()
        for ob in bodies:
            for i in ob.reach:
                for op in common.operands_of_block(ob.blocks[i]):
                    pl = op.get("place")
                    if pl:
                        for pe in pl["p"]:
                            if pe["k"] == "field" and (pe.get("owner") or "").endswith("::Rule"):
                                fields_read.add(pe["name"])
                for st in ob.blocks[i]["stmts"]:
                    if st["k"] == "assign" and "place" in st["rv"]:
                        for pe in st["rv"]["place"]["p"]:
                            if pe["k"] == "field" and (pe.get("owner") or "").endswith("::Rule"):
                                fields_read.add(pe["name"])
        rets = returned(b)
        okret = any(e[0] == "agg" and e[2] == "Ok" and e[3][0][1][0] == "field" and e[3][0][1][2] == "definition" for (_, e) in rets)
        if fields_read <= {"name", "definition"} and okret:
            chk.ok("C13.deleg", "lookup", {"rule_fields_read": sorted(fields_read), "returns": "&rule.definition"})
        else:
            chk.violation("C13.deleg", "lookup reads %s" % "+".join(sorted(fields_read - {"name", "definition"}) or ["?"]),
                          "the include lookup reads %s of the included rule / does not return its definition: directives of the included "
                          "rule must have no effect at the include site" % sorted(fields_read), cx.site(b))
    # settings threading (shared rule)
    rule_gen = c08.check_flag(cx, chk)
    c08.check_thread(cx, chk, rule_gen)
    for old, new in (("C08.thread", "C13.thread"), ("C08.flag", "C13.flag")):
        if old in chk.rules:
            chk.rules[new] = chk.rules.pop(old)
    # twins: the grammar using `>Rule` and the one with the parenthesised body written in place
    from . import lift_rules
    incl = ["ISeq", "IChoice", "IChoice1", "IOpt", "IOpt1", "IClos", "IClos1", "INested", "INoField", "ITwice", "INoSkip",
            "ISkipIncludesTight", "ITightIncludesSkip", "IPos", "IMemo", "ILook", "Nested"]
    lift_rules.check_twin(cx, chk, "C13.twin", "corpus:include_a", "corpus:include_b", "include vs body-in-place", rules=incl, floor=len(incl))
