"""quote!-template facts over the MIR of peginator_codegen (G-level).

In MIR (`-Zmir-opt-level=0`) a `quote!` expansion is an explicit call
sequence on a `TokenStream` local: `push_ident(&mut S, const "x")`,
`push_<punct>(&mut S)`, `push_group(&mut S, Delimiter, inner)`,
`ToTokens::to_tokens(&value, &mut S)` for `#value`.  This module recovers
those events with their provenance.
"""
from .. import mir
from ..mir import short, last, strip, walk, norm, is_call

PUNCT = {
    "push_dot": ".", "push_comma": ",", "push_and": "&", "push_star": "*", "push_or": "|", "push_dot2": "..",
    "push_colon": ":", "push_colon2": "::", "push_semi": ";", "push_eq": "=", "push_question": "?",
    "push_rarrow": "->", "push_fat_arrow": "=>", "push_lt": "<", "push_gt": ">", "push_bang": "!",
    "push_pound": "#", "push_add": "+", "push_add_eq": "+=", "push_eq_eq": "==", "push_ne": "!=",
    "push_sub": "-", "push_and_and": "&&", "push_or_or": "||", "push_underscore": "_", "push_at": "@",
    "push_dot3": "...", "push_dot_dot_eq": "..=", "push_le": "<=", "push_ge": ">=", "push_div": "/",
    "push_rem": "%", "push_caret": "^", "push_shl": "<<", "push_shr": ">>", "push_sub_eq": "-=",
    "push_lifetime": "'",
}


def str_consts(b):
    """(bb, local, value) for every string constant assigned in body b."""
    for i in sorted(b.reach):
        blk = b.blocks[i]
        for st in blk["stmts"]:
            if st["k"] != "assign":
                continue
            rv = st["rv"]
            ops = [rv.get(k_) for k_ in ("op", "a", "b")] + list(rv.get("ops", ()))
            for o in ops:
                if isinstance(o, dict) and o.get("k") == "const" and "str" in o:
                    yield i, st["place"]["l"], o["str"]
        t = blk["term"]
        if t["k"] == "call":
            for o in t["args"]:
                if o.get("k") == "const" and "str" in o:
                    yield i, t["dest"]["l"], o["str"]


def ref_target(b, op, depth=0):
    """The local a reference operand ultimately points to: `&mut *(&mut _9)` -> ('local', 9)."""
    if op.get("k") not in ("move", "copy") or depth > 6:
        return norm(b.expr_op(op))
    pl = op["place"]
    l = pl["l"]
    if pl["p"]:
        return norm(b.expr_op(op))
    ds = b.defs.get(l, [])
    if len(ds) == 1 and ds[0][2] == "rv" and ds[0][3]["k"] == "ref":
        rp = ds[0][3]["place"]
        if not rp["p"]:
            return ("local", rp["l"]) if rp["l"] > b.arg_count else norm(b.expr_local(rp["l"]))
        if len(rp["p"]) == 1 and rp["p"][0]["k"] == "deref":
            return ref_target(b, {"k": "copy", "place": {"l": rp["l"], "p": []}}, depth + 1)
    return norm(b.expr_op(op))


def events(cx, crate, b):
    """Token events of body b: dicts {bb, kind, text/expr, stream(local)}."""
    out = []
    for i, t in b.calls():
        f = t["func"]
        if f.get("indirect"):
            continue
        l = last(f["path"])
        if l == "to_tokens" and "ToTokens" in f["path"]:
            out.append({"bb": i, "kind": "hole", "expr": norm(b.expr_op(t["args"][0])),
                        "stream": ref_target(b, t["args"][1])})
        elif "__private" in f["path"] or "quote::" in f["path"]:
            stream = ref_target(b, t["args"][0]) if t["args"] else None
            if l in ("push_ident", "push_ident_spanned"):
                s = b.expr_op(t["args"][-1])
                s = strip(s)
                out.append({"bb": i, "kind": "ident", "text": s[2] if s[0] == "const" else None, "expr": s, "stream": stream})
            elif l in PUNCT or l.startswith("push_") and l.replace("_spanned", "") in PUNCT:
                out.append({"bb": i, "kind": "punct", "text": PUNCT.get(l.replace("_spanned", ""), l), "stream": stream})
            elif l in ("push_group", "push_group_spanned"):
                d = norm(b.expr_op(t["args"][-2]))
                inner = norm(b.expr_op(t["args"][-1]))
                out.append({"bb": i, "kind": "group", "text": d[2] if d[0] == "agg" else "?", "inner": inner, "stream": stream})
            elif l == "parse" or l == "parse_spanned":
                out.append({"bb": i, "kind": "parse", "expr": norm(b.expr_op(t["args"][-1])), "stream": stream})
            elif l == "mk_ident":
                out.append({"bb": i, "kind": "mk_ident", "expr": norm(b.expr_op(t["args"][0])), "stream": None})
            elif l.startswith("push_"):
                out.append({"bb": i, "kind": "punct", "text": l, "stream": stream})
    return out


MATCHERS = ("parse_character_literal", "parse_string_literal", "parse_character_literal_insensitive", "parse_string_literal_insensitive",
            "parse_character_range", "parse_end_of_input", "parse_char")


def matcher_selections(cx, cg, path):
    """[(leaf, matcher name, [emitted literal values], event)] read off the semantic summary of generator function `path`: every
    event of a returning leaf that carries the name of a runtime terminal matcher as a string constant, with the values quoted
    (`ToTokens::to_tokens(V, ..)`) inside the same event."""
    from .. import sem
    S = cx.__dict__.setdefault("_gen_sem", None)
    if S is None:
        S = cx.__dict__["_gen_sem"] = sem.Sem(cx, cg)
    sm = S.summarize(path)
    out = []
    for leaf in sm.leaves:
        if leaf.kind != "return":
            continue
        for ev in leaf.trace:
            t = ev[0]
            if t[0] != "call":
                continue
            names = [a[2] for a in t[2] if isinstance(a, tuple) and a and a[0] == "const" and a[1] == "str" and a[2] in MATCHERS]
            if not names:
                continue
            vals = []
            for s_ in walk(t):
                if s_ is not t and is_call(s_, "to_tokens") and s_[2]:
                    vals.append(s_[2][0])
            out.append((leaf, names[0], vals, ev))
    return sm, out


def derives_from(v, X, allowed):
    """v is X seen through calls named in `allowed` only (payload projections are transparent)."""
    while True:
        if v == X:
            return True
        if v[0] in ("field", "downcast"):
            v = v[1]
            continue
        if v[0] == "call" and last(v[1]) in allowed and v[2]:
            v = v[2][0]
            continue
        if v[0] == "post" and v[1][0] == "call" and last(v[1][1]) in ("next",):
            # the iterator after a next(): still the same character source
            v = v[1][2][0]
            continue
        return False


def check_c04_ascii(cx, chk, insens_names=("parse_character_literal_insensitive", "parse_string_literal_insensitive")):
    """Every path of the generator that selects a case-insensitive matcher has tested the literal with is_ascii() and
    emits only (a character of) its to_ascii_lowercase - read off the semantic summary of the selecting function."""
    from .. import sem
    cg = cx.codegen
    if cg is None:
        chk.anchor_missing("C04.ascii", "peginator_codegen crate")
        return
    sites = 0
    for p, f in sorted(cg.fns.items()):
        if "mir" not in f or "::grammar::generated::" in p or "{closure" in p:
            continue
        b = cx.body(cg, p)
        hits = [(i, l, v) for (i, l, v) in str_consts(b) if v in insens_names]
        if not hits:
            # direct emission of the identifier would bypass the guard entirely
            for ev in events(cx, cg, b):
                if ev["kind"] == "ident" and ev.get("text") in insens_names:
                    chk.violation("C04.ascii", "%s emits %s directly" % (short(p), ev["text"]),
                                  "case-insensitive matcher emitted without the ASCII guard", cx.site(b, ev["bb"]))
            continue
        try:
            sm, sels = matcher_selections(cx, cg, p)
        except sem.SemLimit as ex:
            chk.violation("C04.ascii", "%s unsummarised" % short(p), "the function selecting a case-insensitive matcher could not be summarised: %s" % ex, cx.site(b))
            continue
        found = set()
        for (leaf, name, vals, ev) in sels:
            if name not in insens_names:
                continue
            found.add(name)
            sites += 1
            tag = "%s selects %s" % (short(p), name)
            Xs = [a[2][0] for (a, v) in leaf.assumed_before(ev) if v is True and is_call(a, "is_ascii") and len(a[2]) == 1]
            if not Xs:
                chk.violation("C04.ascii", tag + " unguarded",
                              "the generator selects %s on a path on which the literal has not passed an is_ascii() test: non-ASCII "
                              "case-insensitive literals reach the byte-wise matcher (its unsafe advance can split a UTF-8 sequence)" % name,
                              cx.site(b, ev[2][1]))
                continue
            X = strip_deref_calls(Xs[-1])
            low = [s_ for v in vals for s_ in walk(v) if is_call(s_, "to_ascii_lowercase") and s_[2] and strip_deref_calls(s_[2][0]) == X]
            bad = [v for v in vals if not any(is_call(s_, "to_ascii_lowercase") and s_[2] and strip_deref_calls(s_[2][0]) == X for s_ in walk(v))]
            if bad:
                chk.violation("C04.ascii", tag + " emits-unlowered",
                              "literal emitted for %s is not the to_ascii_lowercase of the ASCII-tested literal: %s" % (name, mir.show(bad[0])[:200]),
                              cx.site(b, ev[2][1]))
            elif not vals:
                chk.violation("C04.ascii", tag + " no-literal", "no literal emission found on the path selecting %s" % name, cx.site(b, ev[2][1]))
            else:
                chk.ok("C04.ascii", tag + " @%s" % "&".join("%s=%s" % (mir.show(a)[:30], v) for a, v in leaf.assume[-2:]),
                       {"fn": short(p), "matcher": name, "guard": "is_ascii(%s)" % mir.show(X)[:80], "emitted": "to_ascii_lowercase of the same literal"})
        for (i, l, v) in hits:
            if v not in found:
                chk.violation("C04.ascii", "%s selects %s untracked" % (short(p), v),
                              "the name %s is used in %s but no returning path hands it on together with a literal: the ASCII guard cannot be related to it" % (v, short(p)),
                              cx.site(b, i))
    chk.floor("C04.ascii", "generator sites selecting a matcher that relies on Ascii(literal)", sites, 1)


def strip_deref_calls(e):
    while isinstance(e, tuple) and e and e[0] == "call" and last(e[1]) in ("deref", "as_str", "as_ref", "borrow") and len(e[2]) == 1:
        e = e[2][0]
    return e


def _after_join(b, arm, bb):
    """bb is dominated by `arm` always (caller checked); kept for clarity."""
    return False


def rpo(b):
    order = []
    seen = set()

    def dfs(x):
        st = [(x, iter(b.succs(x)))]
        seen.add(x)
        while st:
            n, it = st[-1]
            adv = False
            for y in it:
                if y not in seen:
                    seen.add(y)
                    st.append((y, iter(b.succs(y))))
                    adv = True
                    break
            if not adv:
                order.append(n)
                st.pop()
    dfs(0)
    order.reverse()
    return {x: i for i, x in enumerate(order)}


def stream_tokens(b, evs, S, order=None, depth=0):
    """Token list pushed onto TokenStream local S (straight-line quote! segments)."""
    if order is None:
        order = rpo(b)
    mine = [ev for ev in evs if ev.get("stream") == ("local", S)]
    mine.sort(key=lambda ev: order.get(ev["bb"], 1 << 30))
    out = []
    for k, ev in enumerate(mine):
        if k > 0 and not b.dominates(mine[k - 1]["bb"], ev["bb"]):
            out.append(("nonlinear",))
        if ev["kind"] == "ident":
            out.append(("ident", ev["text"]) if ev["text"] is not None else ("hole_ident", ev["expr"]))
        elif ev["kind"] == "punct":
            out.append(("punct", ev["text"]))
        elif ev["kind"] == "hole":
            out.append(("hole", ev["expr"]))
        elif ev["kind"] == "group":
            inner = ev["inner"]
            if inner[0] == "local" and depth < 12:
                out.append(("group", ev["text"], stream_tokens(b, evs, inner[1], order, depth + 1)))
            elif is_call(inner, "new"):
                out.append(("group", ev["text"], []))
            else:
                out.append(("group", ev["text"], [("hole", inner)]))
        elif ev["kind"] == "parse":
            out.append(("parsed", ev["expr"]))
    return out


def show_tokens(toks):
    out = []
    for t in toks:
        if t[0] in ("ident", "punct"):
            out.append(t[1])
        elif t[0] == "hole":
            out.append("#{%s}" % mir.show(t[1]))
        elif t[0] == "hole_ident":
            out.append("#ident{%s}" % mir.show(t[1]))
        elif t[0] == "group":
            o, c = {"Parenthesis": "()", "Brace": "{}", "Bracket": "[]", "None": "  "}.get(t[1], "??")
            out.append(o + " " + show_tokens(t[2]) + " " + c)
        else:
            out.append("<%s>" % t[0])
    return " ".join(out)


def match_tokens(toks, pattern, binds=None):
    """Match a token list against a pattern: strings are idents/puncts, ('hole', name) binds/compares
    a hole expression, ('group', delim, subpattern) recurses.  Returns binds dict or None."""
    binds = dict(binds or {})
    if len(toks) != len(pattern):
        return None
    for t, p in zip(toks, pattern):
        if isinstance(p, str):
            if t[0] not in ("ident", "punct") or t[1] != p:
                return None
        elif p[0] == "var":
            # an identifier the template may name freely, but consistently
            if t[0] != "ident":
                return None
            key = "$" + p[1]
            if key in binds and binds[key] != t[1]:
                return None
            binds[key] = t[1]
        elif p[0] == "hole":
            if t[0] != "hole":
                return None
            if p[1] in binds and binds[p[1]] != t[1]:
                return None
            binds[p[1]] = t[1]
        elif p[0] == "group":
            if t[0] != "group" or t[1] != p[1]:
                return None
            binds = match_tokens(t[2], p[2], binds)
            if binds is None:
                return None
    return binds
