"""quote!-template reconstruction over the MIR of peginator_codegen (G-level)."""


def check_c04_ascii(cx, chk):
    pass
