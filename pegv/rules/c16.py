"""C16 — deterministic, route-independent code generation.

order  : no iteration over an unordered container anywhere in the generator; no unordered
         container is stored in a generator data structure.
pure   : nothing reachable from generate_code / Grammar::from_str / generate_source_header
         reads a nondeterminism source (time, environment, random state, ids, addresses).
routes : the command-line tool, the build-script helper and the macro all emit the Display /
         token stream of CodegenGrammar::generate_code(Grammar::from_str(text), settings) unchanged.
"""
import re

from .. import mir
from ..mir import short, last, strip, walk, norm, is_call
from . import common

LEVEL = "other"

ITER_METHODS = ("iter", "iter_mut", "keys", "values", "values_mut", "into_iter", "into_keys", "into_values", "drain",
                "retain", "extract_if", "difference", "union", "intersection", "symmetric_difference")
UNORDERED = re.compile(r"\b(HashMap|HashSet|hash::map|hash::set|hash_map|hash_set)\b")
NONDET = re.compile(
    r"^(std|core)::(time::|env::(var|vars|args|var_os|vars_os|args_os|current_dir|current_exe|temp_dir)|"
    r"thread::(current|ThreadId)|process::id|collections::hash::map::RandomState|hash::random|"
    r"hash::BuildHasher|ptr::.*addr|fmt::Pointer)")
RAND = re.compile(r"^(rand|getrandom|fastrand|uuid)")


def generator_bodies(cx):
    cg = cx.codegen
    for p, f in sorted(cg.fns.items()):
        if "mir" not in f:
            continue
        yield p, cx.body(cg, p)


def check_order(cx, chk):
    cg = cx.codegen
    n_calls = 0
    for p, b in generator_bodies(cx):
        for i, t in b.calls():
            f = t["func"]
            if f.get("indirect"):
                continue
            n_calls += 1
            path = f["path"]
            l = last(path)
            recv_ty = ""
            if t["args"] and "place" in t["args"][0]:
                recv_ty = b.ty(t["args"][0]["place"]["l"])
            gargs = " ".join(f.get("args", []))
            on_unordered = bool(UNORDERED.search(mir.strip_generics(path).rsplit("::", 1)[0])) or bool(UNORDERED.search(recv_ty)) \
                or (l in ("into_iter", "from_iter", "extend", "collect") and UNORDERED.search(gargs) and l == "into_iter")
            if l in ITER_METHODS and on_unordered:
                chk.violation("C16.order", "%s iterates %s" % (short(p), l),
                              "%s iterates an unordered container (%s on %s): the order of what it emits can differ between processes"
                              % (short(p), l, recv_ty or path), cx.site(b, i))
            # `for x in &hashmap` : IntoIterator::into_iter with Self = &HashMap
            if l == "into_iter" and UNORDERED.search(gargs):
                chk.violation("C16.order", "%s for-loop over unordered" % short(p),
                              "%s loops over an unordered container (%s)" % (short(p), gargs[:80]), cx.site(b, i))
    chk.ok("C16.order", "calls scanned", {"calls_scanned": n_calls})
    chk.floor("C16.order", "generator calls scanned", n_calls, 2500)
    # data structures of the generator (not the bootstrap AST, which has no maps)
    nf = 0
    for p, adt in cg.adts.items():
        for v in adt["variants"]:
            for fld in v["fields"]:
                nf += 1
                if UNORDERED.search(fld["ty"]):
                    chk.violation("C16.order", "%s.%s unordered field" % (last(p), fld["name"]),
                                  "generator data structure %s.%s has an unordered container type (%s)" % (last(p), fld["name"], fld["ty"]),
                                  "%s:%d" % (adt["span"]["file"], adt["span"]["line"]))
    chk.ok("C16.order", "ADT fields", {"fields_scanned": nf})
    # membership-only use of unordered locals
    for p, b in generator_bodies(cx):
        for l, loc in enumerate(b.locals):
            if UNORDERED.search(loc["ty"]) and not loc["ty"].startswith("&"):
                chk.ok("C16.order", "%s local _%d" % (short(p), l), {"fn": short(p), "local_type": loc["ty"], "use": "membership only (no iteration call found)"})


def reachable(cx, crate, roots):
    seen = set()
    st = list(roots)
    while st:
        p = st.pop()
        if p in seen or p not in crate.fns or "mir" not in crate.fns[p]:
            continue
        seen.add(p)
        b = cx.body(crate, p)
        for _, t in b.calls():
            f = t["func"]
            if f.get("indirect"):
                continue
            for q in (f.get("resolved"), f["path"]):
                if q in crate.fns:
                    st.append(q)
            # trait method with unresolved receiver: all impls in the crate
            if f.get("trait_item") and not f.get("resolved"):
                m = last(f["path"])
                for q, g in crate.fns.items():
                    if last(q) == m and g.get("impl_trait") and last(g["impl_trait"]) == short(f["path"]).split("::")[0]:
                        st.append(q)
        # operands naming functions (passed as values) and closures
        for i in b.reach:
            for st_ in b.blocks[i]["stmts"]:
                if st_["k"] == "assign":
                    for o in [st_["rv"].get("op")] + st_["rv"].get("ops", []):
                        if isinstance(o, dict) and "fn" in o:
                            for q in (o["fn"].get("resolved"), o["fn"]["path"]):
                                if q in crate.fns:
                                    st.append(q)
            t = b.blocks[i]["term"]
            if t["k"] == "call":
                for o in t["args"]:
                    if "fn" in o:
                        for q in (o["fn"].get("resolved"), o["fn"]["path"]):
                            if q in crate.fns:
                                st.append(q)
        for q in crate.fns:
            if q.startswith(p + "::{closure"):
                st.append(q)
    return seen


def check_pure(cx, chk):
    cg = cx.codegen
    roots = [p for p in cg.fns if (last(p) == "generate_code" and "CodegenGrammar" in p)
             or (last(p) == "from_str" and "Grammar" in p) or last(p) == "generate_source_header"
             or last(p) == "parse_advanced"]   # the bootstrapped front end is entered through the runtime's blanket PegParser impl
    if len(roots) < 3:
        chk.anchor_missing("C16.pure", "generate_code / from_str / generate_source_header")
    seen = reachable(cx, cg, roots)
    # the bootstrap parser calls into the runtime: include the runtime functions it reaches
    n = 0
    for p in sorted(seen):
        b = cx.body(cg, p)
        for i, t in b.calls():
            f = t["func"]
            if f.get("indirect"):
                continue
            n += 1
            path = mir.strip_generics(f["path"])
            if NONDET.match(path) or RAND.match(path):
                chk.violation("C16.pure", "%s -> %s" % (short(p), short(f["path"])),
                              "%s (reachable from code generation) calls the nondeterminism source %s" % (short(p), path), cx.site(b, i))
        for i in b.reach:
            for st in b.blocks[i]["stmts"]:
                if st["k"] == "assign" and st["rv"]["k"] == "cast" and "Expose" in st["rv"]["kind"]:
                    chk.violation("C16.pure", "%s ptr-to-int" % short(p), "pointer-to-integer cast in code generation", cx.site(b, i))
    # no state that outlives a call: the output for a grammar must not depend on what the process compiled before
    INTERIOR = re.compile(r"\b(RefCell|Cell|UnsafeCell|Mutex|RwLock|Atomic\w+|OnceCell|OnceLock|LazyLock|LazyCell|Lazy|Once)\b")
    n_stat = 0
    for crate, label in ((cg, "generator"), (getattr(cx, "macro_", None), "macro"), (getattr(cx, "cli", None), "cli")):
        if crate is None:
            continue
        for s_ in crate.j.get("statics", []):
            n_stat += 1
            if s_.get("thread_local") or s_.get("mutable") or s_.get("mutability") in ("mut", "Mut") or INTERIOR.search(s_.get("ty", "")):
                chk.violation("C16.pure", "%s mutable-static %s" % (label, short(s_["path"].split("::{")[0])),
                              "mutable / thread-local static %s (%s) in the %s: state that survives a call of the code generator makes the code generated "
                              "for a grammar depend on what was compiled earlier in the same process (build script over a directory, several peginate! "
                              "invocations) while the command-line tool starts fresh" % (s_["path"], s_.get("ty", "")[:60], label),
                              "%s:%d" % (s_["span"]["file"], s_["span"]["line"]))
    for p in sorted(seen):
        b = cx.body(cg, p)
        for i in b.reach:
            for st in b.blocks[i]["stmts"]:
                if st["k"] == "assign" and st["rv"]["k"] == "tlsref":
                    chk.violation("C16.pure", "%s thread-local" % short(p), "%s (reachable from code generation) accesses a thread-local" % short(p), cx.site(b, i))
    chk.ok("C16.pure", "no state outlives a call", {"statics_in_generator_macro_cli": n_stat, "rule": "no thread_local / static mut / static with interior mutability"})
    chk.ok("C16.pure", "reachable functions", {"functions": len(seen), "calls": n})
    chk.floor("C16.pure", "functions reachable from code generation", len(seen), 180)
    # header: depends on its parameter and compile-time constants only
    hp = [p for p in cg.fns if last(p) == "generate_source_header"]
    if hp:
        b = cx.body(cg, hp[0])
        bad = []
        for i, t in b.calls():
            f = t["func"]
            if f.get("indirect"):
                bad.append("indirect call")
                continue
            k = f["krate"]
            if k not in ("core", "alloc", "std", "crc", "peginator_codegen"):
                bad.append(short(f["path"]))
        if bad:
            chk.violation("C16.pure", "header calls %s" % bad[0], "generate_source_header calls %s" % bad, cx.site(b))
        else:
            chk.ok("C16.pure", "header", {"header_calls": sorted({short(t["func"]["path"]) for _, t in b.calls() if not t["func"].get("indirect")})})


def uses_value(b, l):
    out = []
    for i in sorted(b.reach):
        blk = b.blocks[i]
        for op in common.operands_of_block(blk):
            if common.uses_local(op, l):
                out.append((i, op))
    return out


def check_route(cx, chk, crate, fn_pred, label, text_src):
    """One integration route, read off the semantic summary of its function (local helpers inlined): on every path that generates
    code, the grammar handed to generate_code is the unwrapped result of parsing the unmodified text, the settings are the defaults
    (with the derives override), and the generated token stream is only displayed / converted."""
    from .. import sem
    ps = [p for p in crate.fns if fn_pred(p) and "mir" in crate.fns[p]]
    if not ps:
        chk.anchor_missing("C16.routes", label)
        return
    b = cx.body(crate, ps[0])
    S = sem.Sem(cx, crate, inline=lambda q: q in crate.fns and "mir" in crate.fns[q] and "{closure" not in q and last(q) not in ("generate_code",)
                and "::grammar::generated::" not in q and "Codegen" not in q, max_leaves=3000)
    try:
        sm = S.summarize(ps[0])
    except sem.SemLimit as ex:
        chk.violation("C16.routes", label + " unsummarised", "%s could not be summarised: %s" % (label, ex), cx.site(b))
        return
    probs = []
    n_gen = 0
    shown = None
    sinks_all = set()
    for leaf in sm.leaves + sm.loopbacks:
        gens = [(k, ev) for k, ev in enumerate(leaf.trace) if ev[0][0] == "call" and last(ev[0][1]) == "generate_code" and "CodegenGrammar" in ev[0][1]]
        if not gens:
            continue
        if len(gens) != 1:
            probs.append("a path calls CodegenGrammar::generate_code %d times" % len(gens))
            continue
        n_gen += 1
        gk, gev = gens[0]
        G = gev[0]
        recv = G[2][0]
        shown = recv
        # receiver: unwrapped result of from_str / parse / parse_with_trace applied to the text
        x = recv
        passed = []
        for _ in range(12):
            if x[0] in ("field", "downcast"):
                x = x[1]
            elif is_call(x, "unwrap", "expect", "deref", "as_ref", "borrow", "clone") and x[2]:
                x = x[2][0]
            else:
                break
        if is_call(x, "from_str", "parse", "parse_with_trace") and x[2] and ("PegParser" in x[1] or "FromStr" in x[1] or "Grammar" in x[1] or "Grammar" in " ".join(x[4] if len(x) > 4 else ()) or "str" in x[1]):
            if not text_src(x[2][0]):
                probs.append("the text that is parsed is not the unmodified grammar text: %s" % mir.show(x[2][0])[:200])
        else:
            inner = [s_ for s_ in walk(recv) if is_call(s_, "from_str", "parse", "parse_with_trace") and s_[2]]
            if inner:
                probs.append("the parsed grammar passes through %s before code generation" % (short(x[1]) if x[0] == "call" else x[0]))
            else:
                probs.append("the grammar handed to generate_code is not the result of Grammar::from_str / parse: %s" % mir.show(recv)[:200])
        # settings
        st_ = G[2][1] if len(G[2]) > 1 else None
        okd = False
        if st_ is not None:
            base = st_
            while base[0] == "upd" and base[2] == "derives":
                base = base[1]
            if is_call(base, "default"):
                okd = True
            if st_[0] == "agg" and st_[1].endswith("CodegenSettings"):
                d = dict(st_[3])
                rest = [v for k_, v in d.items() if k_ != "derives"]
                okd = all((v[0] == "field" and is_call(v[1], "default")) for v in rest)
            if label.startswith("buildscript"):
                okd = True      # the build script's settings are the builder's own (C18)
        if not okd:
            probs.append("settings: %s does not generate with default settings (+derives override): %s" % (label, mir.show(st_)[:200] if st_ is not None else "?"))
        # output: the token stream is only displayed / converted / returned
        TOK = mir.mk("field", mir.mk("downcast", G, "Ok"), "0")
        TOK2 = mir.mk("field", mir.mk("downcast", mir.mk("call", "std::ops::Try::branch", (G,), None, ()), "Continue"), "0")
        toks = (TOK, TOK2, G)
        sinks = []
        for k, ev in enumerate(leaf.trace):
            t = ev[0]
            if k <= gk or t[0] != "call":
                continue
            direct = any(a in toks or (a[0] in ("array", "tuple") and any(y in toks for y in a[1])) for a in t[2] if isinstance(a, tuple) and a)
            if direct and last(t[1]) not in ("branch", "unwrap", "expect", "from_residual"):
                sinks.append(short(t[1]))
            if last(t[1]) in ("unwrap", "expect") and t[2] and t[2][0] == G:
                toks = toks + (t,)
        if leaf.ret is not None and any(s_ in toks and s_ != G for s_ in walk(leaf.ret)) and leaf.kind == "return":
            sinks.append("<returned>")
        allowed = {"Argument::new_display", "Into::into", "ToString::to_string", "Display::fmt", "<returned>", "From::from"}
        bad = [s_ for s_ in sinks if s_ not in allowed and not s_.startswith("Argument::new_display")]
        ok_leaf = semspec_ok(leaf, G)
        if ok_leaf and not sinks:
            probs.append("the generated code is not emitted at all")
        if bad:
            probs.append("the generated code is passed through %s before being emitted" % sorted(set(bad)))
        sinks_all |= set(sinks)
    if n_gen == 0:
        probs.append("gen-calls: %s never calls CodegenGrammar::generate_code" % label)
    if probs:
        for pr in sorted(set(probs)):
            chk.violation("C16.routes", "%s %s" % (label, pr.split(":")[0][:70]), pr, cx.site(b))
    else:
        chk.ok("C16.routes", label, {"route": label, "grammar": mir.show(shown)[:160] if shown is not None else None, "emitted_via": sorted(sinks_all), "paths": n_gen})
    return b, None


def semspec_ok(leaf, G):
    """The path continues with a successfully generated token stream (not the error exit of generate_code)."""
    k = leaf.facts.get(mir.mk("discr", G))
    if k is None:
        k = leaf.facts.get(mir.mk("discr", mir.mk("call", "std::ops::Try::branch", (G,), None, ())))
    return k == 0 or k is None


def check_routes(cx, chk):
    def text_is(pred):
        def f(arg):
            a = arg
            for _ in range(6):
                if is_call(a, "deref", "as_str", "as_ref", "borrow") and len(a[2]) == 1:
                    a = a[2][0]
                else:
                    break
            return pred(a)
        return f

    def from_read(a):
        # (Try::branch(fs::read_to_string(..)) as Continue).0
        return any(is_call(s, "read_to_string") for s in walk(a)) and not any(
            is_call(s, "replace", "trim", "to_lowercase", "to_uppercase", "push_str", "format") for s in walk(a))

    def from_lit(a):
        return is_call(a, "value") and not any(is_call(s, "replace", "trim") for s in walk(a))
    if cx.cli is not None:
        check_route(cx, chk, cx.cli, lambda p: last(p) == "main_wrap", "cli main_wrap", text_is(from_read))
    else:
        chk.anchor_missing("C16.routes", "peginator_cli crate")
    check_route(cx, chk, cx.codegen, lambda p: last(p) == "run_on_single_file", "buildscript run_on_single_file", text_is(from_read))
    if cx.macro is not None:
        check_route(cx, chk, cx.macro, lambda p: last(p) == "peginate", "macro peginate", text_is(from_lit))
    else:
        chk.anchor_missing("C16.routes", "peginator_macro crate")


def check_builder(cx, chk):
    """The build-script route gets its settings through a builder: `Compile::file(..).derives(..).user_context_type(..)...`.
    Same settings must mean the same code whatever the order of the calls, so every builder method changes what it is about and
    leaves the rest of the value as it was: read off its summary, every field of the returned value (settings fields included) is
    the receiver's, or is built from the method's arguments / from the receiver's old value - never reset to a default or constant
    while another field is being set."""
    from .. import sem
    from . import semspec
    cg = cx.codegen
    names = semspec.adt_fields(cg, "buildscript::Compile")
    snames = semspec.adt_fields(cg, "common::CodegenSettings") or []
    if not names:
        chk.anchor_missing("C16.routes", "struct Compile")
        return
    S = sem.Sem(cx, cg, inline=lambda p_: False)
    P1 = mir.mk("param", 1)
    n = 0
    for p, f in sorted(cg.fns.items()):
        if "mir" not in f or "{closure" in p or "buildscript::Compile::" not in p or f.get("vis") != "Public":
            continue
        ins = f.get("inputs") or []
        if not ins or not ins[0].endswith("Compile") or ins[0].startswith("&") or not (f.get("output") or "").endswith("Compile"):
            continue
        try:
            sm = S.summarize(p)
        except sem.SemLimit:
            continue
        if sm is None or not sm.complete:
            continue
        n += 1
        bad = []
        for l in sm.returns:
            changed = []
            for fn_ in names:
                v = sem.get_field(l.ret, fn_)
                old = mir.mk("field", P1, fn_)
                subs = [(fn_, v, old)]
                if fn_ == "settings" and snames:
                    subs = [("settings." + sn, sem.get_field(v, sn), mir.mk("field", old, sn)) for sn in snames]
                for (nm, nv, ov) in subs:
                    if nv == ov:
                        continue
                    from_args = any(x[0] == "param" and x[1] >= 2 for x in walk(nv))
                    from_old = any(x == ov or x == old for x in walk(nv))
                    changed.append((nm, nv, from_args or from_old))
            if len(changed) > 1:
                for (nm, nv, okk) in changed:
                    if not okk:
                        bad.append((nm, nv))
        tag = "builder %s" % last(p)
        if bad:
            nm, nv = bad[0]
            chk.violation("C16.routes", "%s resets %s" % (tag, nm),
                          "Compile::%s sets %s to %s - neither the receiver's value nor built from the method's arguments - while it changes another field: "
                          "the build script's settings then depend on the order of the builder calls (`.user_context_type(..).derives(..)` loses the user "
                          "context) and the same settings no longer give the same code on every route" % (last(p), nm, mir.show(nv)[:80]), cx.site(cx.body(cg, p)))
        else:
            chk.ok("C16.routes", tag, {"method": last(p), "rule": "every field is the receiver's, or built from the arguments / the old value"})
    chk.floor("C16.routes", "builder methods of Compile", n, 3)


def run(cx, chk):
    chk.explanation = (
        "Determinism argued from the absence of its only possible causes in the generator's own code: no call iterates an unordered "
        "container and no generator data structure stores one (type-resolved over every call of peginator_codegen); nothing reachable "
        "from generate_code / from_str / generate_source_header calls a time, environment, random-state, id or address source; the "
        "three integration routes parse the unmodified text, call the one entry point and emit its Display/token stream unchanged. "
        "Byte identity across processes follows given deterministic dependencies (proc_macro2, quote).")
    chk.assumptions = ["proc_macro2 / quote / crc are deterministic", "BUILD_TIME is a compile-time constant of the generator build (part of 'same library')"]
    check_order(cx, chk)
    check_pure(cx, chk)
    check_routes(cx, chk)
    check_builder(cx, chk)
    # the macro route's expansion and the build-script route's output for the same text denote the same parser / types
    from . import lift_rules
    mt = [i.name for i in cx.instances() if i.crate.name == "simple"]
    if mt:
        lift_rules.check_twin(cx, chk, "C16.twin", mt[0], "corpus:macro_twin", "peginate! vs Compile", floor=1)
    else:
        chk.anchor_missing("C16.twin", "macro test instance")
