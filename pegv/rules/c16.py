"""C16 — deterministic, route-independent code generation.

order  : no iteration over an unordered container anywhere in the generator; no unordered
         container is stored in a generator data structure.
pure   : nothing reachable from generate_code / Grammar::from_str / generate_source_header
         reads a nondeterminism source (time, environment, random state, ids, addresses).
routes : the command-line tool, the build-script helper and the macro all emit the Display /
         token stream of CodegenGrammar::generate_code(Grammar::from_str(text), settings) unchanged.
"""
import re

from .. import mir
from ..mir import short, last, strip, walk, norm, is_call
from . import common

LEVEL = "other"

ITER_METHODS = ("iter", "iter_mut", "keys", "values", "values_mut", "into_iter", "into_keys", "into_values", "drain",
                "retain", "extract_if", "difference", "union", "intersection", "symmetric_difference")
UNORDERED = re.compile(r"\b(HashMap|HashSet|hash::map|hash::set|hash_map|hash_set)\b")
NONDET = re.compile(
    r"^(std|core)::(time::|env::(var|vars|args|var_os|vars_os|args_os|current_dir|current_exe|temp_dir)|"
    r"thread::(current|ThreadId)|process::id|collections::hash::map::RandomState|hash::random|"
    r"hash::BuildHasher|ptr::.*addr|fmt::Pointer)")
RAND = re.compile(r"^(rand|getrandom|fastrand|uuid)")


def generator_bodies(cx):
    cg = cx.codegen
    for p, f in sorted(cg.fns.items()):
        if "mir" not in f:
            continue
        yield p, cx.body(cg, p)


def check_order(cx, chk):
    cg = cx.codegen
    n_calls = 0
    for p, b in generator_bodies(cx):
        for i, t in b.calls():
            f = t["func"]
            if f.get("indirect"):
                continue
            n_calls += 1
            path = f["path"]
            l = last(path)
            recv_ty = ""
            if t["args"] and "place" in t["args"][0]:
                recv_ty = b.ty(t["args"][0]["place"]["l"])
            gargs = " ".join(f.get("args", []))
            on_unordered = bool(UNORDERED.search(mir.strip_generics(path).rsplit("::", 1)[0])) or bool(UNORDERED.search(recv_ty)) \
                or (l in ("into_iter", "from_iter", "extend", "collect") and UNORDERED.search(gargs) and l == "into_iter")
            if l in ITER_METHODS and on_unordered:
                chk.violation("C16.order", "%s iterates %s" % (short(p), l),
                              "%s iterates an unordered container (%s on %s): the order of what it emits can differ between processes"
                              % (short(p), l, recv_ty or path), cx.site(b, i))
            # `for x in &hashmap` : IntoIterator::into_iter with Self = &HashMap
            if l == "into_iter" and UNORDERED.search(gargs):
                chk.violation("C16.order", "%s for-loop over unordered" % short(p),
                              "%s loops over an unordered container (%s)" % (short(p), gargs[:80]), cx.site(b, i))
    chk.ok("C16.order", "calls scanned", {"calls_scanned": n_calls})
    chk.floor("C16.order", "generator calls scanned", n_calls, 2500)
    # data structures of the generator (not the bootstrap AST, which has no maps)
    nf = 0
    for p, adt in cg.adts.items():
        for v in adt["variants"]:
            for fld in v["fields"]:
                nf += 1
                if UNORDERED.search(fld["ty"]):
                    chk.violation("C16.order", "%s.%s unordered field" % (last(p), fld["name"]),
                                  "generator data structure %s.%s has an unordered container type (%s)" % (last(p), fld["name"], fld["ty"]),
                                  "%s:%d" % (adt["span"]["file"], adt["span"]["line"]))
    chk.ok("C16.order", "ADT fields", {"fields_scanned": nf})
    # membership-only use of unordered locals
    for p, b in generator_bodies(cx):
        for l, loc in enumerate(b.locals):
            if UNORDERED.search(loc["ty"]) and not loc["ty"].startswith("&"):
                chk.ok("C16.order", "%s local _%d" % (short(p), l), {"fn": short(p), "local_type": loc["ty"], "use": "membership only (no iteration call found)"})


def reachable(cx, crate, roots):
    seen = set()
    st = list(roots)
    while st:
        p = st.pop()
        if p in seen or p not in crate.fns or "mir" not in crate.fns[p]:
            continue
        seen.add(p)
        b = cx.body(crate, p)
        for _, t in b.calls():
            f = t["func"]
            if f.get("indirect"):
                continue
            for q in (f.get("resolved"), f["path"]):
                if q in crate.fns:
                    st.append(q)
            # trait method with unresolved receiver: all impls in the crate
            if f.get("trait_item") and not f.get("resolved"):
                m = last(f["path"])
                for q, g in crate.fns.items():
                    if last(q) == m and g.get("impl_trait") and last(g["impl_trait"]) == short(f["path"]).split("::")[0]:
                        st.append(q)
        # operands naming functions (passed as values) and closures
        for i in b.reach:
            for st_ in b.blocks[i]["stmts"]:
                if st_["k"] == "assign":
                    for o in [st_["rv"].get("op")] + st_["rv"].get("ops", []):
                        if isinstance(o, dict) and "fn" in o:
                            for q in (o["fn"].get("resolved"), o["fn"]["path"]):
                                if q in crate.fns:
                                    st.append(q)
            t = b.blocks[i]["term"]
            if t["k"] == "call":
                for o in t["args"]:
                    if "fn" in o:
                        for q in (o["fn"].get("resolved"), o["fn"]["path"]):
                            if q in crate.fns:
                                st.append(q)
        for q in crate.fns:
            if q.startswith(p + "::{closure"):
                st.append(q)
    return seen


def check_pure(cx, chk):
    cg = cx.codegen
    roots = [p for p in cg.fns if (last(p) == "generate_code" and "CodegenGrammar" in p)
             or (last(p) == "from_str" and "Grammar" in p) or last(p) == "generate_source_header"
             or last(p) == "parse_advanced"]   # the bootstrapped front end is entered through the runtime's blanket PegParser impl
    if len(roots) < 3:
        chk.anchor_missing("C16.pure", "generate_code / from_str / generate_source_header")
    seen = reachable(cx, cg, roots)
    # the bootstrap parser calls into the runtime: include the runtime functions it reaches
    n = 0
    for p in sorted(seen):
        b = cx.body(cg, p)
        for i, t in b.calls():
            f = t["func"]
            if f.get("indirect"):
                continue
            n += 1
            path = mir.strip_generics(f["path"])
            if NONDET.match(path) or RAND.match(path):
                chk.violation("C16.pure", "%s -> %s" % (short(p), short(f["path"])),
                              "%s (reachable from code generation) calls the nondeterminism source %s" % (short(p), path), cx.site(b, i))
        for i in b.reach:
            for st in b.blocks[i]["stmts"]:
                if st["k"] == "assign" and st["rv"]["k"] == "cast" and "Expose" in st["rv"]["kind"]:
                    chk.violation("C16.pure", "%s ptr-to-int" % short(p), "pointer-to-integer cast in code generation", cx.site(b, i))
    chk.ok("C16.pure", "reachable functions", {"functions": len(seen), "calls": n})
    chk.floor("C16.pure", "functions reachable from code generation", len(seen), 180)
    # header: depends on its parameter and compile-time constants only
    hp = [p for p in cg.fns if last(p) == "generate_source_header"]
    if hp:
        b = cx.body(cg, hp[0])
        bad = []
        for i, t in b.calls():
            f = t["func"]
            if f.get("indirect"):
                bad.append("indirect call")
                continue
            k = f["krate"]
            if k not in ("core", "alloc", "std", "crc", "peginator_codegen"):
                bad.append(short(f["path"]))
        if bad:
            chk.violation("C16.pure", "header calls %s" % bad[0], "generate_source_header calls %s" % bad, cx.site(b))
        else:
            chk.ok("C16.pure", "header", {"header_calls": sorted({short(t["func"]["path"]) for _, t in b.calls() if not t["func"].get("indirect")})})


def uses_value(b, l):
    out = []
    for i in sorted(b.reach):
        blk = b.blocks[i]
        for op in common.operands_of_block(blk):
            if common.uses_local(op, l):
                out.append((i, op))
    return out


def check_route(cx, chk, crate, fn_pred, label, text_src):
    ps = [p for p in crate.fns if fn_pred(p) and "mir" in crate.fns[p]]
    if not ps:
        chk.anchor_missing("C16.routes", label)
        return
    b = cx.body(crate, ps[0])
    gens = [(i, t) for i, t in b.calls() if not t["func"].get("indirect") and last(t["func"]["path"]) == "generate_code" and "CodegenGrammar" in t["func"]["path"]]
    if len(gens) != 1:
        chk.violation("C16.routes", label + " gen-calls", "%s does not call CodegenGrammar::generate_code exactly once (%d)" % (label, len(gens)), cx.site(b))
        return
    gi, gt = gens[0]
    recv = norm(b.expr_op(gt["args"][0]))
    probs = []
    # receiver: unwrapped result of from_str / parse / parse_with_trace applied to the text
    parse_calls = [s for s in walk(recv) if is_call(s, "from_str", "parse", "parse_with_trace")]
    pcs = [s for s in b.walk_deep(recv) if is_call(s, "from_str", "parse", "parse_with_trace") and s[2] and ("PegParser" in s[1] or "FromStr" in s[1] or "Grammar" in s[1])]
    if not pcs:
        probs.append("the grammar handed to generate_code is not the result of Grammar::from_str / parse: %s" % mir.show(recv)[:200])
    for pc in pcs:
        arg = pc[2][0]
        if not text_src(arg):
            probs.append("the text that is parsed is not the unmodified grammar text: %s" % mir.show(arg)[:200])
    # nothing but error conversion / unwrapping between the parse and the generator
    for s_ in b.walk_deep(recv):
        if s_[0] == "call" and last(s_[1]) not in ("from_str", "parse", "parse_with_trace", "map_err", "branch", "unwrap", "expect", "deref",
                                                   "read_to_string", "value", "as_str", "as_ref", "borrow", "from_parse_error", "to_str", "parse_args", "syn_parse") \
                and "clap" not in s_[1] and "syn::" not in s_[1] and "Args" not in s_[1] and last(s_[1]) != "call_once":
            if any(is_call(x, "from_str", "parse", "parse_with_trace") and x[2] for x in walk(s_)):
                probs.append("the parsed grammar passes through %s before code generation" % short(s_[1]))
    # output: the only uses of the generated TokenStream are Display formatting / into
    cur = gt["dest"]["l"]
    chain = [cur]
    final = None
    for _ in range(6):
        us = uses_value(b, cur)
        nxt = None
        for (i, op) in us:
            t = b.blocks[i]["term"]
            if t["k"] == "call" and not t["func"].get("indirect") and any(a is op for a in t["args"]):
                nm = last(t["func"]["path"])
                if nm in ("branch", "unwrap", "expect") or (nm == "from_residual"):
                    if nm != "from_residual":
                        nxt = t["dest"]["l"]
        if nxt is None:
            break
        cur = nxt
        chain.append(cur)
        # payload extraction from Try::branch
        for i in b.reach:
            for st in b.blocks[i]["stmts"]:
                if st["k"] == "assign" and st["rv"]["k"] == "use" and "place" in st["rv"]["op"] and st["rv"]["op"]["place"]["l"] == cur \
                        and any(pe["k"] == "downcast" and pe["variant"] == "Continue" for pe in st["rv"]["op"]["place"]["p"]):
                    cur = st["place"]["l"]
                    chain.append(cur)
    # follow plain moves
    changed = True
    vals = {cur}
    while changed:
        changed = False
        for i in b.reach:
            for st in b.blocks[i]["stmts"]:
                if st["k"] == "assign" and st["rv"]["k"] == "use" and "place" in st["rv"]["op"] and not st["rv"]["op"]["place"]["p"] \
                        and st["rv"]["op"]["place"]["l"] in vals and not st["place"]["p"] and st["place"]["l"] not in vals:
                    vals.add(st["place"]["l"])
                    changed = True
    sinks = []
    for v in vals:
        for (i, op) in uses_value(b, v):
            t = b.blocks[i]["term"]
            if t["k"] == "call" and any(a is op for a in t["args"]):
                nm = short(t["func"]["path"]) if not t["func"].get("indirect") else "<indirect>"
                sinks.append(nm)
            elif t["k"] == "drop":
                continue
        # references to v
        for i in b.reach:
            for st in b.blocks[i]["stmts"]:
                if st["k"] == "assign" and st["rv"]["k"] == "ref" and st["rv"]["place"]["l"] == v and not st["rv"]["place"]["p"]:
                    rl = st["place"]["l"]
                    # where does the reference go
                    stack = [rl]
                    seenr = set()
                    while stack:
                        r = stack.pop()
                        if r in seenr:
                            continue
                        seenr.add(r)
                        for (j, op) in uses_value(b, r):
                            t = b.blocks[j]["term"]
                            if t["k"] == "call" and any(a is op for a in t["args"]):
                                sinks.append(short(t["func"]["path"]) if not t["func"].get("indirect") else "<indirect>")
                            for st2 in b.blocks[j]["stmts"]:
                                if st2["k"] == "assign" and not st2["place"]["p"]:
                                    rv = st2["rv"]
                                    ops = [rv.get("op")] + rv.get("ops", []) + ([{"place": rv["place"]}] if "place" in rv else [])
                                    if any(isinstance(o, dict) and "place" in o and o["place"]["l"] == r for o in ops):
                                        stack.append(st2["place"]["l"])
    allowed = {"Argument::new_display", "Into::into", "ToString::to_string", "Display::fmt"}
    bad = [s for s in sinks if s not in allowed and not s.startswith("Argument::new_display")]
    if not sinks:
        probs.append("the generated code is not emitted at all")
    if bad:
        probs.append("the generated code is passed through %s before being emitted" % sorted(set(bad)))
    if probs:
        for pr in probs:
            chk.violation("C16.routes", "%s %s" % (label, pr.split(":")[0][:70]), pr, cx.site(b, gi))
    else:
        chk.ok("C16.routes", label, {"route": label, "grammar": mir.show(recv)[:160], "emitted_via": sorted(set(sinks))})
    return b, gt


def check_routes(cx, chk):
    def text_is(pred):
        def f(arg):
            a = arg
            for _ in range(6):
                if is_call(a, "deref", "as_str", "as_ref", "borrow") and len(a[2]) == 1:
                    a = a[2][0]
                else:
                    break
            return pred(a)
        return f

    def from_read(a):
        # (Try::branch(fs::read_to_string(..)) as Continue).0
        return any(is_call(s, "read_to_string") for s in walk(a)) and not any(
            is_call(s, "replace", "trim", "to_lowercase", "to_uppercase", "push_str", "format") for s in walk(a))

    def from_lit(a):
        return is_call(a, "value") and not any(is_call(s, "replace", "trim") for s in walk(a))
    if cx.cli is not None:
        check_route(cx, chk, cx.cli, lambda p: last(p) == "main_wrap", "cli main_wrap", text_is(from_read))
    else:
        chk.anchor_missing("C16.routes", "peginator_cli crate")
    check_route(cx, chk, cx.codegen, lambda p: last(p) == "run_on_single_file", "buildscript run_on_single_file", text_is(from_read))
    if cx.macro is not None:
        check_route(cx, chk, cx.macro, lambda p: last(p) == "peginate", "macro peginate", text_is(from_lit))
    else:
        chk.anchor_missing("C16.routes", "peginator_macro crate")
    # default settings: the macro and the cli start from Default::default()
    for crate, fn, label in ((cx.macro, "peginate", "macro"), (cx.cli, "main_wrap", "cli")):
        if crate is None:
            continue
        ps = [p for p in crate.fns if last(p) == fn and "mir" in crate.fns[p]]
        if not ps:
            continue
        b = cx.body(crate, ps[0])
        for i, t in b.calls():
            if not t["func"].get("indirect") and last(t["func"]["path"]) == "generate_code" and "CodegenGrammar" in t["func"]["path"]:
                s = norm(b.expr_op(t["args"][1]))
                okd = False
                if is_call(s, "default"):
                    okd = True
                if s[0] == "agg" and s[1].endswith("CodegenSettings"):
                    d = dict(s[3])
                    rest = [v for k, v in d.items() if k != "derives"]
                    okd = all((v[0] == "field" and is_call(v[1], "default")) for v in rest)
                if okd:
                    chk.ok("C16.routes", label + " settings", {"route": label, "settings": mir.show(s)[:200]})
                else:
                    chk.violation("C16.routes", label + " settings", "%s does not generate with default settings (+derives override): %s" % (label, mir.show(s)[:200]), cx.site(b, i))


def run(cx, chk):
    chk.explanation = (
        "Determinism argued from the absence of its only possible causes in the generator's own code: no call iterates an unordered "
        "container and no generator data structure stores one (type-resolved over every call of peginator_codegen); nothing reachable "
        "from generate_code / from_str / generate_source_header calls a time, environment, random-state, id or address source; the "
        "three integration routes parse the unmodified text, call the one entry point and emit its Display/token stream unchanged. "
        "Byte identity across processes follows given deterministic dependencies (proc_macro2, quote).")
    chk.assumptions = ["proc_macro2 / quote / crc are deterministic", "BUILD_TIME is a compile-time constant of the generator build (part of 'same library')"]
    check_order(cx, chk)
    check_pure(cx, chk)
    check_routes(cx, chk)
    # the macro route's expansion and the build-script route's output for the same text denote the same parser / types
    from . import lift_rules
    mt = [i.name for i in cx.instances() if i.crate.name == "simple"]
    if mt:
        lift_rules.check_twin(cx, chk, "C16.twin", mt[0], "corpus:macro_twin", "peginate! vs Compile", floor=1)
    else:
        chk.anchor_missing("C16.twin", "macro test instance")
