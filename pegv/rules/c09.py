"""C09 — @position ranges are exactly the consumed span.

pair : every range_until / slice_until in generated code is taken between the rule's
       entry state (the one whose clone is handed to the body) and the state of the
       body's Ok, inside the map_with_state callback of that same body result.
rt   : range_until, slice_until, map_with_state and map are the documented identities.
impl : PegPosition::position returns &self.position or delegates per variant.
"""
from .. import mir
from ..mir import short, last, strip, walk, norm, is_call
from . import common

LEVEL = "other"


def check_pair(cx, chk):
    n_range = n_slice = 0
    positioned = 0
    for inst in cx.instances():
        # types that carry a position
        pos_types = set()
        for p, adt in inst.crate.adts.items():
            if p.startswith(inst.outer + "::") and "::" not in p[len(inst.outer) + 2:]:
                for v in adt["variants"]:
                    if any(f["name"] == "position" and "Range<usize>" in f["ty"] for f in v["fields"]):
                        pos_types.add(last(p))
        seen_for = set()
        for p, f in sorted(inst.fns.items()):
            if "mir" not in f:
                continue
            b = cx.body(inst.crate, p)
            for i, t in b.calls():
                fn = t["func"]
                if fn.get("indirect"):
                    continue
                nm = last(fn["path"])
                if nm not in ("range_until", "slice_until") or "ParseState" not in fn["path"]:
                    continue
                rest = p[len(inst.prefix) + 2:]
                rule = rest.split("::")[0]
                tag = "%s/%s %s" % (inst.name, rule, nm)
                if nm == "range_until":
                    n_range += 1
                else:
                    n_slice += 1
                A = norm(b.expr_op(t["args"][0]))
                B = norm(b.expr_op(t["args"][1]))
                problems = []
                # B: the callback's state parameter
                if not (b.is_closure and B == ("param", 3)):
                    problems.append("end state %s is not the state handed to the map_with_state callback" % mir.show(B))
                # the callback is arg1 of map_with_state whose arg0 is Ok(body(clone(entry)))
                uses = common.closure_uses(cx, inst.crate, b) if b.is_closure else []
                mws = [(pb, bi, tt) for (pb, bi, tt, ai) in uses if last(tt["func"]["path"]) == "map_with_state" and ai == 1]
                if len(mws) != 1:
                    problems.append("the enclosing closure is not (only) the callback of map_with_state")
                    entry_in_parent = None
                else:
                    pb, bi, tt = mws[0]
                    okv = norm(pb.expr_op(tt["args"][0]))
                    # okv = (Try::branch(BODY(clone(E), global)) as Continue).0
                    body_call = None
                    for s in walk(okv):
                        if s[0] == "call" and s[1].startswith(inst.prefix) and last(s[1]) == "parse":
                            body_call = s
                    if body_call is None:
                        problems.append("map_with_state is not applied to the rule body's result: %s" % mir.show(okv))
                        entry_in_parent = None
                    else:
                        st0 = body_call[2][0]
                        rb, root = common.resolve_state(cx, inst.crate, pb, st0)
                        entry_in_parent = (rb.path, root)
                        if not (root == ("param", 1) and not rb.is_closure and rb.path == inst.rule_fns.get(rule[len("parse_"):] if rule.startswith("parse_") else rule)):
                            problems.append("the body is not evaluated from the rule's entry state: %s in %s" % (mir.show(root), short(rb.path)))
                # A: the entry state
                ra, roota = common.resolve_state(cx, inst.crate, b, A)
                if not (roota == ("param", 1) and not ra.is_closure):
                    problems.append("start state %s is not the rule's entry state" % mir.show(roota))
                elif entry_in_parent is not None and entry_in_parent[0] != ra.path:
                    problems.append("start state belongs to another function than the state handed to the body")
                # where does the value go?
                dest = t["dest"]["l"]
                goes = None
                for bj in sorted(b.reach):
                    for st in b.blocks[bj]["stmts"]:
                        if st["k"] == "assign" and st["rv"]["k"] == "agg" and st["rv"].get("agg") == "adt":
                            e = norm(b.expr_rv(st["rv"]))
                            for (fname, v) in e[3]:
                                if any(s[0] == "call" and last(s[1]) == nm and s[2] == (A, B) for s in walk(v)):
                                    goes = (last(e[1]), fname, v)
                if nm == "range_until":
                    if goes is None or goes[1] != "position" or not is_call(goes[2], "range_until"):
                        problems.append("the range is not stored (unchanged) in the `position` field: %s" % (goes,))
                    else:
                        seen_for.add(goes[0])
                else:
                    # slice -> to_string -> returned string / `string` field
                    pass
                if problems:
                    for pr in problems:
                        chk.violation("C09.pair", "%s %s" % (tag, pr.split(":")[0][:80]), pr, cx.site(b, i))
                else:
                    chk.ok("C09.pair", tag, {"rule": "%s/%s" % (inst.name, rule), "call": "%s(entry, body_ok_state)" % nm})
            # two measurements in one callback must use the same pair
            pairs = set()
            for i, t in b.calls():
                fn = t["func"]
                if not fn.get("indirect") and last(fn["path"]) in ("range_until", "slice_until") and "ParseState" in fn["path"]:
                    pairs.add((norm(b.expr_op(t["args"][0])), norm(b.expr_op(t["args"][1]))))
            if len(pairs) > 1:
                chk.violation("C09.pair", "%s/%s mixed-pairs" % (inst.name, short(p)), "string slice and range of one rule are measured between different states", cx.site(b))
        for tname in sorted(pos_types):
            positioned += 1
            if tname not in seen_for:
                # enum overrides of positioned rules have no own field; structs must be filled by range_until
                chk.violation("C09.pair", "%s/%s position-not-measured" % (inst.name, tname),
                              "type %s has a `position` field but no range_until(entry, end) feeds it" % tname)
    chk.floor("C09.pair", "range_until sites", n_range, 3)
    chk.floor("C09.pair", "slice_until sites", n_slice, 6)
    chk.floor("C09.pair", "types with a position field", positioned, 6)


def ret(cx, crate, suffix):
    ps = [p for p in crate.fns if mir.strip_generics(p).endswith(suffix)]
    if not ps:
        return None, None
    b = cx.body(crate, ps[0])
    ds = b.defs.get(0, [])
    if len(ds) != 1:
        return b, None
    return b, norm(b.expr_rv(ds[0][3]) if ds[0][2] == "rv" else b.expr_call(ds[0][3]))


def check_rt(cx, chk):
    rt = cx.runtime
    me, ot = ("param", 1), ("param", 2)
    b, e = ret(cx, rt, "ParseState::range_until")
    if b is None:
        chk.anchor_missing("C09.rt", "ParseState::range_until")
    elif e and e[0] == "agg" and e[2] == "Range" and dict(e[3]) == {"start": ("field", me, "start_index"), "end": ("field", ot, "start_index")}:
        chk.ok("C09.rt", "range_until", {"range_until": mir.show(e)})
    else:
        chk.violation("C09.rt", "range_until", "range_until is not self.start_index..other.start_index: %s" % (mir.show(e) if e else "?"), cx.site(b))
    b, e = ret(cx, rt, "ParseState::slice_until")
    if b is None:
        chk.anchor_missing("C09.rt", "ParseState::slice_until")
    else:
        good = False
        if e and is_call(e, "index") and len(e[2]) == 2 and e[2][0] == ("field", me, "partial_string"):
            r = e[2][1]
            if r[0] == "agg" and r[2] == "RangeTo":
                end = r[3][0][1]
                if end[0] == "field" and end[2] == "0":
                    end = end[1]
                if end[0] == "binop" and end[1] in ("Sub", "SubWithOverflow") and end[2] == ("field", ot, "start_index") and end[3] == ("field", me, "start_index"):
                    good = True
                if is_call(end, "saturating_sub", "wrapping_sub") and tuple(end[2]) == (("field", ot, "start_index"), ("field", me, "start_index")):
                    good = True
        if good:
            chk.ok("C09.rt", "slice_until", {"slice_until": mir.show(e)})
        else:
            chk.violation("C09.rt", "slice_until", "slice_until is not partial_string[..other.start_index - self.start_index]: %s" % (mir.show(e) if e else "?"), cx.site(b))
    from .. import sem
    from . import semspec
    S = sem.Sem(cx, rt)
    for nm, want_args in (("ParseOk::map_with_state", 2), ("ParseOk::map", 1)):
        p = semspec.find_fn(rt, nm)
        if p is None:
            chk.anchor_missing("C09.rt", nm)
            continue
        b = cx.body(rt, p)
        try:
            sm = S.summarize(p)
        except sem.SemLimit as ex:
            chk.violation("C09.rt", nm, "%s could not be summarised: %s" % (nm, ex), cx.site(b))
            continue
        probs = []
        for leaf in sm.leaves:
            if leaf.kind != "return":
                probs.append("a path ends in a %s" % leaf.kind)
                continue
            fs = semspec.fields(leaf.ret, ["result", "state"])
            if fs["state"] != mir.mk("field", me, "state"):
                probs.append("state becomes %s" % mir.show(fs["state"])[:100])
            res = fs["result"]
            want = (mir.mk("field", me, "result"),) + ((mir.mk("field", me, "state"),) if want_args == 2 else ())
            if not (res[0] == "icall" and res[1] == ot and tuple(res[2]) == want):
                probs.append("result becomes %s" % mir.show(res)[:100])
        if not probs:
            chk.ok("C09.rt", nm, {nm: "ParseOk{result: f(self.result%s), state: self.state}" % (", &self.state" if want_args == 2 else "")})
        else:
            chk.violation("C09.rt", nm, "%s does not keep the state and map only the result: %s" % (nm, sorted(set(probs))), cx.site(b))


def check_impl(cx, chk):
    n = 0
    for inst in cx.instances():
        for p, f in inst.crate.fns.items():
            if "mir" not in f or last(p) != "position" or "PegPosition" not in p or not inst.owns_impl(p):
                continue
            n += 1
            b = cx.body(inst.crate, p)
            tag = "%s %s" % (inst.name, mir.qself(p)[0])
            rets = []
            for d in b.defs.get(0, []):
                rets.extend(b.alternatives(b.expr_rv(d[3]) if d[2] == "rv" else b.expr_call(d[3])))
            good = bool(rets)
            for r in rets:
                if r == ("field", ("param", 1), "position"):
                    continue
                if is_call(r, "position") and len(r[2]) == 1:
                    a = r[2][0]
                    if a[0] == "field" and a[2] == "0" and a[1][0] == "downcast" and a[1][1] == ("param", 1):
                        continue
                good = False
            if good:
                chk.ok("C09.impl", tag, {"impl": tag, "returns": [mir.show(r) for r in rets]})
            else:
                chk.violation("C09.impl", tag, "PegPosition::position does not return the node's own stored range: %s" % [mir.show(r) for r in rets], cx.site(b))
    chk.floor("C09.impl", "PegPosition impls", n, 7)


def run(cx, chk):
    chk.explanation = (
        "Dataflow identities: in every @position / @string wrapper the range (and string slice) is measured by "
        "range_until/slice_until(entry state of the rule, state of the body's Ok) inside the map_with_state callback applied to "
        "the body evaluated from a clone of that same entry state, and stored unchanged in `position`; the runtime functions are "
        "exactly start_index..start_index / partial_string[..difference] / state-preserving maps; PegPosition returns the stored "
        "range. Byte exactness then follows from the cursor invariant (C04.cursor); 'after the caller's whitespace' is C08.")
    chk.assumptions = ["nesting/ordering of ranges follows from state threading (C01) and is not separately decided"]
    check_pair(cx, chk)
    check_rt(cx, chk)
    check_impl(cx, chk)
    # byte exactness of every measured offset rests on the cursor invariant: start_index and partial_string move by the
    # same number of BYTES in every constructor / advance (shared rule C04.cursor)
    from . import c04
    c04.check_cursor(cx, chk, cx.runtime, "runtime")
    if "C04.cursor" in chk.rules:
        chk.rules["C09.cursor"] = chk.rules.pop("C04.cursor")
