"""C09 — @position ranges are exactly the consumed span.

pair : every range_until / slice_until in generated code is taken between the rule's
       entry state (the one whose clone is handed to the body) and the state of the
       body's Ok, inside the map_with_state callback of that same body result.
rt   : range_until, slice_until, map_with_state and map are the documented identities.
impl : PegPosition::position returns &self.position or delegates per variant.
"""
from .. import mir
from ..mir import short, last, strip, walk, norm, is_call
from . import common

LEVEL = "other"


def check_pair(cx, chk):
    """Every range_until / slice_until of generated code measures from the rule's entry state to the state the rule body ended
    in, and its value is what the rule returns as `position` / as its string - read off the semantic summary of the wrappers."""
    from . import wrapsem, semspec
    from .. import sem
    P1 = mir.mk("param", 1)
    views = wrapsem.rule_views(cx)
    n_range = n_slice = 0
    positioned = 0
    for inst in cx.instances():
        pos_types = set()
        for p, adt in inst.crate.adts.items():
            if p.startswith(inst.outer + "::") and "::" not in p[len(inst.outer) + 2:]:
                for v_ in adt["variants"]:
                    if any(f["name"] == "position" and "Range<usize>" in f["ty"] for f in v_["fields"]):
                        pos_types.add(last(p))
        seen_for = set()
        rule_paths = set(inst.rule_fns.values())
        # measurements outside rule wrappers
        for p, f in sorted(inst.fns.items()):
            if "mir" not in f or any(p == rp or p.startswith(rp + "::") for rp in rule_paths):
                continue
            b = cx.body(inst.crate, p)
            for i, t in b.calls():
                fn = t["func"]
                if not fn.get("indirect") and last(fn["path"]) in ("range_until", "slice_until") and "ParseState" in fn["path"]:
                    chk.violation("C09.pair", "%s %s outside a rule wrapper" % (inst.name, short(p)), "a position / slice is measured outside a rule wrapper", cx.site(b, i))
        for rule in sorted(inst.rule_fns):
            v = views.get((inst.name, rule))
            if v is None or v.sm is None:
                if v is not None and v.path is not None and any(last(t["func"]["path"]) in ("range_until", "slice_until") for q in inst.fns if q.startswith(v.path) and "mir" in inst.fns[q]
                                                              for _, t in cx.body(inst.crate, q).calls() if not t["func"].get("indirect")):
                    chk.violation("C09.pair", "%s/%s unsummarised" % (inst.name, rule), "a wrapper that measures positions could not be summarised: %s" % v.problem)
                continue
            all_pairs = [pr for leaf in v.leaves for pr in v.mapped(leaf)]
            for leaf in v.leaves:
                ms = [ev for ev in leaf.trace if ev[0][0] == "call" and last(ev[0][1]) in ("range_until", "slice_until") and "ParseState" in ev[0][1]]
                if not ms:
                    continue
                oks = [bev[0] for (_, bev) in v.body_events(leaf) if semspec.discr_case(leaf, bev[0]) == 0]
                pairs = all_pairs
                for ev in ms:
                    t = ev[0]
                    nm = last(t[1])
                    tag = "%s/parse_%s %s" % (inst.name, rule, nm)
                    if nm == "range_until":
                        n_range += 1
                    else:
                        n_slice += 1
                    problems = []
                    A, B = t[2]
                    if A != P1:
                        problems.append("start state %s is not the rule's entry state" % mir.show(A)[:80])
                    ends = {mir.mk("field", mir.mk("field", mir.mk("downcast", R, "Ok"), "0"), "state") for R in oks}
                    if not ends:
                        problems.append("the body is not evaluated from the rule's entry state on a path that measures a position")
                    elif B not in ends:
                        problems.append("end state %s is not the state the rule body ended in" % mir.show(B)[:80])
                    # where does the value go?
                    stored = False
                    for (R, X) in pairs:
                        val = sem.get_field(X, "result")
                        if nm == "range_until":
                            if val[0] == "agg" and dict(val[3]).get("position") == t:
                                stored = True
                                seen_for.add(last(val[1]))
                        else:
                            if any(s_ == t for s_ in walk(val)):
                                stored = True
                    if pairs and not stored:
                        problems.append("the %s is not stored (unchanged) in the value the rule returns" % ("range" if nm == "range_until" else "slice"))
                    if problems:
                        for pr in sorted(set(problems)):
                            chk.violation("C09.pair", "%s %s" % (tag, pr.split(":")[0][:80]), pr, cx.site(v.body))
                    else:
                        chk.ok("C09.pair", tag, {"rule": "%s/%s" % (inst.name, rule), "call": "%s(entry, body_ok_state)" % nm})
        for tname in sorted(pos_types):
            positioned += 1
            if tname not in seen_for:
                chk.violation("C09.pair", "%s/%s position-not-measured" % (inst.name, tname),
                              "type %s has a `position` field but no range_until(entry, end) feeds it" % tname)
    chk.floor("C09.pair", "range_until sites", n_range, 3)
    chk.floor("C09.pair", "slice_until sites", n_slice, 6)
    chk.floor("C09.pair", "types with a position field", positioned, 6)


def ret(cx, crate, suffix):
    ps = [p for p in crate.fns if mir.strip_generics(p).endswith(suffix)]
    if not ps:
        return None, None
    b = cx.body(crate, ps[0])
    ds = b.defs.get(0, [])
    if len(ds) != 1:
        return b, None
    return b, norm(b.expr_rv(ds[0][3]) if ds[0][2] == "rv" else b.expr_call(ds[0][3]))


def check_rt(cx, chk):
    rt = cx.runtime
    me, ot = ("param", 1), ("param", 2)
    b, e = ret(cx, rt, "ParseState::range_until")
    if b is None:
        chk.anchor_missing("C09.rt", "ParseState::range_until")
    elif e and e[0] == "agg" and e[2] == "Range" and dict(e[3]) == {"start": ("field", me, "start_index"), "end": ("field", ot, "start_index")}:
        chk.ok("C09.rt", "range_until", {"range_until": mir.show(e)})
    else:
        chk.violation("C09.rt", "range_until", "range_until is not self.start_index..other.start_index: %s" % (mir.show(e) if e else "?"), cx.site(b))
    b, e = ret(cx, rt, "ParseState::slice_until")
    if b is None:
        chk.anchor_missing("C09.rt", "ParseState::slice_until")
    else:
        good = False
        if e and is_call(e, "index") and len(e[2]) == 2 and e[2][0] == ("field", me, "partial_string"):
            r = e[2][1]
            if r[0] == "agg" and r[2] == "RangeTo":
                end = r[3][0][1]
                if end[0] == "field" and end[2] == "0":
                    end = end[1]
                if end[0] == "binop" and end[1] in ("Sub", "SubWithOverflow") and end[2] == ("field", ot, "start_index") and end[3] == ("field", me, "start_index"):
                    good = True
                if is_call(end, "saturating_sub", "wrapping_sub") and tuple(end[2]) == (("field", ot, "start_index"), ("field", me, "start_index")):
                    good = True
        if good:
            chk.ok("C09.rt", "slice_until", {"slice_until": mir.show(e)})
        else:
            chk.violation("C09.rt", "slice_until", "slice_until is not partial_string[..other.start_index - self.start_index]: %s" % (mir.show(e) if e else "?"), cx.site(b))
    from .. import sem
    from . import semspec
    S = sem.Sem(cx, rt)
    for nm, want_args in (("ParseOk::map_with_state", 2), ("ParseOk::map", 1)):
        p = semspec.find_fn(rt, nm)
        if p is None:
            chk.anchor_missing("C09.rt", nm)
            continue
        b = cx.body(rt, p)
        try:
            sm = S.summarize(p)
        except sem.SemLimit as ex:
            chk.violation("C09.rt", nm, "%s could not be summarised: %s" % (nm, ex), cx.site(b))
            continue
        probs = []
        for leaf in sm.leaves:
            if leaf.kind != "return":
                probs.append("a path ends in a %s" % leaf.kind)
                continue
            fs = semspec.fields(leaf.ret, ["result", "state"])
            if fs["state"] != mir.mk("field", me, "state"):
                probs.append("state becomes %s" % mir.show(fs["state"])[:100])
            res = fs["result"]
            want = (mir.mk("field", me, "result"),) + ((mir.mk("field", me, "state"),) if want_args == 2 else ())
            if not (res[0] == "icall" and res[1] == ot and tuple(res[2]) == want):
                probs.append("result becomes %s" % mir.show(res)[:100])
        if not probs:
            chk.ok("C09.rt", nm, {nm: "ParseOk{result: f(self.result%s), state: self.state}" % (", &self.state" if want_args == 2 else "")})
        else:
            chk.violation("C09.rt", nm, "%s does not keep the state and map only the result: %s" % (nm, sorted(set(probs))), cx.site(b))


def check_impl(cx, chk):
    n = 0
    for inst in cx.instances():
        for p, f in inst.crate.fns.items():
            if "mir" not in f or last(p) != "position" or "PegPosition" not in p or not inst.owns_impl(p):
                continue
            n += 1
            b = cx.body(inst.crate, p)
            tag = "%s %s" % (inst.name, mir.qself(p)[0])
            rets = []
            for d in b.defs.get(0, []):
                rets.extend(b.alternatives(b.expr_rv(d[3]) if d[2] == "rv" else b.expr_call(d[3])))
            good = bool(rets)
            for r in rets:
                if r == ("field", ("param", 1), "position"):
                    continue
                if is_call(r, "position") and len(r[2]) == 1:
                    a = r[2][0]
                    if a[0] == "field" and a[2] == "0" and a[1][0] == "downcast" and a[1][1] == ("param", 1):
                        continue
                good = False
            if good:
                chk.ok("C09.impl", tag, {"impl": tag, "returns": [mir.show(r) for r in rets]})
            else:
                chk.violation("C09.impl", tag, "PegPosition::position does not return the node's own stored range: %s" % [mir.show(r) for r in rets], cx.site(b))
    chk.floor("C09.impl", "PegPosition impls", n, 7)


def run(cx, chk):
    chk.explanation = (
        "Dataflow identities: in every @position / @string wrapper the range (and string slice) is measured by "
        "range_until/slice_until(entry state of the rule, state of the body's Ok) inside the map_with_state callback applied to "
        "the body evaluated from a clone of that same entry state, and stored unchanged in `position`; the runtime functions are "
        "exactly start_index..start_index / partial_string[..difference] / state-preserving maps; PegPosition returns the stored "
        "range. Byte exactness then follows from the cursor invariant (C04.cursor); 'after the caller's whitespace' is C08.")
    chk.assumptions = ["nesting/ordering of ranges follows from state threading (C01) and is not separately decided"]
    check_pair(cx, chk)
    check_rt(cx, chk)
    check_impl(cx, chk)
    # byte exactness of every measured offset rests on the cursor invariant: start_index and partial_string move by the
    # same number of BYTES in every constructor / advance (shared rule C04.cursor)
    from . import c04
    c04.check_cursor(cx, chk, cx.runtime, "runtime")
    if "C04.cursor" in chk.rules:
        chk.rules["C09.cursor"] = chk.rules.pop("C04.cursor")
    # byte ranges are ranges of the string the caller passed: the friendly entry points hand it on unchanged (shared with C01.entry)
    from . import c05
    c05.check_entry_wrappers(cx, chk, "C09.entry")
    # "the start is after whitespace the caller skipped": every reference made by a skipping rule is preceded by the skip, in the
    # caller (shared with C08.inst: the whitespace skeleton of every lifted rule equals its grammar's)
    from . import c08
    c08.check_shadow_and_inst(cx, chk)
    for k_ in [k_ for k_ in chk.rules if k_.startswith("C08.")]:
        chk.rules["C09.skip" + k_[len("C08"):].replace(".inst", "")] = chk.rules.pop(k_)
