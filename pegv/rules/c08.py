"""C08 — whitespace is skipped before every token of skipping rules and nowhere else.

Generator level (for all grammars):
flag   : CodegenSettings.skip_whitespace is written only by Default (true) and by the rule
         generator as `settings.skip_whitespace && !flags.no_skip_ws`; read only there and
         in the skip helper.
thread : every function that receives settings passes on exactly its own settings; the rule
         generator passes the per-rule value it built.
route  : atom parser names reach generated code only through the skip helper (exceptions:
         @char alternatives; rule function definitions / entry calls).
tmpl   : the skip helper emits `parse_Whitespace(S, global).and_then(|ParseOk{state,..}| atom(state, args))`
         when the flag is set and `atom(S, args)` otherwise.
guard  : a rule named Whitespace without @no_skip_ws is rejected.
Runtime / instances:
set    : the builtin skipper's byte class is {9,10,12,13,32}.
shadow : a grammar-defined Whitespace rule shadows the builtin everywhere in its module.
inst   : in every analysed rule, atom calls are (exactly) the continuations of a whitespace
         skip when the rule skips, and there is no skip at all when it does not.
"""
import itertools
import re

from .. import mir, finite
from ..mir import short, last, strip, walk, norm, is_call
from . import common, templates, c14

LEVEL = "other"


def is_settings_ty(ty):
    return ty.replace(" ", "").endswith("CodegenSettings") and ty.startswith("&")


def codegen_bodies(cx):
    cg = cx.codegen
    for p, f in sorted(cg.fns.items()):
        if "mir" not in f or "::grammar::generated::" in p:
            continue
        yield p, cx.body(cg, p)


def check_flag(cx, chk):
    cg = cx.codegen
    acc = c14.field_accesses(cx, cg, "CodegenSettings", "skip_whitespace")
    writers = [(p, i, k, e) for (p, i, k, e) in acc if k in ("write", "init")]
    readers = sorted({short(p) for (p, i, k, e) in acc if k == "read" and "fmt::Debug" not in p})
    rule_gen = None
    done_writers = set()
    for (p, i, k, e) in writers:
        sp = short(p)
        if sp == "Default::default":
            if e == ("const", "bool", True):
                chk.ok("C08.flag", "Default", {"writer": sp, "value": True})
            else:
                chk.violation("C08.flag", "Default value", "default settings do not skip whitespace: %s" % mir.show(e))
        elif sp == "Clone::clone":
            continue
        else:
            # must be the per-rule derivation: decided on the semantic summary of the writing function - every settings value it
            # hands on has skip_whitespace == (incoming skip_whitespace && !flags.no_skip_ws), over the four assignments
            if p in done_writers:
                continue
            done_writers.add(p)
            from .. import sem
            from . import semspec
            b = cx.body(cg, p)
            own = [k for k in range(1, b.arg_count + 1) if is_settings_ty(b.ty(k))]
            good = False
            detail = None
            try:
                sm = sem.Sem(cx, cg, max_leaves=4000).summarize(p)
            except sem.SemLimit as ex:
                sm = None
                detail = str(ex)
            if sm is not None and own:
                PS = mir.mk("param", own[0])
                SW = mir.mk("field", PS, "skip_whitespace")
                ns_atoms = {a_ for l in sm.leaves for (a_, v_) in l.assume if a_[0] == "field" and a_[2] == "no_skip_ws"}
                ns_vals = {s_ for l in sm.leaves for ev in l.trace for s_ in walk(ev[0]) if s_[0] == "field" and s_[2] == "no_skip_ws"}
                NSs = list(ns_atoms | ns_vals)
                table = {}
                handovers = 0
                probs = []

                def is_settings_value(v):
                    x = v
                    while x[0] == "upd":
                        x = x[1]
                    return x == PS or (x[0] == "agg" and x[1].endswith("CodegenSettings")) or (v[0] == "agg" and v[1].endswith("CodegenSettings"))
                if len(NSs) == 1 and is_call(NSs[0][1], "flags"):
                    NS = NSs[0]
                    for sw in (False, True):
                        for ns in (False, True):
                            env = {SW: sw, NS: ns}
                            ls, unknown = semspec.select_leaves([l for l in sm.leaves if l.kind == "return"], env)
                            vals = set()
                            for l in ls:
                                for ev in l.trace:
                                    t = ev[0]
                                    if t[0] != "call" or last(t[1]) in ("clone", "fmt", "flags"):
                                        continue
                                    for a_ in t[2]:
                                        if isinstance(a_, tuple) and a_ and is_settings_value(a_):
                                            handovers += 1
                                            fv = sem.get_field(a_, "skip_whitespace")
                                            r = semspec.eval_term(fv, env)
                                            vals.add(r)
                                            if r != (sw and not ns):
                                                probs.append("%s receives skip_whitespace=%s when incoming=%s, no_skip_ws=%s" % (short(t[1]), r, sw, ns))
                            table[(sw, ns)] = sorted(map(str, vals))
                    detail = {str(k): v for k, v in table.items()}
                    good = handovers > 0 and not probs
                    if probs:
                        detail = sorted(set(probs))[:3]
                else:
                    detail = "no_skip_ws reads: %s" % [mir.show(x) for x in NSs]
            if good:
                rule_gen = p
                chk.ok("C08.flag", "per-rule derivation", {"writer": short(p), "truth_table(sw,no_skip)": detail})
            else:
                chk.violation("C08.flag", "writer %s" % short(p),
                              "skip_whitespace is written by %s and the settings it hands on do not carry `settings.skip_whitespace && !flags.no_skip_ws` "
                              "(decided over the 4 assignments): %s" % (short(p), detail), cx.site(cx.body(cg, p), i))
    if rule_gen is None:
        chk.anchor_missing("C08.flag", "per-rule derivation of skip_whitespace")
    allowed_readers = {"generate_skip_ws", "Clone::clone"}
    for r in readers:
        if r.split("::")[-1] in ("generate_skip_ws", "clone") or (rule_gen and r == short(rule_gen)):
            continue
        chk.violation("C08.flag", "reader %s" % r, "skip_whitespace is read in %s (only the rule generator and the skip helper may decide on it)" % r)
    if not any(r.endswith("generate_skip_ws") for r in readers):
        chk.anchor_missing("C08.flag", "skip helper reading skip_whitespace")
    return rule_gen


def check_thread(cx, chk, rule_gen):
    cg = cx.codegen
    n = 0
    for p, b in codegen_bodies(cx):
        if "buildscript" in p:
            continue
        root_path = p.split("::{closure")[0]
        rb = cx.body(cg, root_path) if root_path in cg.fns and "mir" in cg.fns[root_path] else b
        own = [k for k in range(1, rb.arg_count + 1) if is_settings_ty(rb.ty(k))]
        if not own:
            continue
        for i, t in b.calls():
            if t["func"].get("indirect"):
                continue
            for ai, a in enumerate(t["args"]):
                if "place" not in a:
                    continue
                ty = b.ty(a["place"]["l"]) if not a["place"]["p"] else None
                if ty is None or not is_settings_ty(ty):
                    continue
                n += 1
                e = norm(b.expr_op(a))
                xb, root = common.capture_root(cx, cg, b, e)
                callee = short(t["func"]["path"])
                tag = "%s -> %s" % (short(p), callee)
                if callee in ("Clone::clone",) or last(t["func"]["path"]) in ("clone", "fmt"):
                    continue
                if root_path == rule_gen:
                    # every settings value the rule generator hands on is evaluated by C08.flag (truth table over the summary)
                    chk.ok("C08.thread", tag, {"fn": short(p), "callee": callee, "passes": "per-rule settings (C08.flag)"})
                elif root[0] == "param" and root[1] in own and xb.path == root_path:
                    chk.ok("C08.thread", tag, {"fn": short(p), "callee": callee, "passes": "own parameter"})
                else:
                    chk.violation("C08.thread", tag, "%s passes settings %s to %s instead of the settings it received: the callee "
                                  "would be generated under another rule's / default whitespace mode" % (short(p), mir.show(root), callee),
                                  cx.site(b, i))
    chk.floor("C08.thread", "settings hand-overs", n, 50)
    # CodegenSettings values are only built in Default, Clone, the rule generator (and set up by builders)
    for p, b in codegen_bodies(cx):
        for i in b.reach:
            for st in b.blocks[i]["stmts"]:
                if st["k"] == "assign" and st["rv"]["k"] == "agg" and st["rv"].get("adt", "").endswith("CodegenSettings"):
                    if short(p) not in ("Default::default", "Clone::clone") and p != rule_gen:
                        chk.violation("C08.thread", "%s builds settings" % short(p), "CodegenSettings constructed in %s" % short(p), cx.site(b, i))


def atom_names(cx):
    rt = cx.runtime
    names = set()
    for p, f in rt.fns.items():
        if "::builtin_parsers::" in p and f["kind"] == "Fn" and f.get("vis") == "Public" and last(p).startswith("parse_"):
            names.add(last(p))
    return names


def check_route(cx, chk):
    cg = cx.codegen
    names = atom_names(cx) - {"parse_Whitespace"}
    if len(names) < 7:
        chk.anchor_missing("C08.route", "public terminal matchers of the runtime")
    helper = [p for p in cg.fns if last(p) == "generate_skip_ws"]
    if not helper:
        chk.anchor_missing("C08.route", "generate_skip_ws")
        return
    n = 0
    for p, b in codegen_bodies(cx):
        evs = templates.events(cx, cg, b)
        # direct emission
        for ev in evs:
            if ev["kind"] == "ident" and ev.get("text") in names:
                n += 1
                if "char_rule" in p:
                    chk.ok("C08.route", "%s emits %s" % (short(p), ev["text"]),
                           {"fn": short(p), "ident": ev["text"], "allowed": "@char alternatives are single-character attempts at one offset; a char rule never skips"})
                else:
                    chk.violation("C08.route", "%s emits %s" % (short(p), ev["text"]),
                                  "the atom parser %s is emitted directly by %s, bypassing the whitespace-skip helper" % (ev["text"], short(p)),
                                  cx.site(b, ev["bb"]))
        # names as strings: must flow into generate_skip_ws's name parameter
        pushed = {ev["bb"] for ev in evs if ev["kind"] == "ident"}
        for (i, l, v) in templates.str_consts(b):
            if i in pushed:
                continue
            if v in names or v == "parse_":
                n += 1
                okflow = False
                # on the semantic summary: every event that carries this name hands it to the skip helper as the parser name
                if v in names and "{closure" not in p:
                    try:
                        from .. import sem as _sem
                        sm_, sels = templates.matcher_selections(cx, cg, p)
                        mine = [(nm_, ev_) for (lf_, nm_, vals_, ev_) in sels if nm_ == v]
                        if mine and all(last(ev_[0][1]) == "generate_skip_ws" and len(ev_[0][2]) >= 2 and ev_[0][2][1] == ("const", "str", v) for (nm_, ev_) in mine):
                            okflow = True
                    except Exception:
                        pass
                for j, t in b.calls():
                    if last(t["func"]["path"]) == "generate_skip_ws" and len(t["args"]) >= 2:
                        a = norm(b.expr_op(t["args"][1]))
                        vals = b.alternatives(a)
                        if any(x == ("const", "str", v) for x in vals):
                            okflow = True
                        if a[0] == "local" and any(d[0] == i for d in b.defs.get(a[1], [])):
                            okflow = True
                if okflow:
                    chk.ok("C08.route", "%s name %s" % (short(p), v), {"fn": short(p), "name": v, "flows_to": "generate_skip_ws(parse_fn_name)"})
                elif v == "parse_":
                    pass
                else:
                    chk.violation("C08.route", "%s name %s" % (short(p), v), "the atom parser name %s in %s does not flow into the skip helper" % (v, short(p)), cx.site(b, i))
        # format!("parse_{}") / format_ident!("parse_{}"): identifiers for rule functions
        for j, t in b.calls():
            f = t["func"]
            if f.get("indirect"):
                continue
            if last(f["path"]) == "mk_ident":
                e = norm(b.expr_op(t["args"][0]))
                txt = mir.show(e)
                if "parse_" in txt:
                    n += 1
                    fnn = short(p).split("::")[-1] if not p.endswith("}") else short(p)
                    # role of the identifier, read off the tokens of the function that builds it: a definition (`fn #name`), the entry
                    # call inside the exported `parse_advanced`, or an alternative of a @char rule (which never skips)
                    idents = [ev.get("text") for ev in evs if ev["kind"] == "ident"]
                    defines = "fn" in idents and any(ev["kind"] == "hole" for ev in evs)
                    if not defines:
                        # the name is handed to a local helper that emits `fn #name ..`
                        for _, t2 in b.calls():
                            f2 = t2["func"]
                            tgt = None if f2.get("indirect") else (f2.get("resolved") or f2["path"])
                            if tgt in cg.fns and "mir" in cg.fns[tgt] and tgt != p:
                                evs2 = templates.events(cx, cg, cx.body(cg, tgt))
                                if any(ev["kind"] == "ident" and ev.get("text") == "fn" for ev in evs2) and any(ev["kind"] == "hole" for ev in evs2):
                                    defines = True
                    role = None
                    if "parse_advanced" in idents:
                        role = "entry call of the exported parser"
                    elif defines:
                        role = "rule function definition"
                    elif "char_rule" in p or "CharRule" in p:
                        role = "@char alternative"
                    if role:
                        chk.ok("C08.route", "%s parse_ ident" % short(p), {"fn": short(p), "role": role})
                    else:
                        chk.violation("C08.route", "%s builds parse_ identifier" % short(p),
                                      "%s builds a `parse_<Rule>` identifier itself instead of going through the skip helper" % short(p), cx.site(b, j))
    chk.floor("C08.route", "atom-name sites", n, 7)


def check_tmpl(cx, chk):
    cg = cx.codegen
    hp = [p for p in cg.fns if last(p) == "generate_skip_ws" and "mir" in cg.fns[p]]
    if not hp:
        chk.anchor_missing("C08.tmpl", "generate_skip_ws")
        return
    b = cx.body(cg, hp[0])
    evs = templates.events(cx, cg, b)
    rows = finite.return_table(b)
    seen = {}

    def pairs(toks, out=None):
        """(token, the group that follows it or None, position) for every token, groups included, in emission order."""
        out = out if out is not None else []
        for k, t in enumerate(toks):
            nxt = toks[k + 1] if k + 1 < len(toks) and toks[k + 1][0] == "group" else None
            out.append((t, nxt))
            if t[0] == "group":
                pairs(t[2], out)
        return out

    def state_hole_ok(st):
        # the state hole: a local holding the tokens `state` or `state.clone()` depending on clone_state
        if st[0] != "local":
            return False
        alts = set()
        for d in b.defs.get(st[1], []):
            src = norm(b.expr_rv(d[3])) if d[2] == "rv" else None
            if src is not None and src[0] == "local":
                alts.add(templates.show_tokens(templates.stream_tokens(b, evs, src[1])))
        return alts >= {"state"} and all(a_.replace(" ", "") in ("state", "state.clone()") for a_ in alts)
    for (atoms, v, pth) in rows:
        flag = [val for (e, val) in atoms if e[0] == "field" and e[2] == "skip_whitespace"]
        if len(flag) != 1 or v is None:
            continue
        S = v
        if S[0] != "local":
            chk.violation("C08.tmpl", "return-shape", "skip helper does not return a quoted token stream: %s" % mir.show(S), cx.site(b))
            continue
        toks = templates.stream_tokens(b, evs, S[1])
        ps_ = pairs(toks)
        is_fn = lambda t: t[0] == "hole" and is_call(t[1], "safe_ident") and t[1][2] and t[1][2][0] == ("param", 2)
        ws = [(k, t, g) for k, (t, g) in enumerate(ps_) if t == ("ident", "parse_Whitespace")]
        fns = [(k, t, g) for k, (t, g) in enumerate(ps_) if is_fn(t)]
        probs = []
        if len(fns) != 1 or fns[0][2] is None:
            probs.append("the atom parser `#parse_fn_ident(..)` is not called exactly once")
        else:
            fk, ft, fg = fns[0]
            inner = fg[2]
            first = inner[0] if inner else None
            has_params = any(t == ("hole", ("param", 3)) for (t, g) in pairs(inner))
            if not has_params:
                probs.append("the additional parameters are not passed to the atom parser")
            if flag[0]:
                if len(ws) != 1 or ws[0][2] is None:
                    probs.append("the whitespace skipper is not called exactly once")
                else:
                    wk, wt, wg = ws[0]
                    w_first = wg[2][0] if wg[2] else None
                    if not (w_first is not None and w_first[0] == "hole" and state_hole_ok(w_first[1])):
                        probs.append("the whitespace skipper is not started from the incoming state")
                    if wk > fk:
                        probs.append("the atom parser is emitted before the whitespace skipper")
                    if first is None or first[0] != "ident" or first[1] in ("state",) and False:
                        probs.append("the atom parser does not start from a state bound from the skipper's result: %s" % (templates.show_tokens([first]) if first else "?"))
                    elif first[0] == "hole":
                        probs.append("the atom parser starts from the incoming state, not from the skipped one")
            else:
                if ws:
                    probs.append("whitespace is skipped although skip_whitespace is false")
                if not (first is not None and first[0] == "hole" and state_hole_ok(first[1])):
                    probs.append("the atom parser is not started from the incoming state")
        key = "flag=%s" % flag[0]
        if not probs:
            seen[key] = templates.show_tokens(toks)
        else:
            chk.violation("C08.tmpl", key, "the skip helper's template for skip_whitespace=%s: %s - %s"
                          % (flag[0], "; ".join(probs), templates.show_tokens(toks)[:300]), cx.site(b))
    for key in ("flag=True", "flag=False"):
        if key in seen:
            chk.ok("C08.tmpl", key, {"branch": key, "template": seen[key]})
        elif not any(v["key"].endswith(key) for v in chk.violations):
            chk.violation("C08.tmpl", key + " missing", "no template found for %s" % key, cx.site(b))


def check_guard(cx, chk):
    cg = cx.codegen
    found = False
    for p, b in codegen_bodies(cx):
        for d in b.defs.get(0, []):
            if d[2] != "rv":
                continue
            e = norm(b.expr_rv(d[3]))
            if not (e[0] == "agg" and e[2] == "Err"):
                continue
            at = b.atoms(d[0])
            name_eq = [a for (a, v, _) in at if v is True and is_call(a, "eq") and any(x == ("const", "str", "Whitespace") for x in walk(a))]
            nsw = [a for (a, v, _) in at if v is False and a[0] == "field" and a[2] == "no_skip_ws"]
            if name_eq and nsw:
                found = True
                chk.ok("C08.guard", short(p), {"fn": short(p), "rejects": "name == \"Whitespace\" && !no_skip_ws"})
    if not found:
        chk.violation("C08.guard", "missing", "no error return is control-dependent on (rule name == \"Whitespace\" and not @no_skip_ws): "
                      "a skipping Whitespace rule would recurse into itself")


WS_SET = {9, 10, 12, 13, 32}


def check_set(cx, chk):
    """The builtin skipper, read off its semantic summary: every trip round its loop has assumed that the first byte is one of
    the five ASCII whitespace bytes and advances the state by exactly one byte; every exit returns Ok."""
    from .. import sem
    rt = cx.runtime
    ps = [p for p in rt.fns if p.endswith("builtin_parsers::parse_Whitespace")]
    if not ps:
        chk.anchor_missing("C08.set", "runtime parse_Whitespace")
        return
    b = cx.body(rt, ps[0])
    S = sem.Sem(cx, rt, inline=lambda p: p in rt.fns and "mir" in rt.fns[p] and not rt.fns[p].get("unsafe") and "{closure" not in p)
    try:
        sm = S.summarize(ps[0])
    except sem.SemLimit:
        sm = None
    if sm is None or not sm.loopbacks:
        chk.violation("C08.set", "shape", "builtin whitespace skipper does not summarise to a loop", cx.site(b))
        return
    always_ok = all(l.ret is not None and l.ret[0] == "agg" and l.ret[2] == "Ok" for l in sm.returns) and bool(sm.returns) and \
        not any(l.kind == "panic" for l in sm.leaves)
    cls = set()
    lengths = set()
    for l in sm.loopbacks:
        mine = None
        for (e, v) in l.assume:
            if v is True and is_call(e, "is_ascii_whitespace"):
                mine = set(WS_SET)
            elif v is True and is_call(e, "is_whitespace"):
                mine = "unicode"
            elif e[0] == "index" and isinstance(v, int) and not isinstance(v, bool):
                mine = {v}
            elif v is True and e[0] == "binop" and e[1] == "Eq":
                for x, y in ((e[2], e[3]), (e[3], e[2])):
                    if x[0] == "const" and isinstance(x[2], int) and y[0] == "index":
                        mine = {x[2]}
        if mine == "unicode" or cls == "unicode":
            cls = "unicode"
        elif mine is None:
            cls = "unconditional"
            break
        else:
            cls |= mine
        advs = [x for x in walk(l.ret) if is_call(x, "advance", "advance_safe") and len(x[2]) == 2]
        lengths |= {x[2][1] for x in advs} or {None}
    length = lengths.pop() if len(lengths) == 1 else None
    if cls == WS_SET and length == ("const", "usize", 1) and always_ok:
        chk.ok("C08.set", "builtin", {"byte_class": sorted(WS_SET), "advance": 1, "never_fails": True, "trips": len(sm.loopbacks)})
    else:
        chk.violation("C08.set", "byte-class", "the builtin skipper's class is %s (expected the five ASCII whitespace bytes "
                      "9,10,12,13,32), advance=%s, always Ok=%s" % (sorted(cls) if isinstance(cls, set) else cls, mir.show(length) if length else lengths, always_ok), cx.site(b))


def skeleton(t):
    """The whitespace skeleton of a canonical parser term: structure and skip items kept, every other leaf is `atom`."""
    if not isinstance(t, tuple) or not t:
        return t
    k = t[0]
    if t == ("ref", "Whitespace"):
        return t
    if k in ("seq", "choice"):
        return (k, tuple(skeleton(x) for x in t[1]))
    if k in ("opt", "star", "plus", "not", "and"):
        return (k, skeleton(t[1]))
    if k == "empty":
        return t
    return ("ref", "atom")


def count_ws(t):
    if not isinstance(t, tuple) or not t:
        return 0
    if t == ("ref", "Whitespace"):
        return 1
    if t[0] in ("seq", "choice"):
        return sum(count_ws(x) for x in t[1])
    if t[0] in ("opt", "star", "plus", "not", "and"):
        return count_ws(t[1])
    return 0


def check_shadow_and_inst(cx, chk):
    from .. import lift, lift2
    lifters = {}
    n_skip = n_noskip = 0
    atoms = atom_names(cx) - {"parse_Whitespace"}
    for inst in cx.instances():
        own_ws = "Whitespace" in inst.rule_fns
        # per rule: does any function under <Rule>_impl call a whitespace skipper?
        by_rule = {}
        for p, f in inst.fns.items():
            if "mir" not in f:
                continue
            rest = p[len(inst.prefix) + 2:]
            head = rest.split("::")[0]
            if not head.endswith("_impl"):
                continue
            by_rule.setdefault(head[:-5], []).append(p)
        for rule, paths in sorted(by_rule.items()):
            ws_calls = []
            atom_calls = []
            for p in paths:
                b = cx.body(inst.crate, p)
                for i, t in b.calls():
                    f = t["func"]
                    if f.get("indirect"):
                        continue
                    l = last(f["path"])
                    if l == "parse_Whitespace":
                        ws_calls.append((b, i, t))
                        if own_ws and not f["path"].startswith(inst.prefix):
                            chk.violation("C08.shadow", "%s/%s builtin-skipper" % (inst.name, rule),
                                          "the grammar defines its own Whitespace rule but %s calls the builtin skipper" % rule, cx.site(b, i))
                        if not own_ws and f["krate"] != "peginator":
                            chk.violation("C08.shadow", "%s/%s foreign-skipper" % (inst.name, rule), "whitespace skipper resolves to %s" % f["path"], cx.site(b, i))
                    elif l in atoms or (l.startswith("parse_") and mir.strip_generics(f["path"]) == inst.prefix + "::" + l) or l == "parse_char":
                        atom_calls.append((b, i, t))
            tag = "%s/%s" % (inst.name, rule)
            # oracle: the grammar text says which rules skip; the generated side is the lifted term of the rule (lift2), both
            # projected onto their whitespace skeleton (every terminal / rule reference becomes `atom`)
            g = cx.grammar_of(inst)
            gr = g.rule(rule) if g is not None else None
            if g is None:
                chk.violation("C08.inst", "%s grammar-unreadable" % inst.name, "cannot read the grammar of %s" % inst.name)
                continue
            if gr is None or gr.kind != "rule":
                continue
            want_skip = "no_skip_ws" not in gr.flags
            L = lifters.get(inst.name)
            if L is None:
                L = lifters[inst.name] = lift2.Lifter(cx, inst)
            try:
                got = L.lift_rule(rule)
                want = lift2.canon(lift.expected_rule_term(g, gr))
            except lift.Unliftable as ex:
                chk.violation("C08.inst", "%s UNLIFTABLE" % tag, "the rule's generated code could not be lifted to a parser term: %s" % ex)
                continue
            sg, sw = skeleton(got), skeleton(want)
            if want_skip:
                n_skip += 1
            else:
                n_noskip += 1
            if sg == sw:
                chk.ok("C08.inst", tag + (" skip" if want_skip else " noskip"), {"rule": tag, "skips": count_ws(sg)})
            else:
                skips_g, skips_w = count_ws(sg), count_ws(sw)
                if (skips_g > 0) != (skips_w > 0):
                    chk.violation("C08.inst", "%s mode-mismatch" % tag,
                                  "rule %s is %s in the grammar but its generated code %s whitespace" % (
                                      rule, "skipping" if want_skip else "@no_skip_ws", "skips" if skips_g else "never skips"))
                else:
                    chk.violation("C08.inst", "%s skip-placement" % tag,
                                  "rule %s: whitespace is skipped at other points than before every token: generated %s, grammar %s"
                                  % (rule, lift.show_term(sg)[:160], lift.show_term(sw)[:160]))
    chk.floor("C08.inst", "skipping rules", n_skip, 221)
    chk.floor("C08.inst", "non-skipping rules", n_noskip, 38)
    chk.extra["skipping_rules"] = n_skip
    chk.extra["non_skipping_rules"] = n_noskip


def run(cx, chk):
    chk.explanation = (
        "Decided at generator level, i.e. for all grammars: the per-rule flag is written only as Default=true and as "
        "`settings.skip_whitespace && !flags.no_skip_ws` (truth table over 4 assignments) and read only by the rule generator and "
        "the skip helper; every generator function hands on exactly the settings it received (so optional/closure/lookahead/include "
        "bodies inherit the enclosing rule's flag, an included body the includer's); atom parser names reach the output only "
        "through the skip helper (enumerated exceptions); the helper's two templates are reconstructed from its quote! pushes and "
        "compared token by token; a skipping `Whitespace` rule is rejected. Runtime: the builtin class is the five ASCII bytes. "
        "Instances: in each analysed rule every atom is exactly the continuation of a skip (from the skipper's state) or the rule has no skip at all.")
    chk.assumptions = ["which rules skip (per-rule directive) is compared with the grammar text in the thorough tier (ebnf oracle)"]
    rule_gen = check_flag(cx, chk)
    check_thread(cx, chk, rule_gen)
    check_route(cx, chk)
    check_tmpl(cx, chk)
    check_guard(cx, chk)
    check_set(cx, chk)
    check_shadow_and_inst(cx, chk)
