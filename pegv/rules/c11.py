"""C11 — pretty errors: the no-panic clause only.

found : in the code that turns a ParseError into its pretty form, no `unwrap`/`expect` is applied to the result of a
        search or an iteration (find / position / next / nth / max / min / last / first / get) unless the None case is
        excluded by a dominating test.
NOT decided (and not claimed): which line, which column, where the caret goes - arithmetic over runtime values.
"""
from .. import mir
from ..mir import short, last, strip, walk, norm, is_call
from . import c04

LEVEL = "other"

SEARCHES = ("find", "find_map", "position", "rposition", "next", "next_back", "nth", "max", "min", "max_by_key", "min_by_key", "last", "first", "get", "rfind", "pop", "peek")


def run(cx, chk):
    chk.explanation = (
        "Only the 'never panics' clause of C11 is decided, by a narrow semantic rule over PrettyParseError::from_parse_error, the "
        "line iterator and Display: no unwrap/expect on the result of a search or iteration whose emptiness is not excluded by a "
        "dominating test, and no other explicit panic. Line number, column and caret placement are arithmetic over runtime values "
        "(texts x positions); no sound static argument in reach decides them and they are not claimed.")
    chk.assumptions = ["slice indexing / subtraction inside the line iterator is not part of the rule (a full panic inventory would fire on any correct rewrite of the arithmetic)"]
    rt = cx.runtime
    n = 0
    fns = [p for p, f in rt.fns.items() if "mir" in f and ("PrettyParseError" in p or "IndexedStringLine" in p) and "fmt::Debug" not in p and "Clone" not in short(p)]
    if not any("from_parse_error" in p for p in fns):
        chk.anchor_missing("C11.found", "PrettyParseError::from_parse_error")
    for p in sorted(fns):
        b = cx.body(rt, p)
        for i, t in b.calls():
            f = t["func"]
            if f.get("indirect"):
                continue
            l = last(f["path"])
            if l in ("unwrap", "expect") and ("Option" in f["path"] or "Result" in f["path"]):
                n += 1
                src = norm(b.expr_op(t["args"][0]))
                searched = [s_ for s_ in walk(src) if s_[0] == "call" and last(s_[1]) in SEARCHES]
                guarded = any(v is True and is_call(e, "is_some", "is_ok") for (e, v, d) in b.atoms(i)) or \
                    any(v is False and is_call(e, "is_none", "is_empty", "is_err") for (e, v, d) in b.atoms(i))
                tag = "%s %s(%s)" % (c04.fn_key(p), l, short(searched[0][1]) if searched else "?")
                if searched and not guarded:
                    chk.violation("C11.found", tag,
                                  "%s applies %s() to the result of %s without handling the not-found case: converting an error to its pretty "
                                  "form panics when nothing is found (e.g. the empty text has no line at all)" % (c04.fn_key(p), l, short(searched[0][1])),
                                  cx.site(b, i))
                else:
                    chk.ok("C11.found", tag, {"fn": c04.fn_key(p), "call": l, "on": mir.show(src)[:120]})
            if t["target"] is None and "panic" in f["path"] and not t.get("fn_exp"):
                chk.violation("C11.found", "%s explicit panic" % c04.fn_key(p), "explicit panic in pretty-error code", cx.site(b, i))
        # unwrap_or / unwrap_or_else / map_or are fine: count them as handled searches
        for i, t in b.calls():
            f = t["func"]
            if not f.get("indirect") and last(f["path"]) in ("unwrap_or", "unwrap_or_else", "unwrap_or_default", "map_or", "map_or_else", "ok_or", "ok_or_else"):
                src = norm(b.expr_op(t["args"][0]))
                if any(s_[0] == "call" and last(s_[1]) in SEARCHES for s_ in walk(src)):
                    n += 1
                    chk.ok("C11.found", "%s %s handles not-found" % (c04.fn_key(p), last(f["path"])), {"fn": c04.fn_key(p), "handled_by": last(f["path"])})
    chk.ok("C11.found", "pretty-error functions scanned", {"functions": len(fns), "unwraps_and_handled_searches": n})
    chk.floor("C11.found", "pretty-error functions scanned", len(fns), 2)
