"""C11 — pretty errors: the no-panic clause, and (c11sem.py) the line / column / caret clauses on semantic summaries.

found : in the code that turns a ParseError into its pretty form, no `unwrap`/`expect` is applied to the result of a
        search or an iteration (find / position / next / nth / max / min / last / first / get) unless the None case is
        excluded by a dominating test.
iter / line / col / show : see c11sem.py - decided when the printer has the shape "line-record iterator + find + column search +
        one format call"; reported as *undecided* (never as an alarm) for any other shape.
"""
from .. import mir
from ..mir import short, last, strip, walk, norm, is_call
from . import c04, c11sem

LEVEL = "other"

SEARCHES = ("find", "find_map", "position", "rposition", "next", "next_back", "nth", "max", "min", "max_by_key", "min_by_key", "last", "first", "get", "rfind", "pop", "peek")


def run(cx, chk):
    chk.explanation = (
        "C11.found: no unwrap/expect on the result of a search or iteration whose emptiness is not excluded by a dominating test, and "
        "no other explicit panic, in PrettyParseError::from_parse_error, the line iterator and Display.  C11.iter / line / col / show: "
        "the printer is read off its semantic summaries as line-record iterator + choice of the record + column + one format call, and "
        "each piece is compared with what C11 needs (records are the half-open, contiguous ranges [line start, next line start) with "
        "0-based counter; the first record with start <= p < end is chosen; the column is the number of characters before p in that "
        "line, at the end of the line all of them; line and column are shown 1-based and the caret is right-aligned in a field of "
        "width column, directly below the text after the same prefix).  A printer of another shape (hand-written loops, other "
        "searches) is reported as undecided in the evidence, never as a violation.")
    chk.assumptions = ["slice indexing / subtraction inside the line iterator is not part of the no-panic rule (a full panic inventory would fire on any correct rewrite of the arithmetic)",
                       "std semantics assumed: Iterator::find returns the first match, position the first index, char_indices yields the byte index of every character, "
                       "format width / alignment as documented (template decoded per library/core/src/fmt/mod.rs of the pinned toolchain)",
                       "terminal column = character count (tabs and wide characters are not modelled by C11 either)"]
    rt = cx.runtime
    n = 0
    sem_info = c11sem.run(cx, chk, rt) or {}
    fns = [p for p, f in rt.fns.items() if "mir" in f and ("PrettyParseError" in p or "IndexedStringLine" in p) and "fmt::Debug" not in p and "Clone" not in short(p)]
    if not any("from_parse_error" in p for p in fns):
        chk.anchor_missing("C11.found", "PrettyParseError::from_parse_error")
    for p in sorted(fns):
        b = cx.body(rt, p)
        for i, t in b.calls():
            f = t["func"]
            if f.get("indirect"):
                continue
            l = last(f["path"])
            if l in ("unwrap", "expect") and ("Option" in f["path"] or "Result" in f["path"]):
                n += 1
                src = norm(b.expr_op(t["args"][0]))
                searched = [s_ for s_ in walk(src) if s_[0] == "call" and last(s_[1]) in SEARCHES]
                guarded = any(v is True and is_call(e, "is_some", "is_ok") for (e, v, d) in b.atoms(i)) or \
                    any(v is False and is_call(e, "is_none", "is_empty", "is_err") for (e, v, d) in b.atoms(i))
                tag = "%s %s(%s)" % (c04.fn_key(p), l, short(searched[0][1]) if searched else "?")
                total = (sem_info.get("find_total") and searched and last(searched[0][1]) == "find" and "from_parse_error" in p
                         and sum(1 for s_ in walk(src) if s_[0] == "call" and last(s_[1]) in SEARCHES) == 1)
                if total:
                    chk.ok("C11.found", tag, {"fn": c04.fn_key(p), "call": l, "why": "the line iterator yields a record up to len + 1 and the predicate accepts "
                                              "start <= p < end: a record is found for every position 0..=len (C11.iter / C11.line)"})
                elif searched and not guarded:
                    chk.violation("C11.found", tag,
                                  "%s applies %s() to the result of %s without handling the not-found case: converting an error to its pretty "
                                  "form panics when nothing is found (e.g. the empty text has no line at all)" % (c04.fn_key(p), l, short(searched[0][1])),
                                  cx.site(b, i))
                else:
                    chk.ok("C11.found", tag, {"fn": c04.fn_key(p), "call": l, "on": mir.show(src)[:120]})
            if t["target"] is None and "panic" in f["path"] and not t.get("fn_exp"):
                chk.violation("C11.found", "%s explicit panic" % c04.fn_key(p), "explicit panic in pretty-error code", cx.site(b, i))
        # unwrap_or / unwrap_or_else / map_or are fine: count them as handled searches
        for i, t in b.calls():
            f = t["func"]
            if not f.get("indirect") and last(f["path"]) in ("unwrap_or", "unwrap_or_else", "unwrap_or_default", "map_or", "map_or_else", "ok_or", "ok_or_else"):
                src = norm(b.expr_op(t["args"][0]))
                if any(s_[0] == "call" and last(s_[1]) in SEARCHES for s_ in walk(src)):
                    n += 1
                    chk.ok("C11.found", "%s %s handles not-found" % (c04.fn_key(p), last(f["path"])), {"fn": c04.fn_key(p), "handled_by": last(f["path"])})
    chk.ok("C11.found", "pretty-error functions scanned", {"functions": len(fns), "unwraps_and_handled_searches": n})
    chk.floor("C11.found", "pretty-error functions scanned", len(fns), 2)
