"""Rule wrappers (`parse_<Rule>`) read off their semantic summaries (sem.py).

The wrapper function is summarised with everything nested in it (closures, nested fn items) and the runtime's result
helpers inlined; what remains on every path is an ordered list of events: tracer calls, cache `get` / `insert`, the body
evaluation (calls to the rule's implementation function or to terminal matchers), user hooks, position / string helpers,
and the returned value.  The obligations of C05 / C06 (memoized wrappers) and C07 / C10.sentinel (left-recursive wrappers)
are stated over these events, so that `if let` vs `match`, an immediately-called closure vs a nested function, a `let`
for the cache entry or a restructured case table all read alike.
"""
from .. import mir, sem
from ..mir import mk, last, short, is_call, walk
from . import memo, semspec

P1, P2 = mk("param", 1), mk("param", 2)


def rule_sem(cx, inst):
    """One Sem per instance, inlining what is nested inside rule functions and the runtime's result helpers."""
    cache = cx.__dict__.setdefault("_wrapsem", {})
    S = cache.get(inst.name)
    if S is None:
        rule_paths = tuple(inst.rule_fns.values())

        def inline(p):
            if any(p.startswith(r + "::") for r in rule_paths):
                return True
            return "peginator::" in p and ("ParseResultExtras" in p or ("ParseOk" in p and last(p) in ("map", "map_with_state")))
        S = sem.Sem(cx, inst.crate, inline=inline, extra_crates=[cx.runtime], stable_roots=True, max_leaves=4000)
        cache[inst.name] = S
    return S


def is_cache_field(v, field):
    return v[0] == "field" and v[2] == field and v[1][0] == "field" and v[1][2] == "cache"


def mentions_cache(v, field=None):
    for s_ in walk(v):
        if s_[0] == "field" and s_[1][0] == "field" and s_[1][2] == "cache" and (field is None or s_[2] == field):
            return True
    return False


class Ev:
    """Classified events of one leaf."""

    def __init__(self, inst, rule_path, leaf, field):
        self.gets, self.inserts, self.other_cache, self.body, self.tracer, self.loopinit = [], [], [], [], [], []
        self.order = []
        for idx, ev in enumerate(leaf.trace):
            t = ev[0]
            kind = None
            if t[0] == "loopinit":
                kind = "loopinit"
                self.loopinit.append((idx, ev))
            elif t[0] in ("call", "icall"):
                nm = last(t[1]) if t[0] == "call" else "<indirect>"
                a0 = t[2][0] if t[2] else None
                target = (t[3] or t[1]) if t[0] == "call" else ""
                if t[0] == "call" and a0 is not None and is_cache_field(a0, field) and nm in ("get", "insert"):
                    kind = nm
                    (self.gets if nm == "get" else self.inserts).append((idx, ev))
                elif t[0] == "call" and any(memo.mentions_cache(a) for a in t[2]) and nm not in ("get", "clone"):
                    kind = "cache-other"
                    self.other_cache.append((idx, ev))
                elif "ParseTracer" in (t[1] if t[0] == "call" else "") or nm in ("print_trace_start", "print_trace_result", "print_informative"):
                    kind = "tracer"
                    self.tracer.append((idx, ev))
                elif t[0] == "call" and (target in inst.fns or mir.strip_generics(t[1]).startswith(inst.prefix + "::")) and not target.startswith(rule_path + "::"):
                    kind = "body"
                    self.body.append((idx, ev))
                elif t[0] == "call" and "builtin_parsers" in t[1] or (t[0] == "call" and nm.startswith("parse_") and t[1].startswith("peginator::")):
                    kind = "body"
                    self.body.append((idx, ev))
                elif t[0] == "call" and not t[1].startswith(USER_EXCLUDE) and not (t[3] or t[1]).startswith(USER_EXCLUDE) \
                        and not mir.strip_generics(t[1]).startswith(inst.prefix + "::") and (t[3] or "") not in inst.fns:
                    kind = "user"
            if kind:
                self.order.append((idx, kind, ev))


class Cached:
    """Obligations of one cached wrapper, as lists of (rule id, key detail, message, site)."""

    def __init__(self, cx, inst, rule, field):
        self.cx, self.inst, self.rule, self.field = cx, inst, rule, field
        self.tag = "%s/%s" % (inst.name, rule)
        self.viol = []
        self.oks = []
        self.ok = False
        self.leftrec = False
        self.path = inst.rule_fns.get(rule)
        if self.path is None:
            self.viol.append(("shape", "no parse_%s function" % rule, "no parse function for the cached rule", None))
            return
        self.body = cx.body(inst.crate, self.path)
        S = rule_sem(cx, inst)
        try:
            self.sm = S.summarize(self.path)
        except sem.SemLimit as ex:
            self.viol.append(("shape", "unsummarised", "cached wrapper could not be summarised: %s" % ex, cx.site(self.body)))
            return
        if not self.sm.complete:
            self.viol.append(("shape", "irreducible", "cached wrapper has irreducible control flow", cx.site(self.body)))
            return
        self.S = S
        self.leaves = [l for l in self.sm.leaves + self.sm.loopbacks if l.kind in ("return", "loopback")]
        self.evs = {id(l): Ev(inst, self.path, l, field) for l in self.leaves}
        if not any(self.evs[id(l)].gets for l in self.leaves):
            self.viol.append(("shape", "no `get` on cache field %s in parse_%s" % (field, rule), "no lookup of cache field %s on any path of parse_%s" % (field, rule), cx.site(self.body)))
            return
        self.leftrec = any(self.evs[id(l)].loopinit for l in self.leaves) or any(
            s_[0] == "agg" and s_[2] == "LeftRecursionSentinel" for l in self.leaves for ev in l.trace for s_ in walk(ev[0]))
        self.ok = True
        self.common()
        if self.leftrec:
            self.check_leftrec()
        else:
            self.check_memo()

    def site(self, ev=None):
        if ev is not None and ev[2]:
            try:
                b = self.cx.body(self.inst.crate, ev[2][0]) if ev[2][0] in self.inst.crate.fns else None
                if b is not None:
                    return self.cx.site(b, ev[2][1])
            except Exception:
                pass
        return self.cx.site(self.body)

    def v(self, rid, detail, msg, ev=None):
        self.viol.append((rid, detail, msg, self.site(ev)))

    # ---- shared by both kinds: the key, the owner, the hit path
    def common(self):
        KEY = None
        for l in self.leaves:
            E = self.evs[id(l)]
            if len(E.gets) != 1:
                self.v("lookup", "expected exactly one cache lookup, found %d" % len(E.gets), "a path of the wrapper looks the cache up %d times (the lookup must come first, once, on every path)" % len(E.gets))
                continue
            gi, gev = E.gets[0]
            g = gev[0]
            key = g[2][1]
            if not (is_call(key, "cache_key") and len(key[2]) == 1 and key[2][0] == P1):
                self.v("key", "lookup", "the lookup key is %s, not the runtime cache_key of the rule's entry state" % mir.show(key)[:100], gev)
            KEY = key
            for (ii, iev) in E.inserts:
                k2 = iev[0][2][1]
                if k2 != key:
                    self.v("key", "insert-key", "insert uses a different key than the lookup: %s vs %s" % (mir.show(k2)[:80], mir.show(key)[:80]), iev)
            for (oi, oev) in E.other_cache:
                self.v("own", "call=%s" % short(oev[0][1]), "cache field %s is passed to %s (only get/insert may touch it)" % (self.field, short(oev[0][1])), oev)
            # nothing but the tracer and the key computation before the lookup
            for (idx, kind, ev) in E.order:
                if idx < gi and kind in ("body", "insert", "cache-other", "loopinit"):
                    self.v("lookup", "call=%s" % (short(ev[0][1]) if ev[0][0] == "call" else kind), "%s is evaluated before / regardless of the cache lookup" % (mir.show(ev[0])[:80]), ev)
            hit = semspec.discr_case(l, g)
            if hit is None:
                self.v("shape", "lookup result is not branched on", "the result of the cache lookup is not examined on a path", gev)
            elif hit == 1:
                for (idx, kind, ev) in E.order:
                    if idx > gi and kind in ("body", "insert", "cache-other", "loopinit"):
                        self.v("hit", "call=%s" % (short(ev[0][1]) if ev[0][0] == "call" else kind), "cache-hit path performs %s (the hit path must only copy the stored result)" % mir.show(ev[0])[:80], ev)
                    if idx > gi and kind == "user":
                        self.v("hit", "user-call=%s" % last(ev[0][1]), "cache-hit path calls the user function %s: a @check / hook of a cached rule runs again on every "
                               "hit instead of once per position, and its verdict is not what was stored" % short(ev[0][1]), ev)
                stored = mk("field", mk("downcast", g, "Some"), "0")
                if l.kind != "return" or l.ret != stored:
                    self.v("value", "hit", "cache hit does not return a clone of the stored result: %s" % (mir.show(l.ret)[:120] if l.ret is not None else l.kind), gev)
        self.KEY = KEY

    # ---- plain @memoize
    def check_memo(self):
        for l in self.leaves:
            E = self.evs[id(l)]
            if len(E.gets) != 1:
                continue
            gi, gev = E.gets[0]
            if semspec.discr_case(l, gev[0]) != 0:
                continue
            if l.kind != "return":
                self.v("shape", "loop", "a plain memoized wrapper contains a loop")
                continue
            eta = semspec.Eta(self.S, l)
            if not E.inserts:
                lastb = E.body[-1][1] if E.body else None
                self.v("insert", "exit-via=%s" % (short(lastb[0][1]) if lastb is not None and lastb[0][0] == "call" else "?"),
                       "memoized wrapper parse_%s: a path from the cache-miss edge reaches `return` without inserting the result "
                       "(failures are not cached; the body is re-evaluated at this position)" % self.rule, lastb)
                continue
            if len(E.inserts) > 1:
                self.v("insert", "twice", "a miss path inserts more than once")
            ii, iev = E.inserts[-1]
            val = iev[0][2][2]
            if not eta.same(val, l.ret):
                self.v("value", "miss", "the value inserted on a miss is not a clone of the value returned: inserted %s, returned %s"
                       % (mir.show(val)[:100], mir.show(l.ret)[:100]), iev)
            for (bi, bev) in E.body:
                if bi > ii:
                    self.v("insert", "body-after-insert", "the rule body is evaluated after the result was stored", bev)

    # ---- @leftrec
    def check_leftrec(self):
        n_trips = 0
        for l in self.leaves:
            E = self.evs[id(l)]
            if len(E.gets) != 1:
                continue
            gi, gev = E.gets[0]
            if semspec.discr_case(l, gev[0]) != 0:
                continue
            if len(E.loopinit) != 1:
                self.v("shape", "expected exactly one loop, found %d" % len(E.loopinit), "a miss path of the left-recursive wrapper does not enter exactly one loop")
                continue
            li, lev = E.loopinit[0]
            init = lev[0][3]
            depth, head = lev[0][1], lev[0][2]
            # the best-result variable: the loop variable initialised with the seed that was stored before the loop
            pre_ins = [(i, ev) for (i, ev) in E.inserts if i < li]
            seeds = [(l_, v_) for (l_, v_) in init if v_[0] == "agg" and v_[2] == "Err" and v_[1] == sem.RESULT]
            if len(seeds) != 1:
                self.v("seed", "seed-count", "expected one failing seed before the loop, found %d" % len(seeds), lev)
                continue
            bl, seed = seeds[0]
            B = mk("loopvar", depth, head, bl)
            pe = seed[3][0][1]
            okseed = is_call(pe, "report_error") and len(pe[2]) == 2 and pe[2][0] == P1 and pe[2][1][0] == "agg" and pe[2][1][2] == "LeftRecursionSentinel"
            body_before = [ev for (i, ev) in E.body if i < li]
            if not (okseed and len(pre_ins) >= 1 and pre_ins[-1][1][0][2][2] == seed and not body_before):
                self.v("seed", "", "no failing sentinel seed stored under the entry key before the first body evaluation (seed=%s, insert before loop=%s, "
                       "body calls before loop=%d)" % (mir.show(seed)[:100], bool(pre_ins), len(body_before)), lev)
            # this trip
            trip_body = [(i, ev) for (i, ev) in E.body if i > li]
            trip_ins = [(i, ev) for (i, ev) in E.inserts if i > li]
            eta = semspec.Eta(self.S, l)
            b_case = semspec.discr_case(l, B)
            # whatever a trip stores last must be the best result it ends with (a later cache hit serves what is stored)
            if trip_ins:
                if l.kind == "loopback":
                    nb = dict(l.ret[2]).get(bl) if l.ret is not None else None
                    best_end = nb if nb is not None else B
                else:
                    best_end = l.ret
                if best_end is not None and not eta.same(trip_ins[-1][1][0][2][2], best_end):
                    self.v("exit", "stored-not-best", "growth loop of parse_%s: the value stored in the cache (%s) is not the best result the trip ends with (%s): "
                           "a later lookup at this position is answered with something else than what this call returned"
                           % (self.rule, mir.show(trip_ins[-1][1][0][2][2])[:80], mir.show(best_end)[:80]), trip_ins[-1][1])
            if l.kind == "loopback":
                n_trips += 1
                newB = dict(l.ret[2]).get(bl) if l.ret is not None else None
                updated = newB is not None and newB != B
                if not updated or not trip_ins:
                    self.v("progress", "a trip round the loop neither updates nor re-stores", "growth loop of parse_%s: a trip round the loop neither updates nor "
                           "re-stores the best result" % self.rule, lev)
                    continue
                # the new best is the new evaluation, it is Ok, and it is strictly further than an Ok best (or the best is the failing seed)
                new_ok = newB[0] == "agg" and newB[2] == "Ok"
                strict = [a for (a, v_) in l.assume if v_ is True and is_call(a, "is_further_than") and len(a[2]) == 2
                          and a[2][1] == mk("field", mk("field", mk("downcast", B, "Ok"), "0"), "state")
                          and eta.same(a[2][0], sem.get_field(sem.get_field(newB, "0"), "state")) and a[2][0] != a[2][1]] if new_ok else []
                if not new_ok:
                    self.v("progress", "a trip round the loop continues with a failure", "growth loop of parse_%s: the loop continues although the new evaluation failed" % self.rule, lev)
                elif not (strict and b_case == 0) and not (b_case == 1):
                    self.v("progress", "a trip round the loop is not guarded", "growth loop of parse_%s: a trip round the loop is not guarded by the strict progress test nor by "
                           "(new Ok, best Err)" % self.rule, lev)
                if not eta.same(trip_ins[-1][1][0][2][2], newB):
                    self.v("exit", "update-without-store", "best result is updated without being re-stored in the cache before the next iteration", trip_ins[-1][1])
                if not trip_body:
                    self.v("progress", "a trip round the loop does not evaluate the body", "growth loop of parse_%s: a trip does not evaluate the rule body" % self.rule, lev)
            else:
                # an exit: returns the best result as last stored
                r = l.ret
                if r == B:
                    if b_case != 0:
                        self.v("sentinel", "", "an exit of the left-recursive wrapper can return while the stored/returned best result is still the seed sentinel", lev)
                elif trip_body and r is not None:
                    # best replaced on the way out: only a failing best may be replaced by this trip's (failing) evaluation - an Ok best is the
                    # grown result and has to be what the rule returns
                    r_ok = (r[0] == "agg" and r[2] == "Ok") or semspec.discr_case(l, r) == 0
                    if r_ok:
                        self.v("exit", "exit-after-improvement", "growth loop of parse_%s: an exit returns a successful evaluation that has just replaced the best "
                               "result (%s): after an improvement the body has to be evaluated again with the new result standing for the recursive "
                               "reference - a rule whose base alternative matches the empty string never grows" % (self.rule, mir.show(r)[:80]), lev)
                    if b_case != 1:
                        self.v("exit", "replaces-ok-best", "growth loop of parse_%s: an exit replaces the best result by %s without the best result being a "
                               "failure on that path: a growth step that fails (e.g. a @check rejecting the longer match) discards the match grown so far"
                               % (self.rule, mir.show(r)[:80]), lev)
                    # best replaced in the last trip: must have been re-stored
                    if not trip_ins or not eta.same(trip_ins[-1][1][0][2][2], r):
                        self.v("exit", "update-without-store", "best result is updated without being re-stored in the cache before the exit", lev)
                    # and it must be this trip's evaluation
                    calls = [ev[0] for (i, ev) in trip_body]
                    if not any(c == s_ for c in calls for s_ in walk(r)):
                        self.v("exit", "returns %s" % (short(r[1]) if r[0] == "call" else r[0]), "an exit of the left-recursive wrapper returns %s instead of the best result "
                               "as last stored" % mir.show(r)[:120], lev)
                else:
                    self.v("exit", "returns %s" % (short(r[1]) if r is not None and r[0] == "call" else (r[0] if r is not None else "?")),
                           "an exit of the left-recursive wrapper returns %s instead of the best result as last stored (a failing growth step then "
                           "discards the grown seed / leaks the sentinel)" % (mir.show(r)[:120] if r is not None else "?"), lev)
        if n_trips == 0 and self.ok:
            self.v("progress", "no-cycle", "no cyclic path found in the growth loop")


def cached(cx):
    """All cached wrappers of all instances (memoised on the context)."""
    c = cx.__dict__.get("_wrapsem_cached")
    if c is None:
        c = []
        for inst in cx.instances():
            for field in memo.cache_fields(inst):
                rule = field[2:] if field.startswith("c_") else field
                c.append(Cached(cx, inst, rule, field))
        cx.__dict__["_wrapsem_cached"] = c
    return c


# ---------------------------------------------------------------------------- all rule wrappers

USER_EXCLUDE = ("std::", "core::", "alloc::", "peginator::", "hashbrown::", "<")


class RuleView:
    """Semantic view of one `parse_<Rule>` wrapper: for every path that evaluates the rule body, the body event R, the value(s) M
    built from its success (returned, stored or carried round the growth loop), the position / slice measurements and the user
    hook calls."""

    def __init__(self, cx, inst, rule):
        self.cx, self.inst, self.rule = cx, inst, rule
        self.tag = "%s/%s" % (inst.name, rule)
        self.path = inst.rule_fns.get(rule)
        self.problem = None
        self.sm = None
        if self.path is None:
            self.problem = "no parse function"
            return
        self.body = cx.body(inst.crate, self.path)
        self.S = rule_sem(cx, inst)
        try:
            self.sm = self.S.summarize(self.path)
        except sem.SemLimit as ex:
            self.problem = "not summarised: %s" % ex
            return
        if not self.sm.complete:
            self.problem = "irreducible control flow"
            self.sm = None
            return
        self.leaves = [l for l in self.sm.leaves + self.sm.loopbacks if l.kind in ("return", "loopback")]

    def body_events(self, leaf):
        out = []
        for idx, ev in enumerate(leaf.trace):
            t = ev[0]
            if t[0] != "call":
                continue
            target = t[3] or t[1]
            if (target in self.inst.fns or mir.strip_generics(t[1]).startswith(self.inst.prefix + "::")) and not target.startswith(self.path + "::") \
                    and last(t[1]) not in ("clone",):
                out.append((idx, ev))
        return out

    def user_events(self, leaf):
        out = []
        for idx, ev in enumerate(leaf.trace):
            t = ev[0]
            if t[0] != "call":
                continue
            p = t[1]
            if p.startswith(USER_EXCLUDE) or mir.strip_generics(p).startswith(self.inst.prefix + "::") or (t[3] or "") in self.inst.fns:
                continue
            if (t[3] or p).startswith(USER_EXCLUDE):
                continue
            out.append((idx, ev))
        return out

    def mapped(self, leaf):
        """[(R, X)]: X = the ParseOk value built on this path from the success of body event R (returned, inserted or carried on)."""
        out = []
        bes = [(i, ev) for (i, ev) in self.body_events(leaf) if semspec.discr_case(leaf, ev[0]) == 0]
        if not bes:
            return out
        cands = []
        if leaf.kind == "return" and leaf.ret is not None:
            cands.append(leaf.ret)
        if leaf.kind == "loopback" and leaf.ret is not None:
            cands.extend(v for (_, v) in leaf.ret[2])
        for ev in leaf.trace:
            if is_call(ev[0], "insert") and len(ev[0][2]) == 3:
                cands.append(ev[0][2][2])
        for (i, bev) in bes:
            R = bev[0]
            for c in cands:
                if c[0] == "agg" and c[2] == "Ok" and c[1] == sem.RESULT and any(s_ == R for s_ in walk(c)):
                    X = sem.get_field(c, "0")
                    if (R, X) not in out:
                        out.append((R, X))
        return out


def rule_views(cx):
    c = cx.__dict__.get("_wrapsem_views")
    if c is None:
        c = {}
        for inst in cx.instances():
            for rule in inst.rule_fns:
                c[(inst.name, rule)] = RuleView(cx, inst, rule)
        cx.__dict__["_wrapsem_views"] = c
    return c
