"""C14 — user check and extern functions decide matches as documented.

check  : every check failure site is the false edge of a call on a reference to the final
         rule value (the value returned in Ok), fails with report_error on that value's
         own state, and every Ok return is dominated by the true edges of all checks.
char   : @char checks run on the next character of the entry state before any alternative.
extern : the function sees s(entry) (+ user context iff configured); Ok((r,n)) yields
         r.into() and advance_safe(entry, n) with the same n; Err(e) yields the extern error
         reported on the entry state.
ctx    : the user-context flag is written only by Default / set_user_context_type and read
         only by the two hook templates (generator level).
"""
from .. import mir
from ..mir import short, last, strip, walk, norm, is_call
from . import common

LEVEL = "other"


def has_user_context(inst):
    for r, p in inst.rule_fns.items():
        f = inst.fns[p]
        if len(f["inputs"]) >= 2:
            return not f["inputs"][1].rstrip(">").rstrip().endswith(", ()")
    return False


def agg_variants(b):
    for i in sorted(b.reach):
        for st in b.blocks[i]["stmts"]:
            if st["k"] == "assign" and st["rv"]["k"] == "agg" and st["rv"].get("agg") == "adt":
                yield i, st["rv"]["variant"], st


def is_user_ctx(e, b, cx, crate):
    """e == <global>.user_context"""
    if e[0] == "field" and e[2] == "user_context":
        rb, root = common.capture_root(cx, crate, b, e[1])
        return root == ("param", 2) or e[1] == ("param", 2)
    return False


def check_checks(cx, chk):
    """@check on ordinary rules, read off the wrapper summaries (wrapsem.RuleView): every path that returns Ok has seen every
    check of the rule return true on (a reference to) the very value it returns; a path on which a check returned false returns
    Err(report_error(<that value's own state>, CheckFunctionFailed{that function})); the user context is passed iff configured."""
    from . import wrapsem, semspec
    from .. import sem
    views = wrapsem.rule_views(cx)
    n_checks = 0
    for inst in cx.instances():
        uc = has_user_context(inst)
        g = cx.grammar_of(inst)
        for rule in sorted(inst.rule_fns):
            v = views.get((inst.name, rule))
            gr = g.rule(rule) if g is not None else None
            declared = [c.split("::")[-1] for c in (gr.checks if gr is not None and gr.kind == "rule" else [])]
            if v is None or v.sm is None:
                if declared:
                    chk.violation("C14.check", "%s/%s unsummarised" % (inst.name, rule), "a wrapper with checks could not be summarised: %s" % (v.problem if v else "?"))
                continue
            has_fail = any(s_[0] == "agg" and s_[2] == "CheckFunctionFailed" for l in v.leaves for ev in l.trace for s_ in walk(ev[0]))
            if not declared and not has_fail:
                continue
            if gr is not None and gr.kind != "rule":
                continue
            tag0 = "%s/parse_%s" % (inst.name, rule)
            probs = []
            for leaf in v.leaves:
                ues = v.user_events(leaf)
                calls = [(i, ev) for (i, ev) in ues if last(ev[0][1]) in declared or True]
                outcomes = []
                for (i, ev) in calls:
                    t = ev[0]
                    tv = leaf.facts.get(t)
                    if tv is None:
                        # look for the canonical atom
                        a_, pol = sem.canon(t)
                        tv = leaf.facts.get(a_)
                        tv = (tv == pol) if tv is not None else None
                    outcomes.append((t, tv, ev))
                r = leaf.ret
                if r is not None and r[0] == "agg" and r[2] == "Ok" and r[1] == sem.RESULT:
                    X = sem.get_field(r, "0")
                    val = sem.get_field(X, "result")
                    bes = [bev for (_, bev) in v.body_events(leaf) if semspec.discr_case(leaf, bev[0]) == 0]
                    if not bes:
                        continue        # a cache hit: the stored value was checked when it was computed
                    seen = []
                    for (t, tv, ev) in outcomes:
                        nm = last(t[1])
                        if tv is not True:
                            probs.append(("Ok-bypasses-check %s" % nm, "a successful return of parse_%s does not depend on the success of check %s" % (rule, nm)))
                        if not t[2] or t[2][0] != val:
                            probs.append(("checked-value-differs", "the value returned (%s) is not the value the check saw (%s)" % (mir.show(val)[:80], mir.show(t[2][0])[:80] if t[2] else "?")))
                        seen.append(nm)
                    if seen != declared:
                        probs.append(("checks-run %s" % "+".join(seen), "a successful path runs the checks %s, the rule declares %s" % (seen, declared)))
                if leaf.kind == "loopback" and any(tv is False for (t, tv, ev) in outcomes):
                    probs.append(("loop-continues", "a growth loop continues after a failed check"))
                for (t, tv, ev) in outcomes:
                    nm = last(t[1])
                    args = t[2]
                    if uc:
                        if not (len(args) == 2 and args[1][0] == "field" and args[1][2] == "user_context" and args[1][1] == mir.mk("param", 2)):
                            probs.append(("check %s user-context" % nm, "user context is configured but not passed to the check"))
                    elif len(args) != 1:
                        probs.append(("check %s extra-argument" % nm, "unexpected extra argument to the check function"))
                    if tv is False:
                        n_checks += 1
                        good = False
                        # the failure value: Err(report_error(state, CheckFunctionFailed{..})) built after the check; it is what the
                        # path returns - or, in a left-recursive wrapper, what the growth step ends with (best result returned instead)
                        reps = [ev2[0] for ev2 in leaf.trace if is_call(ev2[0], "report_error") and len(ev2[0][2]) == 2
                                and ev2[0][2][1][0] == "agg" and ev2[0][2][1][2] == "CheckFunctionFailed"
                                and dict(ev2[0][2][1][3]).get("function_name", ("?", "?", ""))[2:3] and str(dict(ev2[0][2][1][3])["function_name"][2]).split("::")[-1] == nm]
                        rr = None
                        if r is not None and r[0] == "agg" and r[2] == "Err" and is_call(r[3][0][1], "report_error"):
                            rr = r[3][0][1]
                        elif r is not None and r[0] == "loopvar" and reps:
                            rr = reps[-1]
                        if rr is not None and len(rr[2]) == 2:
                            st0, spec = rr[2]
                            fn_ = dict(spec[3]).get("function_name") if spec[0] == "agg" and spec[2] == "CheckFunctionFailed" else None
                            if fn_ is None:
                                probs.append(("check %s failure-kind" % nm, "a failed check is reported as %s" % mir.show(spec)[:80]))
                            else:
                                if fn_[0] == "const" and str(fn_[2]).split("::")[-1] != nm:
                                    probs.append(("check %s name" % nm, "reported function name %r does not name the called function %s" % (fn_[2], nm)))
                                # the state: that of the value the check saw
                                want = None
                                for (R_, X_) in [pr for l2 in v.leaves for pr in v.mapped(l2)] :
                                    if args and sem.get_field(X_, "result") == args[0]:
                                        want = sem.get_field(X_, "state")
                                if want is None:
                                    a0 = args[0] if args else None
                                    # the checked value need not reach an Ok elsewhere: its state is the body's end state on this path
                                    bes = [bev for (_, bev) in v.body_events(leaf) if semspec.discr_case(leaf, bev[0]) == 0]
                                    if bes:
                                        want = mir.mk("field", mir.mk("field", mir.mk("downcast", bes[-1][0], "Ok"), "0"), "state")
                                if want is None or st0 != want:
                                    probs.append(("check %s state" % nm, "failure reported on %s, not on the checked value's own state" % mir.show(st0)[:80]))
                                good = True
                        if not good and not any(p_[0].startswith("check %s" % nm) for p_ in probs):
                            probs.append(("check %s not-an-error" % nm, "the check failure is not returned as Err(report_error(.., CheckFunctionFailed)): %s" % (mir.show(r)[:100] if r is not None else "?")))
            if probs:
                for (k, pr) in sorted(set(probs)):
                    chk.violation("C14.check", "%s %s" % (tag0, k[:70]), pr, cx.site(v.body))
            else:
                chk.ok("C14.check", tag0, {"rule": "%s/%s" % (inst.name, rule), "checks": declared, "on_false": "Err(report_error(result.state, CheckFunctionFailed))"})
    chk.floor("C14.check", "check failure sites", n_checks, 3)


def check_char_and_extern(cx, chk):
    """@char checks and @extern functions, read off the summaries of the rule functions (wrapsem.RuleView)."""
    from . import wrapsem, semspec
    from .. import sem
    P1 = mir.mk("param", 1)
    views = wrapsem.rule_views(cx)
    n_char = n_ext = 0
    for inst in cx.instances():
        uc = has_user_context(inst)
        g = cx.grammar_of(inst)
        for rule, p in sorted(inst.rule_fns.items()):
            gr = g.rule(rule) if g is not None else None
            v = views.get((inst.name, rule))
            tag = "%s/%s" % (inst.name, rule)
            b = cx.body(inst.crate, p)
            vs = {vv for (_, vv, _) in agg_variants(b)}
            is_char = (gr is not None and gr.kind == "char") or "ExpectedCharacterClass" in vs
            is_ext = (gr is not None and gr.kind == "extern") or "ExternRuleFailed" in vs
            if not (is_char or is_ext):
                continue
            if v is None or v.sm is None:
                chk.violation("C14.char" if is_char else "C14.extern", tag + " unsummarised", "rule function could not be summarised: %s" % (v.problem if v else "?"), cx.site(b))
                continue
            leaves = [l for l in v.leaves if l.kind == "return"]
            if is_char:
                declared = [c.split("::")[-1] for c in (gr.checks if gr is not None else [])]
                C = None
                probs = []
                n_calls = 0
                for leaf in leaves:
                    ues = v.user_events(leaf)
                    # std char predicates (`char::is_lowercase`) are checks too: every call on the next character
                    chk_calls = []
                    for idx, ev in enumerate(leaf.trace):
                        t = ev[0]
                        if t[0] != "call" or not t[2]:
                            continue
                        a0 = t[2][0]
                        if a0[0] == "field" and a0[2] == "0" and a0[1][0] == "downcast" and a0[1][2] == "Some" and is_call(a0[1][1], "next"):
                            src = a0[1][1]
                            if is_call(src[2][0], "chars") and is_call(src[2][0][2][0], "s") and src[2][0][2][0][2][0] == P1:
                                chk_calls.append((idx, ev, src))
                            else:
                                probs.append("@char check is not applied to the next character of the entry state: %s" % mir.show(a0)[:80])
                    attempts = [(i, ev) for (i, ev) in v.body_events(leaf)] + [(i, ev) for i, ev in enumerate(leaf.trace)
                                                                             if ev[0][0] == "call" and last(ev[0][1]).startswith("parse_") and "peginator::" in ev[0][1]]
                    first_attempt = min([i for (i, _) in attempts], default=None)
                    truths = []
                    for (idx, ev, src) in chk_calls:
                        n_calls += 1
                        t = ev[0]
                        a_, pol = sem.canon(t)
                        tv = leaf.facts.get(a_)
                        tv = (tv == pol) if tv is not None else None
                        truths.append((last(t[1]), tv, idx))
                    if first_attempt is not None:
                        ran = [nm for (nm, tv, idx) in truths if idx < first_attempt and tv is True]
                        if declared and [nm for nm in ran] != declared:
                            probs.append("alternative %s is attempted without the check method(s) %s having succeeded (saw %s)"
                                         % (short(leaf.trace[first_attempt][0][1]), declared, ran))
                    failed = [nm for (nm, tv, idx) in truths if tv is False]
                    nochar = any(a[0] == "discr" and is_call(a[1], "next") and val == 0 for (a, val) in leaf.assume)
                    if (failed or (nochar and declared)) :
                        r = leaf.ret
                        good = r is not None and r[0] == "agg" and r[2] == "Err" and is_call(r[3][0][1], "report_error") and r[3][0][1][2][0] == P1 \
                            and r[3][0][1][2][1][0] == "agg" and r[3][0][1][2][1][2] == "ExpectedCharacterClass"
                        if not good:
                            probs.append("a failed @char check does not return the class error on the entry state")
                        if first_attempt is not None:
                            probs.append("an alternative is attempted although a @char check failed")
                    if any(tv is None for (nm, tv, idx) in truths):
                        probs.append("check result is not branched on")
                if declared:
                    n_char += n_calls
                    if n_calls == 0:
                        probs.append("the rule declares checks %s but none is called on the next character" % declared)
                    if probs:
                        for pr in sorted(set(probs)):
                            chk.violation("C14.char", tag + " " + pr[:70], pr, cx.site(b))
                    else:
                        chk.ok("C14.char", tag, {"rule": tag, "checks": declared})
            else:
                n_ext += 1
                probs = []
                for leaf in leaves:
                    ues = [(i, ev) for (i, ev) in v.user_events(leaf) if last(ev[0][1]) not in ("into", "from")]
                    if len(ues) != 1:
                        probs.append("expected exactly one call of the user function, found %d" % len(ues))
                        continue
                    U = ues[0][1][0]
                    args = U[2]
                    if not (args and is_call(args[0], "s") and args[0][2][0] == P1):
                        probs.append("the extern function does not receive s() of the entry state: %s" % (mir.show(args[0])[:80] if args else "?"))
                    if uc:
                        if not (len(args) == 2 and args[1] == mir.mk("field", mir.mk("param", 2), "user_context")):
                            probs.append("user context configured but not passed")
                    elif len(args) != 1:
                        probs.append("unexpected extra argument to the extern function")
                    others = [(a, val) for (a, val) in leaf.assume if a != mir.mk("discr", U)]
                    if others:
                        probs.append("the outcome of the rule depends on more than the function's Ok/Err: %s" % [mir.show(a)[:80] for (a, val) in others])
                    k = semspec.discr_case(leaf, U)
                    r = leaf.ret
                    okpay = mir.mk("field", mir.mk("downcast", U, "Ok"), "0")
                    if k == 0:
                        good = False
                        if r is not None and r[0] == "agg" and r[2] == "Ok":
                            X = sem.get_field(r, "0")
                            res, st = sem.get_field(X, "result"), sem.get_field(X, "state")
                            src = res[2][0] if is_call(res, "into", "from") and res[2] else res
                            if src == mir.mk("field", okpay, "0") and is_call(st, "advance_safe") and tuple(st[2]) == (P1, mir.mk("field", okpay, "1")):
                                good = True
                        if not good:
                            probs.append("Ok((r, n)) is not turned into Ok(ParseOk{result: r.into(), state: entry.advance_safe(n)}): %s" % (mir.show(r)[:160] if r is not None else "?"))
                        if r is not None and r[0] == "agg" and r[2] == "Err":
                            probs.append("a rule failure is returned although the extern function returned Ok")
                    elif k == 1:
                        good = False
                        if r is not None and r[0] == "agg" and r[2] == "Err":
                            pe = r[3][0][1]
                            if is_call(pe, "report_error") and pe[2][0] == P1 and pe[2][1][0] == "agg" and pe[2][1][2] == "ExternRuleFailed" \
                                    and pe[2][1][3][0][1] == mir.mk("field", mir.mk("downcast", U, "Err"), "0"):
                                good = True
                        if not good:
                            probs.append("Err(e) is not turned into Err(entry.report_error(ExternRuleFailed{e})): %s" % (mir.show(r)[:160] if r is not None else "?"))
                        if r is not None and r[0] == "agg" and r[2] == "Ok":
                            probs.append("a rule success is returned although the extern function returned Err")
                    else:
                        probs.append("the function's result is not examined")
                if probs:
                    for pr in sorted(set(probs)):
                        chk.violation("C14.extern", tag + " " + pr.split(":")[0][:70], pr, cx.site(b))
                else:
                    chk.ok("C14.extern", tag, {"rule": tag, "paths": len(leaves)})
    chk.floor("C14.char", "@char check calls", n_char, 1)
    chk.floor("C14.extern", "@extern rule functions", n_ext, 3)


def field_accesses(cx, crate, owner_suffix, field):
    """All reads/writes of `<owner>.field` in crate: (fn path, bb, 'read'|'write'|'init', expr)."""
    out = []
    for p, f in crate.fns.items():
        if "mir" not in f:
            continue
        b = cx.body(crate, p)
        for i in sorted(b.reach):
            blk = b.blocks[i]
            for st in blk["stmts"]:
                if st["k"] != "assign":
                    continue
                pl = st["place"]
                if any(pe["k"] == "field" and pe["name"] == field and (pe.get("owner") or "").endswith(owner_suffix) for pe in pl["p"]):
                    out.append((p, i, "write", norm(b.expr_rv(st["rv"]))))
                rv = st["rv"]
                if rv["k"] == "agg" and rv.get("agg") == "adt" and rv["adt"].endswith(owner_suffix) and field in rv["fields"]:
                    idx = rv["fields"].index(field)
                    out.append((p, i, "init", norm(b.expr_op(rv["ops"][idx]))))
                for key in ("place",):
                    rp = rv.get(key)
                    if rp and any(pe["k"] == "field" and pe["name"] == field and (pe.get("owner") or "").endswith(owner_suffix) for pe in rp["p"]):
                        out.append((p, i, "read", None))
                for key in ("op", "a", "b"):
                    o = rv.get(key)
                    if isinstance(o, dict) and "place" in o and any(pe["k"] == "field" and pe["name"] == field and (pe.get("owner") or "").endswith(owner_suffix) for pe in o["place"]["p"]):
                        out.append((p, i, "read", None))
                for o in rv.get("ops", []):
                    if "place" in o and any(pe["k"] == "field" and pe["name"] == field and (pe.get("owner") or "").endswith(owner_suffix) for pe in o["place"]["p"]):
                        out.append((p, i, "read", None))
            t = blk["term"]
            ops = []
            if t["k"] == "call":
                ops = t["args"]
            elif t["k"] == "switch":
                ops = [t["discr"]]
            for o in ops:
                if "place" in o and any(pe["k"] == "field" and pe["name"] == field and (pe.get("owner") or "").endswith(owner_suffix) for pe in o["place"]["p"]):
                    out.append((p, i, "read", None))
    return out


def check_ctx(cx, chk):
    cg = cx.codegen
    acc = field_accesses(cx, cg, "CodegenSettings", "has_user_context")
    writers = sorted({short(p) for (p, i, k, e) in acc if k in ("write", "init")})
    readers = sorted({short(p) for (p, i, k, e) in acc if k == "read" and "Debug" not in p and "Clone" not in p})
    inits = [(short(p), e) for (p, i, k, e) in acc if k in ("write", "init")]
    problems = []
    for (fn, e) in inits:
        if fn == "Default::default" and e != ("const", "bool", False):
            problems.append("default settings enable the user context")
        if "set_user_context_type" in fn and e != ("const", "bool", True):
            problems.append("set_user_context_type does not set the flag")
        if fn not in ("Default::default", "Clone::clone") and "set_user_context_type" not in fn and "generate_code" not in fn:
            problems.append("unexpected writer of has_user_context: %s" % fn)
    if not any("set_user_context_type" in w for w in writers):
        problems.append("set_user_context_type does not write has_user_context")
    want_readers = {"generate_check_calls", "generate_code"}
    rd = {r.split("::")[-1] for r in readers}
    if not want_readers <= rd:
        problems.append("the hook templates do not both read the flag: readers=%s" % readers)
    if problems:
        for pr in problems:
            chk.violation("C14.ctx", pr[:80], pr)
    else:
        chk.ok("C14.ctx", "has_user_context", {"writers": writers, "readers": readers})
    # set_user_context_type also sets the type
    acc2 = field_accesses(cx, cg, "CodegenSettings", "user_context_type")
    w2 = sorted({short(p) for (p, i, k, e) in acc2 if k == "write"})
    if not any("set_user_context_type" in w for w in w2):
        chk.violation("C14.ctx", "user_context_type not set", "set_user_context_type does not set the context type")
    else:
        chk.ok("C14.ctx", "user_context_type", {"writers": w2})


def check_leftrec_checks(cx, chk):
    """A @check on a @leftrec rule that rejects a *grown* value is an ordinary failure of that growth step: the rule returns the
    match grown so far (shared with C07.exit: an Ok best result is never replaced on the way out of the growth loop)."""
    from . import wrapsem
    n = 0
    for w in wrapsem.cached(cx):
        if not w.ok or not w.leftrec:
            continue
        n += 1
        mine = [v for v in w.viol if v[0] == "exit" and v[1] == "replaces-ok-best"]
        for (rid, detail, msg, site) in mine:
            chk.violation("C14.check", "%s leftrec-growth-rejected" % w.tag, msg, site)
        if not mine:
            chk.ok("C14.check", "%s leftrec growth keeps the accepted match" % w.tag, {"wrapper": w.tag})
    chk.floor("C14.check", "leftrec wrappers examined for rejected growth", n, 2)


def run(cx, chk):
    chk.explanation = (
        "Structural rules over every generated rule wrapper with hooks: check calls take a reference to the final rule value "
        "(the one returned in Ok) plus the user context iff configured; every Ok return is dominated by the true edge of every "
        "check; a false check returns Err(report_error(value.state, CheckFunctionFailed)) - an ordinary failure; @char checks "
        "run on the next character of the entry state and dominate all alternatives; @extern functions receive s(entry) and "
        "their Ok((r,n))/Err(e) are mapped to r.into()+advance_safe(entry,n) / the extern error on the entry state. Generator "
        "level: the user-context flag has exactly the expected writers and both hook templates read it.")
    chk.assumptions = ["directive order of several @check's is compared with the grammar in the thorough tier (ebnf oracle)"]
    check_checks(cx, chk)
    check_leftrec_checks(cx, chk)
    check_char_and_extern(cx, chk)
    check_ctx(cx, chk)
    # "the rule consumes exactly the number of bytes the extern function reports": advance_safe moves the offset and the remaining
    # input together by that n (the cursor invariant, shared with C04)
    from . import c04
    c04.check_cursor(cx, chk, cx.runtime, "runtime")
    if "C04.cursor" in chk.rules:
        chk.rules["C14.extern.cursor"] = chk.rules.pop("C04.cursor")
