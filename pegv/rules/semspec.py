"""Helpers for rules that compare semantic summaries (sem.py) with a specification."""
from .. import mir, sem
from ..mir import mk, last, is_call


def find_fn(crate, suffix):
    ps = [p for p in crate.fns if mir.strip_generics(p).endswith(suffix) and "mir" in crate.fns[p] and "{closure" not in p]
    return ps[0] if ps else None


def adt_fields(crate, suffix):
    for a in crate.j.get("adts", []):
        if a.get("path", "").endswith(suffix):
            vs = a.get("variants", [])
            if len(vs) == 1:
                return [f["name"] for f in vs[0].get("fields", [])]
    return None


class Eta:
    """Equality of values modulo what a leaf assumes: a symbolic enum value whose variant is known is
    the same as the constructor applied to its payload (`x` with discr(x)=Some  ==  Some((x as Some).0))."""

    def __init__(self, S, leaf):
        self.S, self.facts = S, leaf.facts

    def norm(self, v):
        if not isinstance(v, tuple) or not v:
            return v
        if isinstance(v, mir.E):
            if v[0] == "downcast":
                return mk("downcast", self._inner(v[1]), v[2])
            if v[0] == "discr":
                return mk("discr", self._inner(v[1]))
            k = self.facts.get(mk("discr", v))
            if isinstance(k, int):
                en = self.S.enum_of.get(v)
                if en:
                    name = sem.VARIANTS[en][k]
                    if name == "None":
                        return sem.NONE
                    return sem.agg(en, name, self.norm(mk("field", mk("downcast", v, name), "0")))
            if v[0] == "agg" and v[1] in sem.VARIANTS and len(v[3]) == 1:
                p = v[3][0][1]
                # Some((x as Some).0) with x known to be Some: canonical form is the expansion itself
                return mk("agg", v[1], v[2], (("0", self.norm(p)),))
            return mir.E([v[0]] + [self.norm(a) if isinstance(a, tuple) else a for a in v[1:]])
        return tuple(self.norm(a) if isinstance(a, tuple) else a for a in v)

    def _inner(self, v):
        # below a downcast / discr the scrutinee itself is not expanded
        if isinstance(v, mir.E) and v[0] in ("field", "downcast"):
            return mir.E([v[0], self._inner(v[1])] + list(v[2:]))
        return v

    def same(self, a, b):
        return self.norm(a) == self.norm(b)


def fields(v, names):
    return {n: sem.get_field(v, n) for n in names}


def discr_case(leaf, x):
    """The variant index the leaf assumes for value x (None if unconstrained)."""
    k = leaf.facts.get(mk("discr", x))
    return k if isinstance(k, int) else None


def order_models(a, b):
    """Three models of the order of two opaque integer terms: a<b, a=b, a>b."""
    return [("<", {a: 1, b: 2}), ("=", {a: 2, b: 2}), (">", {a: 3, b: 2})]


def eval_cmp(atom, env):
    """Value of a canonical comparison atom under env (term -> int), None if it mentions other terms."""
    if atom[0] == "binop" and atom[1] in ("Le", "Eq", "Lt", "Ge", "Gt", "Ne"):
        x, y = env.get(atom[2]), env.get(atom[3])
        if x is None and atom[2][0] == "const" and isinstance(atom[2][2], int):
            x = atom[2][2]
        if y is None and atom[3][0] == "const" and isinstance(atom[3][2], int):
            y = atom[3][2]
        if x is None or y is None:
            return None
        return sem.CMP[atom[1]](x, y)
    return None


def eval_term(t, env):
    """Value of a term under env (term -> int / bool); None if it mentions anything env does not define."""
    if t in env:
        return env[t]
    k = t[0]
    if k == "const":
        return t[2] if isinstance(t[2], (int, bool)) else None
    if k == "binop":
        a, b = eval_term(t[2], env), eval_term(t[3], env)
        if a is None or b is None:
            return None
        if t[1] in sem.CMP:
            return sem.CMP[t[1]](a, b)
        if t[1] == "BitAnd":
            return a and b
        if t[1] == "BitOr":
            return a or b
        return None
    if k == "unop" and t[1] == "Not":
        a = eval_term(t[2], env)
        return None if a is None else (not a)
    if k == "cast":
        return eval_term(t[2], env)
    return None


def select_leaves(leaves, env, strict_on=None):
    """Leaves whose assumptions hold under env; atoms env does not interpret do not constrain (they are returned too)."""
    out, unknown = [], []
    for l in leaves:
        good = True
        for (a, v) in l.assume:
            r = eval_term(a, env)
            if r is None:
                if a not in unknown:
                    unknown.append(a)
                continue
            if isinstance(v, tuple) and v and v[0] == "not":
                if r in v[1]:
                    good = False
                    break
            elif r != v:
                good = False
                break
        if good:
            out.append(l)
    return out, unknown


def subst(t, env):
    """Replace sub-terms by env (term -> term)."""
    if not isinstance(t, tuple) or not t:
        return t
    if isinstance(t, mir.E):
        if t in env:
            return env[t]
        return mir.E([t[0]] + [subst(a, env) if isinstance(a, tuple) else a for a in t[1:]])
    return tuple(subst(a, env) if isinstance(a, tuple) else a for a in t)


def forall_loop(sm):
    """Recognise a boolean function of the shape `PRE-checks; for x in IT { if !BODY(x) { return false } } true`
    from its semantic summary: exactly one loop whose only loop-carried value is an iterator advanced by one `next()` per trip,
    `true` returned only when the iterator is exhausted, every trip that continues has assumed BODY, every other exit returns
    `false`.  Then  result == true  implies  PRE and BODY(x) for every x the iterator yields.
    -> {'pre': [(atom, value)], 'iter': initial iterator term, 'elem': x, 'body': [(atom, value)]} or None."""
    if sm is None or not sm.complete or sm.heap_in_loop or len(sm.loopbacks) < 1:
        return None
    TRUE, FALSE = sem.TRUE, sem.FALSE
    inits = set()
    for l in sm.leaves + sm.loopbacks:
        li = [ev[0] for ev in l.trace if ev[0][0] == "loopinit"]
        if len(li) > 1:
            return None
        if li:
            inits.add(li[0])
    if len(inits) != 1:
        return None
    li = inits.pop()
    cands = [(l_, v) for (l_, v) in li[3] if v[0] == "call"]
    if len(cands) != 1:
        return None
    it_local, I0 = cands[0]
    LV = mk("loopvar", li[1], li[2], it_local)
    NX = mk("call", "std::iter::Iterator::next", (LV,), None, ())

    def is_next(a):
        return a[0] == "discr" and is_call(a[1], "next") and a[1][2] and a[1][2][0] == LV
    x = None
    pre = None
    body = None
    for l in sm.loopbacks:
        nv = dict(l.ret[2]).get(it_local) if l.ret is not None else None
        nx = [a for (a, v) in l.assume if is_next(a) and v == 1]
        if len(nx) != 1 or nv is None or not (nv[0] == "post" and nv[1] == nx[0][1]):
            return None
        xx = mk("field", mk("downcast", nx[0][1], "Some"), "0")
        k = [i for i, (a, v) in enumerate(l.assume) if is_next(a)][0]
        p, bdy = list(l.assume[:k]), list(l.assume[k + 1:])
        if x is None:
            x, pre, body = xx, p, bdy
        elif (xx, p, bdy) != (x, pre, body):
            return None      # several ways round the loop: not this shape
    mentions_lv = lambda t: any(s_ == LV or (s_[0] == "loopvar") for s_ in mir.walk(t))
    if any(mentions_lv(a) for (a, v) in pre):
        return None
    for l in sm.leaves:
        if l.kind != "return":
            return None
        if l.ret == TRUE:
            k = [i for i, (a, v) in enumerate(l.assume) if is_next(a)]
            if len(k) != 1 or l.assume[k[0]][1] != 0 or list(l.assume[:k[0]]) != pre or len(l.assume) != k[0] + 1:
                return None
        elif l.ret != FALSE:
            return None
    return {"pre": pre, "iter": I0, "elem": x, "body": body}
