"""C19 — tracing changes nothing but the log.

pair   : every rule function brackets its whole computation by exactly one
         print_trace_start / print_trace_result pair on every path.
level  : tracer counters move only by +c in start and -c in result.
nonint : ParseTracer methods return () and see parse data by shared reference;
         the tracer field is only ever a receiver; parse data types are Freeze.
"""
from .. import mir
from ..mir import short, last, strip, walk
from . import common

LEVEL = "other"


def check_pair(cx, chk, inst):
    """Every rule function brackets its whole computation by exactly one print_trace_start / print_trace_result pair on every
    path - read off the wrapper summaries (wrapsem.RuleView): on every returning path the first event is the entry call with the
    entry state, the last event is the exit call with the value that is returned, and there is no other entry / exit call."""
    from . import wrapsem
    P1 = mir.mk("param", 1)
    views = wrapsem.rule_views(cx)
    traced = 0
    untraced = []
    rule_paths = set(inst.rule_fns.values())
    # tracer entry / exit calls outside rule functions
    for p, f in sorted(inst.fns.items()):
        if "mir" not in f or any(p == rp or p.startswith(rp + "::") for rp in rule_paths):
            continue
        b = cx.body(inst.crate, p)
        for i, t in b.calls():
            if common.is_tracer_call(t["func"]) in ("print_trace_start", "print_trace_result"):
                rest = p[len(inst.prefix) + 2:]
                chk.violation("C19.pair", "%s/%s nested-trace-call" % (inst.name, rest),
                              "trace entry/exit call outside a rule function (inside %s): entries and exits can no longer be paired per rule" % rest, cx.site(b, i))
    for rule, p in sorted(inst.rule_fns.items()):
        v = views.get((inst.name, rule))
        rest = p[len(inst.prefix) + 2:]
        tag = "%s/%s" % (inst.name, rest)
        b = cx.body(inst.crate, p)
        has_any = any(common.is_tracer_call(t["func"]) in ("print_trace_start", "print_trace_result")
                      for q in inst.fns if (q == p or q.startswith(p + "::")) and "mir" in inst.fns[q] for _, t in cx.body(inst.crate, q).calls())
        if not has_any:
            untraced.append(rest)
            continue
        if v is None or v.sm is None:
            chk.violation("C19.pair", "%s unsummarised" % tag, "a traced rule function could not be summarised: %s" % (v.problem if v else "?"), cx.site(b))
            continue
        problems = []
        for leaf in v.leaves:
            evs = []
            for idx, ev in enumerate(leaf.trace):
                t = ev[0]
                if t[0] != "call":
                    continue
                nm = last(t[1])
                if nm in ("print_trace_start", "print_trace_result", "print_informative") and ("ParseTracer" in t[1] or "Tracer" in t[1]):
                    evs.append((idx, nm, t))
            work = [idx for idx, ev in enumerate(leaf.trace) if ev[0][0] == "call" and last(ev[0][1]) not in ("print_trace_start", "print_trace_result", "print_informative")
                    and not (last(ev[0][1]) in ("clone",))]
            starts = [(i, t) for (i, nm, t) in evs if nm == "print_trace_start"]
            results = [(i, t) for (i, nm, t) in evs if nm == "print_trace_result"]
            if len(starts) != 1:
                problems.append("count start=%d" % len(starts))
                continue
            si, st_ = starts[0]
            if len(st_[2]) < 2 or st_[2][1] != P1:
                problems.append("the entry is traced with another state than the rule's entry state")
            if any(i < si for i in work):
                problems.append("work is done before the trace entry")
            if leaf.kind == "loopback":
                if results:
                    problems.append("trace exit inside a loop")
                continue
            if len(results) != 1:
                problems.append("count start=1 result=%d: a normal return %s the trace exit" % (len(results), "bypasses" if not results else "repeats"))
                continue
            ri, rt = results[0]
            if any(i > ri for i in work):
                problems.append("work is done after the trace exit")
            if len(rt[2]) < 2 or rt[2][1] != leaf.ret:
                problems.append("the value traced at the exit is not the value returned")
        if problems:
            for pr in sorted(set(problems)):
                chk.violation("C19.pair", "%s %s" % (tag, pr[:60]), "rule function %s: %s" % (rest, pr), cx.site(b))
        else:
            traced += 1
            chk.ok("C19.pair", tag, {"rule": tag, "paths": len(v.leaves)})
    return traced, untraced


def check_trace_panics(cx, chk):
    """Tracing never panics: every panic-capable construct in the functions the tracer implementations reach is discharged
    (the inventory and its justifications are C04.panic's; here restricted to the tracing side)."""
    from . import c04
    rt = cx.runtime
    roots = [p for p, f in rt.fns.items() if "mir" in f and ("Tracer" in p) and last(p) in ("print_trace_start", "print_trace_result", "print_informative", "new")]
    seen = set()
    work = list(roots)
    while work:
        p = work.pop()
        if p in seen or p not in rt.fns or "mir" not in rt.fns[p]:
            continue
        seen.add(p)
        b = cx.body(rt, p)
        for _, t in b.calls():
            f = t["func"]
            if f.get("indirect"):
                continue
            q = f.get("resolved") or f["path"]
            if q in rt.fns and q not in seen:
                work.append(q)
        for q in rt.fns:
            if q.startswith(p + "::{closure") and q not in seen:
                work.append(q)
    n = 0
    from . import guards
    G = guards.Guards(cx, rt)
    for p in sorted(seen):
        b = cx.body(rt, p)
        for i, kind, t in c04.panic_sites(b):
            if t["k"] == "call" and t.get("fn_exp") and kind.startswith("diverges"):
                continue
            n += 1
            key = (c04.fn_key(p), kind)
            tag = "runtime %s %s" % (key[0], kind)
            if key in c04.RUNTIME_PANIC_TABLE:
                chk.ok("C19.panic", tag, {"fn": key[0], "kind": kind, "reason": c04.RUNTIME_PANIC_TABLE[key]})
            elif kind in ("assert:overflow_Sub", "assert:bounds") and G.verdicts(p).get(i) == "proved":
                chk.ok("C19.panic", tag, {"fn": key[0], "kind": kind, "discharged_by": "the tests the function makes before the site exclude every value for which it fails"})
            else:
                chk.violation("C19.panic", tag, "panic-capable construct (%s) in %s, which the tracer reaches: parsing with tracing could panic where the plain "
                              "parse returns a result" % (kind, key[0]), cx.site(b, i))
    chk.ok("C19.panic", "tracer-reachable functions", {"functions": len(seen), "panic_capable_sites": n})
    chk.floor("C19.panic", "functions reachable from the tracers", len(seen), 3)


def check_level(cx, chk, crate, label):
    impls = common.impl_methods(crate, "ParseTracer")
    if not impls:
        chk.anchor_missing("C19.level", "impl ParseTracer (%s)" % label)
        return
    by_self = {}
    for f in impls:
        by_self.setdefault(f["impl_self"], []).append(f)
    for self_ty, fs in sorted(by_self.items()):
        deltas = {}
        for f in fs:
            if "mir" not in f:
                continue
            b = cx.body(crate, f["path"])
            m = last(f["path"])
            for i in sorted(b.reach):
                for st in b.blocks[i]["stmts"]:
                    if st["k"] != "assign":
                        continue
                    pl = st["place"]
                    # writes through self (arg 1) to a field
                    if pl["l"] == 1 and any(pe["k"] == "field" for pe in pl["p"]):
                        fld = [pe["name"] for pe in pl["p"] if pe["k"] == "field"][-1]
                        e = b.expr_rv(st["rv"])
                        deltas.setdefault(fld, []).append((m, e, b, i))
                    elif pl["l"] == 1 and pl["p"]:
                        deltas.setdefault("*self", []).append((m, b.expr_rv(st["rv"]), b, i))
        for fld, ws in deltas.items():
            tag = "%s %s.%s" % (label, self_ty, fld)
            plus = minus = None
            for (m, e, b, i) in ws:
                # e = field(binopWithOverflow(field, const), 0)
                s = e
                if s[0] == "field" and s[2] == "0":
                    s = s[1]
                ok = False
                if s[0] == "binop" and s[1] in ("AddWithOverflow", "Add", "SubWithOverflow", "Sub"):
                    a, c = strip(s[2]), s[3]
                    is_self_field = a[0] == "field" and a[2] == fld and strip(a[1]) == ("param", 1)
                    if is_self_field and c[0] == "const":
                        ok = True
                        if s[1].startswith("Add"):
                            if m != "print_trace_start":
                                chk.violation("C19.level", "%s +%s in %s" % (tag, c[2], m),
                                              "tracer counter incremented in %s (only print_trace_start may)" % m,
                                              cx.site(b, i))
                            else:
                                plus = c[2]
                        else:
                            if m != "print_trace_result":
                                chk.violation("C19.level", "%s -%s in %s" % (tag, c[2], m),
                                              "tracer counter decremented in %s (only print_trace_result may); "
                                              "with balanced entries/exits this underflows" % m, cx.site(b, i))
                            else:
                                minus = c[2]
                if not ok:
                    chk.violation("C19.level", "%s write in %s" % (tag, m),
                                  "unrecognised write to tracer state in %s: %s" % (m, mir.show(e)), cx.site(b, i))
            if plus is not None or minus is not None:
                if plus != minus:
                    chk.violation("C19.level", "%s unbalanced +%s/-%s" % (tag, plus, minus),
                                  "entry adds %s but exit subtracts %s" % (plus, minus))
                else:
                    chk.ok("C19.level", tag, {"counter": tag, "start": "+%s" % plus, "result": "-%s" % minus})
        # `new` must be a constant aggregate
        for f in fs:
            if last(f["path"]) == "new" and "mir" in f:
                b = cx.body(crate, f["path"])
                ds = b.defs.get(0, [])
                e = b.expr_rv(ds[0][3]) if len(ds) == 1 and ds[0][2] == "rv" else None
                if e is None or e[0] != "agg" or any(v[0] != "const" for (_, v) in e[3]):
                    chk.violation("C19.level", "%s %s::new not constant" % (label, self_ty),
                                  "tracer constructor is not a constant aggregate: %s" % (mir.show(e) if e else "?"),
                                  cx.site(b))
                else:
                    chk.ok("C19.level", "%s %s::new" % (label, self_ty), {"new": mir.show(e)})


def check_nonint(cx, chk):
    rt = cx.runtime
    decls = common.trait_methods(rt, "ParseTracer")
    if len(decls) < 3:
        chk.anchor_missing("C19.nonint", "trait ParseTracer methods")
    for f in decls:
        m = last(f["path"])
        if m == "new":
            continue
        if f["output"] != "()":
            chk.violation("C19.nonint", "ParseTracer::%s returns %s" % (m, f["output"]),
                          "tracer method returns a value (%s) that generated code could use" % f["output"])
        for i, t in enumerate(f["inputs"]):
            if i == 0:
                continue
            if not t.startswith("&") or t.startswith("&mut"):
                chk.violation("C19.nonint", "ParseTracer::%s arg%d %s" % (m, i, t),
                              "tracer method receives parse data other than by shared reference: %s" % t)
        chk.ok("C19.nonint", "sig " + m, {"method": m, "inputs": f["inputs"], "output": f["output"]})
    # parse data types contain no interior mutability
    for name in ("ParseState", "ParseOk", "ParseError", "ParseErrorSpecifics"):
        hits = common.adt_by_suffix(rt, name)
        if not hits:
            chk.anchor_missing("C19.nonint", name)
            continue
        for adt in hits:
            for v in adt["variants"]:
                for fld in v["fields"]:
                    st = common.field_freeze_status(adt, fld)
                    if st == "interior":
                        chk.violation("C19.nonint", "%s.%s interior-mutable" % (name, fld["name"]),
                                      "field %s.%s: %s is not Freeze: a tracer holding a shared reference could "
                                      "change parse data" % (name, fld["name"], fld["ty"]))
                    else:
                        chk.ok("C19.nonint", "%s.%s %s" % (name, fld["name"], st))
    # the tracer field is only ever the receiver of tracer methods
    n = 0
    for inst in cx.instances():
        for p, f in inst.fns.items():
            if "mir" not in f:
                continue
            b = cx.body(inst.crate, p)
            tr_locals = {}
            for i in b.reach:
                for st in b.blocks[i]["stmts"]:
                    if st["k"] != "assign":
                        continue
                    rv = st["rv"]
                    opj = rv.get("op") if isinstance(rv.get("op"), dict) else {}
                    pl = rv.get("place") or opj.get("place")
                    if pl and any(pe["k"] == "field" and pe["name"] == "tracer" and pe.get("owner", "").endswith("ParseGlobal") for pe in pl["p"]):
                        if st["place"]["p"]:
                            chk.violation("C19.nonint", "%s tracer-stored" % short(p), "tracer stored into a place", cx.site(b, i))
                        tr_locals[st["place"]["l"]] = i
            for l, di in tr_locals.items():
                for i in b.reach:
                    blk = b.blocks[i]
                    t = blk["term"]
                    for op in common.operands_of_block(blk):
                        if not common.uses_local(op, l):
                            continue
                        okuse = False
                        if t["k"] == "call" and t["args"] and t["args"][0] is op and common.is_tracer_call(t["func"]):
                            okuse = True
                        if not okuse:
                            chk.violation("C19.nonint", "%s/%s tracer-use" % (inst.name, short(p)),
                                          "global.tracer is used other than as the receiver of a ParseTracer method",
                                          cx.site(b, i))
                n += 1
    chk.ok("C19.nonint", "tracer field uses", {"tracer_borrows_checked": n})
    # ParseGlobal::new is the only constructor: tracer = TT::new()
    g = [p for p in rt.fns if mir.strip_generics(p).endswith("ParseGlobal::new")]
    if not g:
        chk.anchor_missing("C19.nonint", "ParseGlobal::new")
    else:
        b = cx.body(rt, g[0])
        # read off the summary with private helpers of the runtime inlined (a delegating constructor is still this constructor)
        from .. import sem as _sem
        e = tr = None
        try:
            gsm = _sem.Sem(cx, rt, inline=lambda p_: p_ in rt.fns and "mir" in rt.fns[p_] and "{closure" not in p_ and not rt.fns[p_].get("unsafe")
                           and "Tracer" not in p_).summarize(g[0])
        except _sem.SemLimit:
            gsm = None
        if gsm is not None and len(gsm.returns) == 1 and gsm.complete:
            e = gsm.returns[0].ret
            tr = dict(e[3]).get("tracer") if e is not None and e[0] == "agg" else None
        if tr is None or tr[0] != "call" or last(tr[1]) != "new" or tr[2] or "Tracer" not in tr[1]:
            chk.violation("C19.nonint", "ParseGlobal::new tracer", "tracer is not built by TT::new(): %s" % (mir.show(e) if e else "?"), cx.site(b))
        else:
            chk.ok("C19.nonint", "ParseGlobal::new", {"tracer": mir.show(tr)})


def run(cx, chk):
    chk.explanation = (
        "Dominance/post-dominance rule over every generated rule function: one trace entry dominates, one trace "
        "exit post-dominates all work and every normal return, neither is in a loop, no trace entry/exit call "
        "exists anywhere else in generated code, and the value returned is the value shown to the tracer. "
        "Runtime: tracer counters change only by +c (entry) / -c (exit). Non-interference by types: tracer "
        "methods return (), get parse data by shared reference, parse data types have no interior mutability, "
        "and global.tracer is only ever a method receiver.")
    total = 0
    untraced_total = 0
    for inst in cx.instances():
        traced, untraced = check_pair(cx, chk, inst)
        total += traced
        untraced_total += len(untraced)
        chk.count("C19.pair", traced)
        # oracle: exactly the @char / @extern rules of the grammar text are untraced
        g = cx.grammar_of(inst)
        if g is None:
            chk.violation("C19.pair", "%s grammar-unreadable" % inst.name, "cannot read the grammar text of instance %s to decide which rules must be traced" % inst.name)
        else:
            want = sorted("parse_" + r.name for r in g.rules if r.kind in ("char", "extern"))
            if sorted(untraced) != want:
                chk.violation("C19.pair", "%s untraced-set" % inst.name,
                              "rule functions without trace entry/exit are %s but the grammar's @char/@extern rules are %s" % (sorted(untraced), want))
            else:
                chk.ok("C19.pair", "%s untraced = @char/@extern" % inst.name, {"instance": inst.name, "untraced": want})
    chk.floor("C19.pair", "traced rule wrappers", total, 259)
    chk.extra["untraced_rule_fns"] = untraced_total
    check_trace_panics(cx, chk)
    check_level(cx, chk, cx.runtime, "runtime")
    if cx.runtime_nodefault is not None:
        check_level(cx, chk, cx.runtime_nodefault, "runtime(no-default-features)")
    check_nonint(cx, chk)
