"""C01 — generated parsers recognise exactly the PEG language of the grammar.

prim : contracts of the terminal matchers, decided by enumerating scenarios (emptiness,
       ASCII-ness of the parameters, orderings of input char vs parameters, prefix test
       outcomes) over the extracted decision tree of each matcher.
ax   : combinator axioms the templates rely on (map_inner / discard_result touch only the
       Ok result; ChoiceHelper; state-preserving maps) - cross references to C09.rt / C10.choice.
gen  : Sequence / Choice templates iterate their parts in declaration order.
tv   : (lifter) every analysed rule denotes its grammar expression - see lift.py.
"""
import itertools

from .. import mir, finite
from ..mir import short, last, strip, walk, norm, is_call
from . import common, c04, c09, c10

LEVEL = "translation_validation"
LEVEL_THOROUGH = "translation_validation"

S1 = ("param", 1)


def term(e, b):
    """'X' for the first byte/char of the input, ('P', k) for parameter k, else None."""
    if e[0] == "cast":
        return term(e[2], b)
    if e == S1:
        return None
    if e[0] == "param":
        return ("P", e[1])
    if c04.is_byte0(e, S1):
        return "X"
    if c04.first_char_source(e, S1):
        return "X"
    return None


class Scen(dict):
    pass


def eval_atom(e, sc, info, cx, crate):
    """Value of atom expression e in scenario sc (bool / int for discriminants) or None if not recognised."""
    if is_call(e, "is_empty") and len(e[2]) == 1 and (e[2][0] == S1 or c04.is_state_s(e[2][0], S1)):
        return sc["empty"]
    if is_call(e, "is_ascii") and len(e[2]) == 1 and e[2][0][0] == "param":
        return sc[("ascii", e[2][0][1])]
    if is_call(e, "starts_with") and len(e[2]) == 2 and c04.is_state_s(e[2][0], S1) and e[2][1][0] == "param":
        if "char" in (e[4] if len(e) > 4 else ()):
            return (not sc["empty"]) and sc["X"] == sc[("P", e[2][1][1])]
        info["prefix_param"] = e[2][1][1]
        return sc["sw"]
    if is_call(e, "is_ascii_whitespace") and len(e[2]) == 1 and c04.is_byte0(e[2][0], S1):
        return sc["ws"]
    if is_call(e, "eq") and len(e[2]) == 2:
        # bytes(v) == fold(take(bytes(s)))
        a, bb = e[2]
        if not (is_call(a, "bytes") and a[2][0][0] == "param"):
            a, bb = bb, a
        if is_call(a, "bytes") and a[2][0][0] == "param":
            cur, took, clo = bb, None, None
            for _ in range(2):
                if is_call(cur, "take") and len(cur[2]) == 2:
                    took = cur[2][1]
                    cur = cur[2][0]
                elif is_call(cur, "map") and len(cur[2]) == 2:
                    clo = cur[2][1]
                    cur = cur[2][0]
            if is_call(cur, "bytes") and c04.is_state_s(cur[2][0], S1) and took is not None and clo is not None:
                info["fold"] = c04.closure_is_lowercase(cx, crate, clo)
                info["take"] = took
                info["prefix_param"] = a[2][0][1]
                return sc["itereq"]
    if e[0] == "call" and len(e[2]) == 2 and crate is not None and (e[3] or e[1]) in crate.fns:
        r = c04.prefix_helper(cx, crate, e, S1)
        if r is not None and r[0][0] == "param":
            info["fold"] = r[1]
            info["take"] = mir.mk("call", "str::len", (r[0],), None, ())
            info["prefix_param"] = r[0][1]
            return sc["itereq"]
    if e[0] == "discr" and is_call(e[1], "next") and is_call(e[1][2][0], "chars") and c04.is_state_s(e[1][2][0][2][0], S1):
        return 0 if sc["empty"] else 1
    if e[0] == "discr":
        inner = e[1]
        # discr(Try::branch(ok_or_else(next(chars(s)), ..)))  0 = Continue ; discr(next(chars)) 1 = Some
        x = inner
        via_try = False
        if is_call(x, "branch"):
            via_try = True
            x = x[2][0]
        if is_call(x, "ok_or_else", "ok_or"):
            info["none_closure"] = x[2][1] if len(x[2]) > 1 else None
            x = x[2][0]
        if is_call(x, "next") and is_call(x[2][0], "chars") and c04.is_state_s(x[2][0][2][0], S1):
            if via_try:
                return 1 if sc["empty"] else 0
            return 0 if sc["empty"] else 1
    if e[0] == "binop" and e[1] in ("Lt", "Le", "Gt", "Ge", "Eq", "Ne"):
        l, r = e[2], e[3]
        # fold(byte0) ==/!= c as u8
        for x, y in ((l, r), (r, l)):
            ty = term(y, None)
            if ty is not None and ty != "X":
                for sub in walk(x):
                    if c04.is_byte0(sub, S1) and x != sub and c04.highbit_preserving(x, sub):
                        info["fold"] = c04.highbit_preserving(x, sub)
                        info["fold_param"] = ty[1]
                        v = sc["foldeq"]
                        return v if e[1] == "Eq" else (not v)
        tl, tr = term(l, None), term(r, None)
        if tl is not None and tr is not None:
            if sc["empty"] and "X" in (tl, tr):
                return None
            a = sc["X"] if tl == "X" else sc[tl]
            c = sc["X"] if tr == "X" else sc[tr]
            return {"Lt": a < c, "Le": a <= c, "Gt": a > c, "Ge": a >= c, "Eq": a == c, "Ne": a != c}[e[1]]
    return None


def classify(e, b, cx, crate):
    """('ok', result expr, state expr) | ('err', variant, fields dict, state expr) | ('?', e)"""
    if e is None:
        return ("?", None)
    if e[0] == "agg" and e[2] == "Ok":
        po = e[3][0][1]
        if po[0] == "agg" and po[1].endswith("ParseOk"):
            d = dict(po[3])
            return ("ok", d.get("result"), d.get("state"))
    if e[0] == "agg" and e[2] == "Err":
        pe = e[3][0][1]
        if is_call(pe, "report_error") and len(pe[2]) == 2 and pe[2][1][0] == "agg":
            st = pe[2][0]
            st = st[2][0] if is_call(st, "clone") else st
            return ("err", pe[2][1][2], dict(pe[2][1][3]), st)
    if is_call(e, "from_residual"):
        # Break payload of `ok_or_else(next(chars(s)), closure)?`
        for s_ in walk(e):
            if is_call(s_, "ok_or_else") and len(s_[2]) == 2 and s_[2][1][0] == "closure":
                clo = s_[2][1]
                cb = cx.body(crate, clo[1])
                if cb is not None:
                    ds = cb.defs.get(0, [])
                    if len(ds) == 1 and ds[0][2] == "call":
                        ce = norm(cb.expr_call(ds[0][3]))
                        if is_call(ce, "report_error") and ce[2][1][0] == "agg":
                            st = ce[2][0]
                            st = st[2][0] if is_call(st, "clone") else st
                            # upvar -> captured operand in the matcher
                            if st[0] == "upvar" and st[1] < len(clo[2]):
                                st = clo[2][st[1]]
                            fields = {}
                            for (n_, v_) in ce[2][1][3]:
                                if v_[0] == "upvar" and v_[1] < len(clo[2]):
                                    v_ = clo[2][v_[1]]
                                fields[n_] = v_
                            return ("err", ce[2][1][2], fields, st)
    return ("?", e)


def advance_of(st):
    """Length expression if st = advance(param1, L) else None; 'same' if st is param1."""
    if st == S1:
        return "same"
    if is_call(st, "advance", "advance_safe") and len(st[2]) == 2 and st[2][0] == S1:
        return st[2][1]
    return None


CONTRACTS = {}


def contract(name):
    def deco(f):
        CONTRACTS[name] = f
        return f
    return deco


def P(k):
    return ("param", k)


def check_matcher(cx, chk, crate, p, label):
    b = cx.body(crate, p)
    name = last(p)
    spec = CONTRACTS.get(name)
    if spec is None:
        return 0
    from .. import sem
    try:
        sm = sem.Sem(cx, crate).summarize(p)
    except sem.SemLimit as ex:
        chk.violation("C01.prim", "%s %s paths" % (label, name), str(ex), cx.site(b))
        return 0
    if not sm.complete or sm.loopbacks:
        chk.violation("C01.prim", "%s %s loop" % (label, name), "terminal matcher %s contains a loop the contract model does not summarise" % name, cx.site(b))
        return 0
    rows = [([(a, v) for (a, v) in leaf.assume], leaf.ret if leaf.kind == "return" else None, leaf) for leaf in sm.leaves]
    nparams = b.arg_count
    char_params = [k for k in range(2, nparams + 1) if b.ty(k) == "char"]
    # scenario space
    dims = {"empty": [True, False], "sw": [True, False], "itereq": [True, False], "foldeq": [True, False], "ws": [True, False],
            "X": [0, 1, 2]}
    for k in char_params:
        dims[("ascii", k)] = [True, False]
        dims[("P", k)] = [0, 1, 2]
    used = set()
    info = {}
    # first pass: which dimensions do the atoms touch?
    probe = Scen({d: v[0] for d, v in dims.items()})

    class Rec(dict):
        def __getitem__(self, k):
            used.add(k)
            return dict.__getitem__(self, k)
    unknown = []
    for (atoms, v, pth) in rows:
        for (e, val) in atoms:
            r1 = eval_atom(e, Rec(probe), info, cx, crate)
            r2 = eval_atom(e, Rec(Scen({d: vv[-1] for d, vv in dims.items()})), info, cx, crate)
            if r1 is None and r2 is None:
                unknown.append(e)
    if unknown:
        for e in unknown[:3]:
            chk.violation("C01.prim", "%s %s unrecognised-condition" % (label, name),
                          "terminal matcher %s branches on a condition the contract model cannot interpret: %s" % (name, mir.show(e)[:200]), cx.site(b))
        return 0
    used |= set(spec.__dict__.get("dims", ()))
    ds = sorted(used, key=str)
    n_scen = 0
    problems = []
    for combo in itertools.product(*[dims[d] for d in ds]):
        sc = Scen({d: v[0] for d, v in dims.items()})
        sc.update(dict(zip(ds, combo)))
        want = spec(sc, info)
        if want is None:
            continue        # scenario outside the contract's domain
        n_scen += 1
        sel = []
        for (atoms, v, pth) in rows:
            okrow = True
            for (e, val) in atoms:
                r = eval_atom(e, sc, info, cx, crate)
                if r is None:
                    continue
                if r != val and not (isinstance(val, tuple) and val[0] == "not" and r not in val[1]):
                    okrow = False
                    break
            if okrow:
                sel.append((v, pth))
        outs = {str(classify(v, b, cx, crate)[:2]) for (v, pth) in sel}
        if len(sel) == 0:
            problems.append("no return path for scenario %s" % dict(zip(map(str, ds), combo)))
            continue
        cls = [classify(v, b, cx, crate) for (v, pth) in sel]
        kinds = {c[0] for c in cls}
        if kinds != {want[0]}:
            problems.append("scenario %s: expected %s, the code returns %s" % (dict(zip(map(str, ds), combo)), want[0].upper(), sorted(k.upper() for k in kinds)))
            continue
        for c in cls:
            if c[0] == "ok":
                res, st = c[1], c[2]
                adv = advance_of(st)
                exp_res, exp_adv = want[1], want[2]
                if not exp_res(res):
                    problems.append("Ok result is %s" % mir.show(res)[:100])
                if adv is None or not exp_adv(adv):
                    problems.append("Ok state is %s" % mir.show(st)[:120])
            elif c[0] == "err":
                variant, fields, st = c[1], c[2], c[3]
                if st != S1:
                    problems.append("failure reported on %s, not on the entry state" % mir.show(st)[:80])
                if variant != want[1]:
                    problems.append("failure detail is %s, expected %s" % (variant, want[1]))
                for fn_, fv in fields.items():
                    if not (fv[0] == "param"):
                        problems.append("failure detail field %s is %s" % (fn_, mir.show(fv)[:60]))
    problems = sorted(set(problems))
    if problems:
        for pr in problems[:4]:
            chk.violation("C01.prim", "%s %s %s" % (label, name, pr.split(":")[0][:60]),
                          "terminal matcher %s violates its documented contract: %s" % (name, pr), cx.site(b))
    else:
        chk.ok("C01.prim", "%s %s" % (label, name), {"matcher": name, "scenarios": n_scen, "return_paths": len(rows), "dimensions": [str(d) for d in ds]})
    if info.get("fold") not in (None, "lower") or (name.endswith("_insensitive") and info.get("fold") != "lower"):
        chk.violation("C01.prim", "%s %s fold" % (label, name),
                      "case-insensitive matcher %s does not compare to_ascii_lowercase(input) with the (lower-cased) literal (fold kind: %s): "
                      "non-letter characters would match/mismatch wrongly" % (name, info.get("fold")), cx.site(b))
    return n_scen


def is_len_utf8_of(adv, what):
    return is_call(adv, "len_utf8") and len(adv[2]) == 1 and what(adv[2][0])


def is_X(e):
    return term(e, None) == "X"


@contract("parse_end_of_input")
def _eoi(sc, info):
    if sc["empty"]:
        return ("ok", lambda r: r is not None and r[0] == "tuple" and not r[1], lambda a: a == "same")
    return ("err", "ExpectedEoi")


@contract("parse_string_literal")
def _strlit(sc, info):
    if sc["sw"]:
        return ("ok", lambda r: r == P(2), lambda a: is_call(a, "len") and a[2][0] == P(2))
    return ("err", "ExpectedString")
_strlit.dims = ("sw",)


@contract("parse_character_literal")
def _chrlit(sc, info):
    if (not sc["empty"]) and sc["X"] == sc[("P", 2)]:
        return ("ok", lambda r: r == P(2), lambda a: a == ("const", "usize", 1) or is_len_utf8_of(a, lambda v: v == P(2)))
    return ("err", "ExpectedCharacter")
_chrlit.dims = ("empty", "X", ("P", 2), ("ascii", 2))


@contract("parse_character_range")
def _range(sc, info):
    if (not sc["empty"]) and sc[("P", 2)] <= sc["X"] <= sc[("P", 3)]:
        return ("ok", lambda r: is_X(r), lambda a: a == ("const", "usize", 1) or is_len_utf8_of(a, is_X))
    return ("err", "ExpectedCharacterRange")
_range.dims = ("empty", "X", ("P", 2), ("P", 3), ("ascii", 2), ("ascii", 3))


@contract("parse_string_literal_insensitive")
def _istr(sc, info):
    if sc["itereq"]:
        return ("ok", lambda r: r == P(2), lambda a: is_call(a, "len") and a[2][0] == P(2))
    return ("err", "ExpectedString")
_istr.dims = ("itereq",)


@contract("parse_character_literal_insensitive")
def _ichr(sc, info):
    if (not sc["empty"]) and sc["foldeq"]:
        return ("ok", lambda r: r == P(2), lambda a: a == ("const", "usize", 1))
    return ("err", "ExpectedCharacter")
_ichr.dims = ("empty", "foldeq")


@contract("parse_char")
def _anychar(sc, info):
    if not sc["empty"]:
        return ("ok", is_X, lambda a: is_len_utf8_of(a, is_X))
    return ("err", "ExpectedAnyCharacter")
_anychar.dims = ("empty",)


def check_prim(cx, chk, crate, label):
    n = 0
    total = 0
    for p, f in sorted(crate.fns.items()):
        if "mir" not in f or "::builtin_parsers::" not in p or f["kind"] != "Fn":
            continue
        if last(p) in CONTRACTS:
            n += 1
            total += check_matcher(cx, chk, crate, p, label)
    chk.floor("C01.prim", "%s terminal matchers with a contract" % label, n, 7)
    chk.floor("C01.prim", "%s scenarios evaluated" % label, total, 60)
    # the string-insensitive matcher takes exactly len(literal) bytes
    # parse_Whitespace: loop structure (always Ok, returns the last state, continues on the byte class) - C08.set + below
    ps = [p for p in crate.fns if p.endswith("builtin_parsers::parse_Whitespace")]
    if ps:
        check_ws_loop(cx, chk, crate, ps[0], label)


def check_ws_loop(cx, chk, crate, p, label):
    """The builtin whitespace skipper is `state := entry; while !empty(state) && class(first byte) { state := advance(state, 1) }; Ok(((), state))`,
    read off the loop summary: one havocked loop variable, its initial value, the trip round the loop and the exits."""
    from .. import sem
    b = cx.body(crate, p)
    probs = []
    try:
        sm = sem.Sem(cx, crate).summarize(p)
    except sem.SemLimit as ex:
        sm = None
        probs.append(str(ex))
    if sm is not None:
        if not sm.complete or not sm.loopbacks:
            probs.append("no single loop found")
        LV = None
        for leaf in sm.leaves + sm.loopbacks:
            inits = [ev[0] for ev in leaf.trace if ev[0][0] == "loopinit"]
            if len(inits) != 1:
                probs.append("more than one loop")
                continue
            st_inits = [(l, v) for (l, v) in inits[0][3] if v == S1]
            if len(st_inits) != 1:
                probs.append("the loop does not start from the entry state")
                continue
            LV = mir.mk("loopvar", inits[0][1], inits[0][2], st_inits[0][0])

            def holds(pred, want):
                return any(v is want and pred(a) for (a, v) in leaf.assume)
            nonempty = holds(lambda a: is_call(a, "is_empty") and len(a[2]) == 1 and (a[2][0] == LV or c04.is_state_s(a[2][0], LV)), False)
            empty = holds(lambda a: is_call(a, "is_empty") and len(a[2]) == 1 and (a[2][0] == LV or c04.is_state_s(a[2][0], LV)), True)
            inclass = holds(lambda a: is_call(a, "is_ascii_whitespace") and c04.is_byte0(a[2][0], LV), True)
            notclass = holds(lambda a: is_call(a, "is_ascii_whitespace") and c04.is_byte0(a[2][0], LV), False)
            if leaf.kind == "loopback":
                nv = dict(leaf.ret[2]).get(LV[3])
                if not (nv is not None and is_call(nv, "advance") and tuple(nv[2]) == (LV, mir.mk("const", "usize", 1))):
                    probs.append("a trip round the loop does not advance the state by one byte: %s" % (mir.show(nv)[:100] if nv else "?"))
                if not (nonempty and inclass):
                    probs.append("the loop continues without a non-empty input whose first byte is in the class")
            elif leaf.kind == "return":
                r = leaf.ret
                c = classify(r, b, cx, crate)
                if not (c[0] == "ok" and c[2] == LV and c[1] is not None and c[1][0] == "tuple" and not c[1][1]):
                    probs.append("returns %s instead of Ok(((), last state))" % mir.show(r)[:120])
                if not (empty or (nonempty and notclass)):
                    probs.append("the loop can stop although the first byte is in the class")
            else:
                probs.append("a path ends in a %s" % leaf.kind)
    if not probs:
        chk.ok("C01.prim", "%s parse_Whitespace loop" % label, {"returns": "Ok((), last state)", "loop": "state = advance(state, 1) while first byte in class",
                                                                 "leaves": len(sm.leaves), "loopbacks": len(sm.loopbacks)})
    else:
        chk.violation("C01.prim", "%s parse_Whitespace shape" % label, "builtin whitespace skipper is not `loop { state = advance(state,1) } ; Ok(((), state))`: %s"
                      % sorted(set(probs)), cx.site(b))


def check_ax(cx, chk):
    """map_inner / discard_result decided from their semantic summaries (helpers inlined): Ok(ok) -> Ok(ParseOk{f(ok.result), ok.state}),
    Err(e) -> Err(e)."""
    from .. import sem
    from . import semspec
    rt = cx.runtime
    P1, P2 = mir.mk("param", 1), mir.mk("param", 2)
    OKV = mir.mk("field", mir.mk("downcast", P1, "Ok"), "0")
    ERRV = mir.mk("field", mir.mk("downcast", P1, "Err"), "0")
    for nm in ("map_inner", "discard_result"):
        ps = [p for p in rt.fns if last(p) == nm and "ParseResultExtras" in p and "mir" in rt.fns[p] and not p.endswith("}")]
        ps = [p for p in ps if rt.fns[p].get("impl_trait") or "as parse_result::ParseResultExtras" in p]
        if not ps:
            chk.anchor_missing("C01.ax", "ParseResultExtras::%s impl" % nm)
            continue
        b = cx.body(rt, ps[0])
        S = sem.Sem(cx, rt, inline=lambda q: "parse_result" in q or "ParseResultExtras" in q or "ParseOk" in q)
        S.enum_of[P1] = sem.RESULT
        try:
            sm = S.summarize(ps[0])
        except sem.SemLimit as ex:
            chk.violation("C01.ax", nm, "%s could not be summarised: %s" % (nm, ex), cx.site(b))
            continue
        probs = []
        for leaf in sm.leaves:
            if leaf.kind != "return":
                probs.append("a path ends in a %s" % leaf.kind)
                continue
            eta = semspec.Eta(S, leaf)
            dc = semspec.discr_case(leaf, P1)
            r = leaf.ret
            if dc == 1:
                if not eta.same(r, sem.err(ERRV)):
                    probs.append("Err(e) gives %s" % mir.show(r)[:120])
            elif dc == 0:
                x = sem.get_field(r, "0") if r[0] == "agg" and r[2] == "Ok" else None
                if x is None:
                    probs.append("Ok(ok) gives %s" % mir.show(r)[:120])
                    continue
                fs = semspec.fields(x, ["result", "state"])
                if fs["state"] != mir.mk("field", OKV, "state"):
                    probs.append("Ok(ok) changes the state: %s" % mir.show(fs["state"])[:100])
                res = fs["result"]
                if nm == "map_inner":
                    if not (res[0] == "icall" and res[1] == P2 and tuple(res[2]) == (mir.mk("field", OKV, "result"),)):
                        probs.append("Ok(ok) maps the result to %s" % mir.show(res)[:100])
                elif not (res[0] == "tuple" and not res[1]) and not (res[0] == "const" and res[1] == "()"):
                    probs.append("Ok(ok) result is %s, not ()" % mir.show(res)[:100])
            else:
                probs.append("the result is not examined: %s" % leaf.show()[:120])
        if not probs:
            chk.ok("C01.ax", nm, {nm: "Ok(ok) -> Ok(ParseOk{%s, ok.state}); Err(e) -> Err(e)" % ("f(ok.result)" if nm == "map_inner" else "()"), "leaves": len(sm.leaves)})
        else:
            chk.violation("C01.ax", nm, "%s does not map only the Ok result while keeping state and Err: %s" % (nm, sorted(set(probs))), cx.site(b))
    c09.check_rt(cx, chk)      # map / map_with_state keep the state (records under C09.rt keys)
    c10.check_choice(cx, chk)  # ChoiceHelper: first success wins, alternatives start from a clone of the entry state
    for old, new in (("C09.rt", "C01.ax.maps"), ("C10.choice", "C01.ax.choice")):
        if old in chk.rules:
            chk.rules[new] = chk.rules.pop(old)


def check_gen(cx, chk):
    """Sequence / Choice templates visit parts / choices with iter().enumerate() and no reordering adaptor."""
    cg = cx.codegen
    n = 0
    # adaptors that drop, duplicate or permute elements.  Plain reversal (`rev`, `rfold`, `next_back`) is not listed: building nested
    # code inside-out is a legitimate way to emit the parts in declaration order, and an emission in the wrong order is what C01.tv
    # reports on every analysed grammar with two parts.
    bad_adaptors = ("sort", "sort_by", "sort_by_key", "sort_unstable", "reverse", "skip", "step_by", "take", "skip_while", "take_while", "dedup", "swap", "rotate_left", "rotate_right", "shuffle", "pop", "remove", "swap_remove", "split_off", "truncate", "drain")
    for p, f in sorted(cg.fns.items()):
        if "mir" not in f or "::grammar::generated::" in p:
            continue
        if not any(x in p for x in ("Sequence", "Choice", "sequence::", "choice::", "closure::", "optional::", "CharRule", "char_rule::")):
            continue
        b = cx.body(cg, p)
        for i, t in b.calls():
            fn = t["func"]
            if fn.get("indirect"):
                continue
            l = last(fn["path"])
            if l in bad_adaptors and ("iter" in fn["path"].lower() or "slice" in fn["path"] or "Vec" in fn["path"]):
                recv = norm(b.expr_op(t["args"][0])) if t["args"] else None
                if recv is not None and any(s_[0] == "field" and s_[2] in ("parts", "choices", "body") for s_ in walk(recv)):
                    chk.violation("C01.gen", "%s %s on parts" % (short(p), l),
                                  "%s applies `%s` to the parts/choices it iterates: sequences would not match left to right / choices not in order"
                                  % (short(p), l), cx.site(b, i))
            if l in ("enumerate", "iter") and t["args"]:
                recv = norm(b.expr_op(t["args"][0]))
                if any(s_[0] == "field" and s_[2] in ("parts", "choices") for s_ in walk(recv)):
                    n += 1
    chk.ok("C01.gen", "iteration sites", {"iter_sites_over_parts_or_choices": n})
    chk.floor("C01.gen", "iteration sites over parts/choices", n, 4)


def check_gen_literals(cx, chk):
    """Literal / range constants reach the emitted code unchanged (or ASCII-lower-cased in the insensitive arms)."""
    from . import templates
    cg = cx.codegen
    n = 0
    for p, f in sorted(cg.fns.items()):
        if "mir" not in f or last(p) != "generate_inline_body":
            continue
        q = mir.qself(p)
        if not q or last(q[0]) not in ("StringLiteral", "CharacterRange"):
            continue
        b = cx.body(cg, p)
        evs = templates.events(cx, cg, b)
        holes = [ev for ev in evs if ev["kind"] == "hole"]
        if last(q[0]) == "StringLiteral":
            # read off the semantic summary: on every returning path the literal handed to the selected matcher is the decoded
            # literal itself (or its only character), lower-cased exactly on the case-insensitive paths
            from .. import sem
            try:
                sm, sels = templates.matcher_selections(cx, cg, p)
            except sem.SemLimit as ex:
                chk.violation("C01.gen", "StringLiteral unsummarised", str(ex), cx.site(b))
                continue
            X = None
            for (leaf, name, vals, ev) in sels:
                for v in vals:
                    n += 1
                    src = [s_ for s_ in walk(v) if is_call(s_, "try_from") and s_[2] and s_[2][0] == ("param", 1)]
                    X = mir.mk("field", mir.mk("downcast", src[0], "Ok"), "0") if src else None
                    allowed = {"unwrap", "next", "chars", "deref", "as_str", "as_ref", "clone", "to_string", "to_owned"}
                    if name.endswith("_insensitive"):
                        allowed = allowed | {"to_ascii_lowercase"}
                    if X is None or not templates.derives_from(v, X, allowed):
                        extra = [last(s_[1]) for s_ in walk(v) if s_[0] == "call" and last(s_[1]) not in allowed and last(s_[1]) != "try_from"]
                        chk.violation("C01.gen", "StringLiteral literal passes through %s" % (extra[0] if extra else "?"),
                                      "the literal emitted for %s is not the decoded literal itself (or its ASCII lower-case): it passes "
                                      "through %s - %s" % (name, extra, mir.show(v)[:200]), cx.site(b, ev[2][1]))
                    else:
                        chk.ok("C01.gen", "StringLiteral %s literal %s" % (name, mir.show(v)[:50]), {"matcher": name, "emitted": mir.show(v)[:160]})
            if not sels:
                chk.violation("C01.gen", "StringLiteral no-selection", "no returning path of StringLiteral::generate_inline_body hands a terminal matcher name on", cx.site(b))
        else:
            # quote!(#from, #to): the stream passed to the skip helper
            for i, t in b.calls():
                if t["func"].get("indirect") or last(t["func"]["path"]) != "generate_skip_ws":
                    continue
                from . import templates as T
                stream = T.ref_target(b, t["args"][2]) if t["args"][2].get("k") in ("move", "copy") else None
                sl = norm(b.expr_op(t["args"][2]))
                toks = None
                if sl[0] == "local":
                    toks = T.stream_tokens(b, evs, sl[1])
                else:
                    # moved single-def stream: find the stream local by following the move
                    a = t["args"][2]
                    if a.get("k") in ("move", "copy") and not a["place"]["p"]:
                        d = b.defs.get(a["place"]["l"], [])
                        if len(d) == 1 and d[0][2] == "rv" and d[0][3]["k"] == "use" and "place" in d[0][3]["op"]:
                            toks = T.stream_tokens(b, evs, d[0][3]["op"]["place"]["l"])
                        else:
                            toks = T.stream_tokens(b, evs, a["place"]["l"])
                n += 1
                m = T.match_tokens(toks or [], [("hole", "from"), ",", ("hole", "to")])

                def side(e, fld):
                    # (Try::branch(TryInto::try_into(&self.<fld>)) as Continue).0
                    return any(is_call(s_, "try_into", "try_from") and any(x == ("field", ("param", 1), fld) for x in walk(s_)) for s_ in walk(e)) \
                        and not any(s_[0] == "call" and last(s_[1]) not in ("try_into", "try_from", "branch", "deref") for s_ in walk(e))
                if m and side(m["from"], "from") and side(m["to"], "to"):
                    chk.ok("C01.gen", "CharacterRange bounds", {"emitted": "#from, #to = decoded self.from, self.to"})
                else:
                    chk.violation("C01.gen", "CharacterRange bounds", "the range bounds emitted are not (decoded self.from, decoded self.to) in that order: %s"
                                  % (T.show_tokens(toks or [])[:200]), cx.site(b, i))
    chk.floor("C01.gen", "literal emission sites", n, 3)


def run(cx, chk):
    chk.explanation = (
        "Tier 1: (prim) each terminal matcher's extracted decision tree is evaluated over all scenarios of its abstract inputs "
        "(empty / ASCII-ness of parameters / 27 value assignments of input char vs range ends / prefix-test outcomes) and compared "
        "with the contract written from the syntax reference (Ok iff the documented condition, result and advance length, failure "
        "detail on the entry state); case-insensitive matchers must fold with to_ascii_lowercase. (ax) map_inner/discard_result/"
        "map/map_with_state/ChoiceHelper satisfy the identities the templates rely on. (gen) templates iterate parts/choices in "
        "declaration order. Tier 2 (tv): every rule of every analysed grammar is lifted from MIR to a parser term and compared with "
        "the term its grammar expression denotes.")
    chk.assumptions = ["termination (well-formedness assumptions of the property)", "std semantics of starts_with / chars / len_utf8 / to_ascii_lowercase"]
    check_prim(cx, chk, cx.runtime, "runtime")
    if cx.runtime_nodefault is not None:
        check_prim(cx, chk, cx.runtime_nodefault, "runtime(no-default-features)")
    check_ax(cx, chk)
    check_gen(cx, chk)
    check_gen_literals(cx, chk)
    # "the rule, applied at offset 0": the entry state is the whole input at offset 0 and every later state is a suffix of it at the
    # matching offset (the cursor invariant, shared with C04); the constructor is called by the entry points only (shared with C05)
    from . import c04, c05
    c04.check_cursor(cx, chk, cx.runtime, "runtime")
    if "C04.cursor" in chk.rules:
        chk.rules["C01.entry.cursor"] = chk.rules.pop("C04.cursor")
    c05.check_state_origin(cx, chk, "C01.entry")
    c05.check_entry_wrappers(cx, chk, "C01.entry")
    try:
        from . import lift_rules
    except ImportError:
        lift_rules = None
    if lift_rules is not None:
        lift_rules.check_tv(cx, chk, "C01.tv", floor=1157)
