"""Rules built on the lifter: every rule of every analysed grammar denotes its grammar expression."""
from .. import mir, lift, lift2, ebnf


def check_tv(cx, chk, R, only=None, floor=None):
    n_ok = 0
    n_rules = 0
    programs = 0
    per_inst = {}
    for inst in cx.instances():
        if only is not None and not any(inst.name == o or inst.name.startswith(o) for o in only):
            continue
        g = cx.grammar_of(inst)
        if g is None:
            chk.violation(R, "%s grammar-unreadable" % inst.name, "cannot read the grammar text of %s" % inst.name)
            continue
        programs += 1
        L = lift2.Lifter(cx, inst)
        got_names = set(inst.rule_fns)
        want_names = {r.name for r in g.rules}
        if got_names != want_names:
            chk.violation(R, "%s rule-set" % inst.name, "generated rule functions %s differ from the grammar's rules %s" % (
                sorted(got_names - want_names)[:5], sorted(want_names - got_names)[:5]))
        k = 0
        for r in g.rules:
            n_rules += 1
            tag = "%s/%s" % (inst.name, r.name)
            try:
                want = lift2.canon(lift.expected_rule_term(g, r))
            except lift.Unliftable as ex:
                chk.violation(R, tag + " expected", "cannot build the expected term: %s" % ex)
                continue
            try:
                got = L.lift_rule(r.name)
            except lift.Unliftable as ex:
                chk.violation(R, "%s UNLIFTABLE" % tag, "UNLIFTABLE %s: %s (a translation validator that cannot validate says so)" % (ex.where, ex.why),
                              detail={"rule": tag})
                continue
            except RecursionError:
                chk.violation(R, "%s UNLIFTABLE" % tag, "UNLIFTABLE: recursion limit")
                continue
            if r.kind == "extern":
                # compare the function by its last path segments (crate:: vs crate name)
                gw = want[1].replace("crate::", "").split("::")
                gg = got[1].split("::")
                same = gg[-len(gw):] == gw
            else:
                same = got == want
            if same:
                n_ok += 1
                k += 1
                chk.ok(R, tag, {"rule": tag, "term": lift.show_term(got)[:200]})
            else:
                d = lift.first_difference(got, want) if r.kind != "extern" else "extern function %s vs %s" % (got[1], want[1])
                chk.violation(R, "%s differs" % tag,
                              "rule %s of %s: the generated parser does not denote the grammar expression - %s" % (r.name, inst.name, d),
                              getattr(g, "path", None),
                              {"generated": lift.show_term(got)[:600], "grammar": lift.show_term(want)[:600]})
        per_inst[inst.name] = k
    chk.programs |= set(per_inst)
    chk.disagreements_checked += n_rules
    chk.extra.setdefault("lifted", {}).update(per_inst)
    if floor is not None:
        chk.floor(R, "rules lifted and equal to their grammar term", n_ok, floor)
    return n_ok, n_rules


def instance_by_name(cx, name):
    for i in cx.instances():
        if i.name == name:
            return i
    return None


def declared_items(inst):
    """{item name: simplified declaration} of the public types of an instance (struct fields / enum variants / aliases)."""
    from .c03 import simp_ty
    crate = inst.crate
    out = {}
    for a in crate.j["aliases"]:
        if a["path"].startswith(inst.outer + "::") and "::" not in a["path"][len(inst.outer) + 2:]:
            out[a["path"][len(inst.outer) + 2:]] = ("alias", simp_ty(a["ty"]))
    for p, adt in crate.adts.items():
        if p.startswith(inst.outer + "::") and "::" not in p[len(inst.outer) + 2:]:
            n = p[len(inst.outer) + 2:]
            if adt["kind"] == "Enum":
                out[n] = ("enum", tuple((v["name"], tuple(simp_ty(f["ty"]) for f in v["fields"])) for v in adt["variants"]))
            else:
                out[n] = ("struct", tuple((f["name"], simp_ty(f["ty"])) for f in adt["variants"][0]["fields"]))
    return out


def check_twin(cx, chk, R, name_a, name_b, what, rules=None, floor=1):
    """Two instances must lift to identical terms rule by rule and declare identical public types."""
    a, b = instance_by_name(cx, name_a), instance_by_name(cx, name_b)
    if a is None or b is None:
        chk.anchor_missing(R, "twin instances %s / %s" % (name_a, name_b))
        return
    La, Lb = lift2.Lifter(cx, a), lift2.Lifter(cx, b)
    names = sorted(set(a.rule_fns) | set(b.rule_fns)) if rules is None else rules
    n = 0
    for r in names:
        tag = "%s~%s/%s" % (name_a, name_b, r)
        if r not in a.rule_fns or r not in b.rule_fns:
            chk.violation(R, tag + " missing", "rule %s exists in only one of the twins" % r)
            continue
        try:
            ta, tb = La.lift_rule(r), Lb.lift_rule(r)
        except lift.Unliftable as ex:
            chk.violation(R, tag + " UNLIFTABLE", "UNLIFTABLE %s: %s" % (ex.where, ex.why))
            continue
        if ta[0] == "extern" and tb[0] == "extern":
            same = ta[1].split("::")[-1] == tb[1].split("::")[-1]
        else:
            same = ta == tb
        if same:
            n += 1
            chk.ok(R, tag, {"rule": r, "term": lift.show_term(ta)[:160]})
        else:
            chk.violation(R, tag + " differs", "%s: rule %s denotes different parsers in the two variants - %s" % (what, r, lift.first_difference(ta, tb)),
                          detail={name_a: lift.show_term(ta)[:400], name_b: lift.show_term(tb)[:400]})
    da, db = declared_items(a), declared_items(b)
    keys = sorted(set(da) | set(db)) if rules is None else [k for k in sorted(set(da) | set(db)) if k.split("_")[0] in rules or k in rules]
    for k in keys:
        if da.get(k) != db.get(k):
            chk.violation(R, "%s~%s type %s" % (name_a, name_b, k), "%s: public type %s differs between the variants: %s vs %s" % (what, k, da.get(k), db.get(k)))
        else:
            chk.ok(R, "%s~%s type %s" % (name_a, name_b, k))
    chk.programs |= {name_a, name_b}
    chk.disagreements_checked += len(names)
    chk.floor(R, "%s~%s twin rules equal" % (name_a, name_b), n, floor)
