"""C11 - line / column / caret clauses, decided on the semantic summaries of the pretty printer.

The pretty printer is a composition of four small pieces; each clause below is a *necessary* condition of C11 given the
others, is stated over what the code computes (summaries: assumptions, returned values, writes, ordered events), and has
three outcomes: decided-ok, decided-violation (the summary contradicts the clause, with a concrete text/position that
shows it), and *undecided* (the code has a shape the recognisers do not know: reported as a note, never as an alarm).

 iter  : the line iterator. `new(t)` starts at cursor 0 / line counter 0; `next` yields a record for every cursor < len
         and nothing for a cursor > len (cursor == len: either - "final empty line" mode A yields one, mode B stops);
         a record has start = cursor, lineno = counter, end = (first '\\n' at or after cursor, else len) + 1,
         s = source[cursor .. end-1]; afterwards cursor = end (records are contiguous) and counter = counter + 1.
 line  : the record chosen for position p is the first one with start <= p < end: evaluated on the orderings of
         (start, p, end) the predicate must be false for p >= end and true for start <= p < end (p < start: do not care,
         records come in order).  In mode B the not-found fallback is reached in contract (empty text, or p = len after a
         trailing newline): its line number must not be a constant.
 col   : the 0-based column is the number of characters of the record's text before byte offset p - start: a found
         `position` over `char_indices`, or `chars().count()` of the prefix; where the search finds nothing (p at the end of
         the line, end of input included) the value is the number of characters of the line, not a constant; a byte offset
         used as a character count (`chars().take(d)`) is wrong for every line with a multi-byte character before p.
 show  : every formatted number derived from the record's line counter is counter + 1, every one derived from the column
         is column + 1; the caret is right-aligned in a field of width column + 1 filled with spaces, the line placeholder
         shows the record's text (trailing whitespace may be trimmed), and both follow the same prefix after a newline.
"""
import ast

from .. import mir, sem
from ..mir import mk, last, short, walk
from . import semspec

R = "C11"


# ------------------------------------------------------------------------------------------------ small term helpers
def strip(t):
    while isinstance(t, tuple) and t:
        if t[0] in ("ref", "deref"):
            t = t[1]
        elif t[0] == "cast":
            t = t[2]
        elif t[0] == "call" and last(t[1]) in ("deref", "deref_mut", "borrow", "as_ref", "as_str", "must_use", "clone", "to_owned") and len(t[2]) == 1:
            t = t[2][0]
        else:
            break
    return t


def is_call(t, *names):
    return isinstance(t, tuple) and t and t[0] == "call" and last(t[1]) in names


def cn(t):
    """Canonical form of length / character-count expressions."""
    t = strip(t)
    if is_call(t, "len", "count") and len(t[2]) == 1:
        a = strip(t[2][0])
        if is_call(a, "bytes", "as_bytes") and len(a[2]) == 1:
            return mk("LEN", cn(a[2][0]))
        if last(t[1]) == "len" and "str" in t[1]:
            return mk("LEN", cn(a))
        if last(t[1]) == "count" and is_call(a, "chars", "char_indices") and len(a[2]) == 1:
            return mk("NCHARS", cn(a[2][0]))
    return t


def lin(t):
    """Linear form {atom: coeff} with the constant under key 1; None when not linear."""
    t = strip(t)
    if t[0] == "const" and isinstance(t[2], int) and not isinstance(t[2], bool):
        return {1: t[2]} if t[2] else {}
    if t[0] == "binop" and t[1] in ("Add", "Sub", "AddUnchecked", "SubUnchecked"):
        a, b = lin(t[2]), lin(t[3])
        if a is None or b is None:
            return None
        s = 1 if t[1].startswith("Add") else -1
        out = dict(a)
        for k, v in b.items():
            out[k] = out.get(k, 0) + s * v
            if out[k] == 0:
                del out[k]
        return out
    if is_call(t, "saturating_sub", "wrapping_sub", "wrapping_add") and len(t[2]) == 2:
        return None
    return {cn(t): 1}


def lin_eq(a, b):
    la, lb = lin(a) if not isinstance(a, dict) else a, lin(b) if not isinstance(b, dict) else b
    if la is None or lb is None:
        return None
    return la == lb


def lplus(a, k):
    out = dict(a)
    out[1] = out.get(1, 0) + k
    if out[1] == 0:
        del out[1]
    return out


def payload(opt, variant="Some"):
    return sem.get_field(sem.get_downcast(opt, variant), "0")


def option_ret(t):
    """('None', None) / ('Some', payload) for an Option aggregate."""
    if t is not None and t[0] == "agg" and t[2] in ("None", "Some"):
        return t[2], (dict(t[3]).get("0") if t[2] == "Some" else None)
    return None, None


def mentions(t, sub):
    return any(x == sub for x in walk(t))


def rooted(t, root):
    t = strip(t)
    while isinstance(t, tuple) and t and t[0] in ("field", "downcast", "deref", "ref", "index"):
        t = t[1]
    return t == root


# ------------------------------------------------------------------------------------------------ closures as predicates
def closure_fn(S, clo, nargs=1):
    """Summary of a closure term applied to fresh item parameters; upvars replaced by the captured values."""
    if clo[0] != "closure":
        return None
    sm = S.summarize(clo[1])
    if sm is None or not sm.complete:
        return None
    env = {mk("upvar", i, None): c for i, c in enumerate(clo[2])}
    out = []
    for l in sm.returns:
        # upvars may carry a name
        def sub(t):
            if isinstance(t, mir.E):
                if t[0] == "upvar" and t[1] < len(clo[2]):
                    return clo[2][t[1]]
                return mir.E([t[0]] + [sub(a) if isinstance(a, tuple) else a for a in t[1:]])
            if isinstance(t, tuple):
                return tuple(sub(a) if isinstance(a, tuple) else a for a in t)
            return t
        out.append(([(sub(a), v) for a, v in l.assume], sub(l.ret)))
    if len(out) != len(sm.leaves):
        return None
    return out


def eval_pred(leaves, env):
    """Value of a closure summary (list of (assume, ret)) under env; None if undetermined."""
    vals = set()
    for assume, ret in leaves:
        good = True
        for a, v in assume:
            r = semspec.eval_term(a, env)
            if r is None:
                return None
            if r != v:
                good = False
                break
        if good:
            r = semspec.eval_term(ret, env)
            if r is None:
                return None
            vals.add(bool(r))
    return vals.pop() if len(vals) == 1 else None


CHAR_SEARCH = set()      # newline searches that return a character index


def _chars_to_int(t):
    if isinstance(t, mir.E):
        if t[0] == "const" and isinstance(t[2], str) and len(t[2]) == 1:
            return mk("const", "u32", ord(t[2]))
        return mir.E([t[0]] + [_chars_to_int(a) if isinstance(a, tuple) else a for a in t[1:]])
    if isinstance(t, tuple):
        return tuple(_chars_to_int(a) if isinstance(a, tuple) else a for a in t)
    return t


def is_newline_search(S, t, view_of):
    """t is Option-valued 'first newline' search over view_of(source-view term) -> the view term, else None."""
    t = strip(t)
    if is_call(t, "position") and len(t[2]) == 2:
        it, clo = strip(t[2][0]), t[2][1]
        if is_call(it, "bytes", "chars") and len(it[2]) == 1:
            cf = closure_fn(S, clo)
            if cf is None:
                return None
            item = mk("param", 2)
            if last(it[1]) == "chars":
                cf = [([(_chars_to_int(a), v) for a, v in asm], _chars_to_int(r_)) for asm, r_ in cf]
                ok = all(eval_pred(cf, {item: v}) is (v == 10) for v in (9, 10, 11, 13, 32, 97))
                if ok:
                    CHAR_SEARCH.add(t)
            else:
                ok = all(eval_pred(cf, {item: v}) is (v == 10) for v in (9, 10, 11, 13, 32))
            return strip(it[2][0]) if ok else None
    if is_call(t, "find") and "str" in t[1] and len(t[2]) == 2:
        pat = strip(t[2][1])
        if pat[0] == "const" and pat[2] in ("\n", 10):
            return strip(t[2][0])
    return None


# ------------------------------------------------------------------------------------------------ the iterator
class IterModel:
    ok = False


def analyse_iter(cx, S, chk, rt, next_path, new_term, notes):
    """Clause `iter`.  new_term: the aggregate the constructor returns (fields of the iterator)."""
    M = IterModel()
    M.mode = None
    if new_term is None or new_term[0] != "agg":
        notes.append("iter: the constructor of the line iterator does not summarise to a literal")
        return M
    fields = dict(new_term[3])
    src = [n for n, v in fields.items() if strip(v)[0] == "param" or strip(v)[0] not in ("const",)]
    zeros = [n for n, v in fields.items() if strip(v)[0] == "const"]
    if len(src) != 1 or len(zeros) != 2:
        notes.append("iter: iterator fields are not (source, two counters)")
        return M
    M.src = src[0]
    for n in zeros:
        if strip(fields[n])[2] != 0:
            chk.violation(R + ".iter", "start %s" % n, "the line iterator starts with %s = %r instead of 0: every line number / offset is shifted" % (n, strip(fields[n])[2]))
            return M
    sm = S.summarize(next_path)
    if sm is None or not sm.complete:
        notes.append("iter: next() of the line iterator does not summarise completely (loop)")
        return M
    me = mk("param", 1)
    somes = [l for l in sm.returns if option_ret(l.ret)[0] == "Some"]
    nones = [l for l in sm.returns if option_ret(l.ret)[0] == "None"]
    if len(somes) + len(nones) != len(sm.leaves) or not somes:
        notes.append("iter: next() has leaves that are neither Some nor None")
        return M
    old = {n: sem.get_field(me, n) for n in fields}
    # roles of the two counters: counter' = counter + 1 ; cursor' = record.end
    def newval(l, n):
        w = l.writes.get(me)
        return sem.get_field(w, n) if w is not None else old[n]
    counter = [n for n in zeros if all(lin_eq(newval(l, n), lplus(lin(old[n]), 1)) for l in somes)]
    cursor = [n for n in zeros if n not in counter]
    if len(counter) != 1 or len(cursor) != 1:
        # both advance by one or none does: decide which one indexes the source
        notes.append("iter: cannot tell the line counter from the byte cursor")
        return M
    M.counter, M.cursor = counter[0], cursor[0]
    CUR, CNT, SRC = old[M.cursor], old[M.counter], old[M.src]
    # exhaustion
    len_terms = set()
    for l in sm.leaves:
        for a, _ in l.assume:
            for x in walk(a):
                if cn(x) == mk("LEN", cn(SRC)):
                    len_terms.add(x)
    outcome = {}
    for rel, cur, ln in (("<", 3, 7), ("=", 7, 7), (">", 9, 7)):
        env = {CUR: cur}
        for x in len_terms:
            env[x] = ln
        sel, unk = semspec.select_leaves(sm.returns, env)
        if any(not (a[0] == "discr" and is_newline_search(S, a[1], None) is not None) for a in unk):
            notes.append("iter: next() branches on something besides cursor / len / the newline search")
            return M
        kinds = {option_ret(l.ret)[0] for l in sel}
        outcome[rel] = kinds
    if outcome["<"] != {"Some"}:
        if "None" in outcome["<"] and not any(l for l in sm.returns if not l.assume):
            chk.violation(R + ".iter", "stops-early", "next() of the line iterator can return None while the cursor is before the end of the text: the positions "
                          "of the remaining lines have no line record")
            return M
        notes.append("iter: exhaustion test not understood")
        return M
    if outcome[">"] != {"None"}:
        chk.violation(R + ".iter", "runs-past-end", "next() of the line iterator yields a record for a cursor beyond the end of the text (the cursor after the "
                      "last record is len + 1): slicing the source there panics")
        return M
    M.mode = "A" if outcome["="] == {"Some"} else ("B" if outcome["="] == {"None"} else None)
    if M.mode is None:
        notes.append("iter: behaviour at cursor == len not understood")
        return M
    # records
    roles = None
    decided = 0
    for l in somes:
        rec = option_ret(l.ret)[1]
        if rec is None or rec[0] != "agg":
            notes.append("iter: record is not a literal")
            return M
        rf = dict(rec[3])
        newcur = newval(l, M.cursor)
        r_start = [n for n, v in rf.items() if strip(v) == CUR]
        r_line = [n for n, v in rf.items() if strip(v) == CNT]
        r_end = [n for n, v in rf.items() if n not in r_start + r_line and lin(v) is not None and lin_eq(v, newcur) and strip(v)[0] != "call"]
        TR_ = ("trim_end", "trim", "trim_start", "trim_end_matches", "trim_matches", "trim_start_matches")
        r_s = [n for n, v in rf.items() if is_call(through(v, TR_), "index", "get_unchecked", "unwrap")]
        if not (len(r_start) == 1 and len(r_line) == 1 and len(r_s) == 1):
            notes.append("iter: record fields not recognised (start/lineno/text)")
            return M
        if len(r_end) != 1:
            rest = [n for n in rf if n not in r_start + r_line + r_s]
            if len(rest) == 1 and lin(rf[rest[0]]) is not None and lin(newcur) is not None:
                chk.violation(R + ".iter", "not-contiguous", "the record's end (%s) is not the cursor the next record starts from: positions between them belong to no "
                              "line or to two" % mir.show(rf[rest[0]])[:120])
                return M
            notes.append("iter: record end not recognised")
            return M
        this = (r_start[0], r_line[0], r_end[0], r_s[0])
        if roles and roles != this:
            notes.append("iter: record roles differ between paths")
            return M
        roles = this
        if not lin_eq(newval(l, M.counter), lplus(lin(CNT), 1)):
            chk.violation(R + ".iter", "counter", "the line counter is not advanced by exactly one per record")
            return M
        # where does the line end?
        srch = None
        for a, v in l.assume:
            if a[0] == "discr" and is_newline_search(S, a[1], None) is not None:
                srch = (a[1], v)
        if srch is None:
            notes.append("iter: newline search not recognised on a path of next()")
            continue
        view = is_newline_search(S, srch[0], None)
        want_view = None
        if is_call(view, "index") and len(view[2]) == 2:
            rg = strip(view[2][1])
            if strip(view[2][0]) == strip(SRC) and rg[0] == "agg" and last(rg[1]).startswith("RangeFrom") and strip(dict(rg[3])["start"]) == CUR:
                want_view = True
        if not want_view:
            notes.append("iter: the newline search does not run over source[cursor..]")
            continue
        if srch[1] == 1 and strip(srch[0]) in CHAR_SEARCH:
            chk.violation(R + ".iter", "char-index-as-offset", "the newline is searched with chars().position(..): the result is a character index, and it is used as a "
                          "byte offset for the record's end and text: a line with a multi-byte character before its newline is cut short (text \"é\\nb\": slicing "
                          "inside the character panics; later lines are numbered one too high)")
            return M
        if srch[1] == 1:
            k = payload(srch[0])
            line_end = lin(mk("binop", "Add", k, CUR))
        else:
            line_end = {mk("LEN", cn(SRC)): 1}
        end_v = rf[roles[2]]
        if lin(end_v) is None:
            notes.append("iter: end offset is not linear")
            continue
        if lin(end_v) != lplus(line_end, 1):
            chk.violation(R + ".iter", "end-offset", "a record's end is %s; it has to be one past the line terminator (the first newline at or after the cursor, "
                          "else the end of the text): the next record then starts inside / beyond its line" % mir.show(end_v)[:160])
            return M
        sv = strip(rf[roles[3]])
        if is_call(sv, *TR_):
            chk.violation(R + ".iter", "line-text-trimmed", "a record's text is %s: the line without the whitespace the trim removes. Column and caret are computed on the "
                          "record's text, so a position inside the trailing whitespace of its line (blanks, tabs, the \\r of a CRLF line, a whitespace-only "
                          "line) is reported at the trimmed length (text \"foo(  \", position 6 is column 7, not 5)" % mir.show(sv)[:100])
            return M
        good_s = None
        if is_call(sv, "index") and len(sv[2]) == 2 and strip(sv[2][0]) == strip(SRC):
            rg = strip(sv[2][1])
            if rg[0] == "agg" and last(rg[1]) == "Range":
                d = dict(rg[3])
                if strip(d["start"]) == CUR and lin(d["end"]) is not None:
                    good_s = lin(d["end"]) == line_end
        if good_s is None:
            notes.append("iter: the record's text is not source[cursor..X]")
            continue
        if not good_s:
            chk.violation(R + ".iter", "line-text", "a record's text is %s: it has to be the text from the cursor to the line terminator (exclusive)" % mir.show(sv)[:160])
            return M
        decided += 1
    if decided != len(somes):
        return M
    M.roles = dict(zip(("start", "lineno", "end", "s"), roles))
    M.ok = True
    chk.ok(R + ".iter", "line iterator", {"mode": "final empty line is yielded" if M.mode == "A" else "stops at cursor == len", "fields": M.roles,
                                          "paths_of_next": len(sm.returns), "rule": "start=cursor, lineno=counter, end=first newline+1 | len+1, "
                                          "text=source[cursor..end-1], cursor'=end, counter'=counter+1"})
    return M


# ------------------------------------------------------------------------------------------------ format templates
def decode_template(b):
    """rustc's fmt::Arguments template bytes -> [('lit', str) | ('ph', arg_index, opts)], see library/core/src/fmt/mod.rs."""
    parts = []
    i = 0
    nxt = 0
    while i < len(b):
        n = b[i]
        i += 1
        if n == 0:
            if i != len(b):
                return None
            return parts
        if n < 0x80:
            parts.append(("lit", b[i:i + n].decode("utf-8", "replace")))
            i += n
        elif n == 0x80:
            ln = int.from_bytes(b[i:i + 2], "little")
            i += 2
            parts.append(("lit", b[i:i + ln].decode("utf-8", "replace")))
            i += ln
        elif n >= 0xC0:
            o = {"flags": None, "width": None, "precision": None, "width_arg": None, "precision_arg": None}
            if n & 1:
                o["flags"] = int.from_bytes(b[i:i + 4], "little")
                i += 4
            if n & 2:
                o["width"] = int.from_bytes(b[i:i + 2], "little")
                i += 2
            if n & 4:
                o["precision"] = int.from_bytes(b[i:i + 2], "little")
                i += 2
            if n & 8:
                nxt = int.from_bytes(b[i:i + 2], "little")
                i += 2
            if n & 16:
                o["width_arg"], o["width"] = o["width"], None
            if n & 32:
                o["precision_arg"], o["precision"] = o["precision"], None
            parts.append(("ph", nxt, o))
            nxt += 1
        else:
            return None
    return None


def template_of(t):
    """Arguments::new(template, [args]) -> (parts, args) with nested format!() strings spliced in."""
    t = strip(t)
    if is_call(t, "format") and len(t[2]) == 1:
        t = strip(t[2][0])
    if not (is_call(t, "new") and "Arguments" in t[1] and len(t[2]) == 2):
        if is_call(t, "from_str", "new_const") and "Arguments" in t[1] and t[2] and strip(t[2][0])[0] == "const":
            return [("lit", strip(t[2][0])[2])], []
        return None
    c = strip(t[2][0])
    arr = strip(t[2][1])
    if c[0] != "const" or arr[0] != "array":
        return None
    try:
        raw = ast.literal_eval(c[2]) if isinstance(c[2], str) else c[2]
    except (ValueError, SyntaxError):
        return None
    if not isinstance(raw, (bytes, bytearray)):
        return None
    parts = decode_template(bytes(raw))
    if parts is None:
        return None
    return parts, list(arr[1])


def arg_value(a):
    """Argument::new_display(x) -> ('display', x)"""
    a = strip(a)
    if is_call(a, "new_display", "new_debug", "from_usize", "new_lower_hex", "new_upper_hex") and len(a[2]) == 1:
        return {"new_display": "display", "new_debug": "debug", "from_usize": "usize"}.get(last(a[1]), last(a[1])), a[2][0]
    return None, a


def flatten(parts, args):
    """Splice nested format!() arguments shown with default options into the part list; placeholders become
    ('ph', kind, value term, opts, width term)."""
    out = []
    for p in parts:
        if p[0] == "lit":
            out.append(p)
            continue
        _, idx, o = p
        if idx >= len(args):
            return None
        kind, v = arg_value(args[idx])
        inner = template_of(v) if kind == "display" else None
        if inner is not None and o["flags"] is None and o["width"] is None and o["width_arg"] is None:
            sub = flatten(*inner)
            if sub is None:
                return None
            out.extend(sub)
            continue
        w = None
        if o["width_arg"] is not None:
            if o["width_arg"] >= len(args):
                return None
            w = arg_value(args[o["width_arg"]])[1]
        out.append(("ph", kind, v, o, w))
    # merge adjacent literals
    merged = []
    for p in out:
        if p[0] == "lit" and merged and merged[-1][0] == "lit":
            merged[-1] = ("lit", merged[-1][1] + p[1])
        else:
            merged.append(p)
    return merged


def through(t, allowed):
    """Strip calls whose name is in `allowed` (first argument carries the value)."""
    t = strip(t)
    while is_call(t, *allowed) and t[2]:
        t = strip(t[2][0])
    return t


DECOR = ("bold", "red", "white", "blue", "green", "yellow", "normal", "to_string", "deref", "as_str", "into", "from", "to_owned", "as_ref", "clone")


# ------------------------------------------------------------------------------------------------ from_parse_error
INFO = {}


def run(cx, chk, rt):
    INFO.clear()
    notes = []
    fpe = [p for p in rt.fns if p.endswith("PrettyParseError::from_parse_error") and "mir" in rt.fns[p]]
    if not fpe:
        chk.anchor_missing(R + ".line", "PrettyParseError::from_parse_error")
        return INFO
    fpe = fpe[0]
    mod = fpe.rsplit("::", 2)[0]

    def inl(p):
        return p.startswith(mod + "::") and "{closure" not in p and not p.endswith("::next") and "fmt::Display" not in p and "ToString" not in p and "Colorize" not in p

    S = sem.Sem(cx, rt, inline=inl, max_leaves=400)
    try:
        sm = S.summarize(fpe)
    except sem.SemLimit as e:
        sm = None
        notes.append("from_parse_error does not summarise (%s)" % e)
    undecided = {"iter": True, "line": True, "col": True, "show": True}
    if sm is not None and not sm.complete:
        notes.append("from_parse_error contains a loop: line / column / caret clauses are not decided")
        sm = None
    if sm is not None:
        _decide(cx, chk, rt, S, sm, notes, undecided)
    for k, v in undecided.items():
        if v:
            chk.ok(R + "." + k, "undecided", {"clause": k, "status": "not decided on this tree: " + "; ".join(n for n in notes if n.startswith(k) or ":" not in n[:6]) or "shape not recognised"})
    for n in notes:
        chk.note("C11 " + n)
    chk.extra["c11_clauses"] = {k: ("undecided" if v else "decided") for k, v in undecided.items()}
    return INFO


def _decide(cx, chk, rt, S, sm, notes, undecided):
    ERR, TEXT = mk("param", 1), mk("param", 2)
    P = sem.get_field(ERR, "position")
    leaves = sm.returns
    # ---- the search for the line
    finds = {}
    for l in leaves:
        for ev in l.trace:
            t = ev[0]
            if is_call(t, "find") and "Iterator" in t[1] and len(t[2]) == 2 and strip(t[2][0])[0] == "agg" and t[2][1][0] == "closure":
                finds[t] = ev
    if len(finds) != 1:
        notes.append("line: the line is not chosen by one Iterator::find over the line iterator")
        return
    FIND = list(finds)[0]
    it_term = strip(FIND[2][0])
    it_ty = it_term[1]
    nexts = [p for p in rt.fns if p.endswith("Iterator>::next") and last(it_ty) in p and "mir" in rt.fns[p]]
    if len(nexts) != 1:
        notes.append("iter: next() of %s not found" % last(it_ty))
        return
    if strip(dict(it_term[3]).get("source", TEXT)) != TEXT and not any(strip(v) == TEXT for v in dict(it_term[3]).values()):
        notes.append("iter: the line iterator does not run over the text parameter")
        return
    M = analyse_iter(cx, S, chk, rt, nexts[0], it_term, notes)
    if not M.ok:
        return
    undecided["iter"] = False
    ro = M.roles
    # ---- clause line: the predicate
    cf = closure_fn(S, FIND[2][1])
    item = mk("param", 2)
    if cf is None:
        notes.append("line: the predicate of find does not summarise")
        return
    st, en = sem.get_field(item, ro["start"]), sem.get_field(item, ro["end"])
    cases = [("p<start", 5, None), ("p=start", 10, True), ("start<p<end", 15, True), ("p=end", 20, False), ("p>end", 25, False)]
    line_ok = True
    for name, pv, want in cases:
        env = {st: 10, en: 20, P: pv, mk("deref", st): 10, mk("deref", en): 20}
        got = eval_pred(cf, env)
        if got is None:
            notes.append("line: predicate not evaluable for %s" % name)
            return
        if want is not None and got != want:
            line_ok = False
            if name == "p=end":
                why = ("a position equal to a record's end (the first character of the next line; after a trailing newline: the end of the text) is "
                       "accepted by that record, and find returns the first match: text \"ab\\ncd\", position 3 is reported on line 1 instead of line 2")
            elif name == "p>end":
                why = "positions beyond a record's end are accepted by it: every position is reported on the first line"
            else:
                why = "a position inside the record's range (%s) is rejected: the line is not found" % name
            chk.violation(R + ".line", "predicate %s" % name, "the line-search predicate is %s for %s. %s" % (got, name, why))
    undecided["line"] = False
    INFO["find"] = FIND
    INFO["find_total"] = bool(M.mode == "A" and line_ok)
    if line_ok:
        chk.ok(R + ".line", "predicate", {"rule": "false for p >= end, true for start <= p < end (records contiguous, in order)", "cases": [c[0] for c in cases]})
    # ---- the target record per leaf
    def target(l):
        for a, v in l.assume:
            if a[0] == "discr" and a[1] == FIND:
                return ("found", payload(FIND)) if v == 1 else ("fallback", None)
        return (None, None)

    seen_v = set()

    def viol(rule, key, msg):
        if (rule, key) not in seen_v:
            seen_v.add((rule, key))
            chk.violation(rule, key, msg)

    infos = []
    decodable = True
    for l in leaves:
        kind, rec = target(l)
        fmts = [ev[0] for ev in l.trace if is_call(ev[0], "new") and "Arguments" in ev[0][1]]
        tp = template_of(fmts[-1]) if fmts else None
        flat = flatten(*tp) if tp else None
        if kind is None or flat is None:
            decodable = False
            notes.append("show: a path does not depend on the result of find" if kind is None else "show: format template not decodable")
            continue
        infos.append({"leaf": l, "kind": kind, "rec": rec, "flat": flat})
    if not decodable or not infos:
        return
    for i in infos:
        i["shape"] = tuple((p[0], p[1] if p[0] == "lit" else (p[1], repr(p[3]))) for p in i["flat"])
    # ---- mode B: the fallback is reachable in contract
    rejects_end = eval_pred(cf, {st: 10, en: 20, P: 20, mk("deref", st): 10, mk("deref", en): 20}) is False
    if M.mode == "B" and rejects_end:
        for i in infos:
            if i["kind"] != "fallback":
                continue
            consts = [p for p in i["flat"] if p[0] == "ph" and p[1] in ("display", "debug") and lin(p[2]) is not None and set(lin(p[2])) <= {1}]
            if not consts:
                undecided["line"] = True
                notes.append("line: the not-found fallback is reachable (iterator stops at cursor == len) and its line number is not modelled")
            if consts:
                viol(R + ".line", "fallback-constant-line",
                     "the line iterator stops at cursor == len, so no record is found for the empty text and for the position at the end of a text that "
                     "ends with a newline; the line number shown then is the constant %s: text \"ab\\n\", position 3 is on line 2" % (lin(consts[0][2]).get(1, 0)))
                break
    # ---- found paths
    col_state = {"ok": 0, "wrong": 0, "undecided": 0}
    show_state = {"ok": 0, "wrong": 0, "undecided": 0}
    col_idx_of = {}
    found = [i for i in infos if i["kind"] == "found"]
    for i in found:
        rec = i["rec"]
        i["LN"] = sem.get_field(rec, ro["lineno"])
        i["ST"] = sem.get_field(rec, ro["start"])
        i["TXT"] = sem.get_field(rec, ro["s"])
        i["D"] = {P: 1, cn(i["ST"]): -1}
        i["col"] = column_value(S, i["leaf"], i["TXT"], i["D"], notes)
    # first the paths where the column search found the offset (or the prefix form): they tell which placeholders are the column
    for i in found:
        v, stt = i["col"]
        if stt == "ok":
            i["Clin"] = lin(v)
            flat = i["flat"]
            ci = [k for k, p in enumerate(flat) if p[0] == "ph" and p[1] in ("display", "debug") and lin(p[2]) is not None and set(lin(p[2])) & set(i["Clin"])]
            ca = [k for k, p in enumerate(flat) if p[0] == "ph" and through(p[2], DECOR)[0] == "const" and through(p[2], DECOR)[2] == "^"]
            col_idx_of.setdefault(i["shape"], ci)
    for i in found:
        v, stt = i["col"]
        flat = i["flat"]
        col_idx = col_idx_of.get(i["shape"])
        if stt == "wrong":
            col_state["wrong"] += 1
            viol(R + ".col", v[0], v[1])
            continue
        if stt == "undecided":
            col_state["undecided"] += 1
            continue
        if stt == "notfound":
            # the position is at the end of its line (end of input included): the value used must be the line's character count
            want = {mk("NCHARS", cn(i["TXT"])): 1}
            if not col_idx:
                col_state["undecided"] += 1
                notes.append("col: the value used when the column search finds nothing cannot be located")
                continue
            vals = [flat[k][2] for k in col_idx]
            lv = [lin(x) for x in vals]
            if any(x is None for x in lv):
                col_state["undecided"] += 1
                continue
            if all(x == lplus(want, 1) for x in lv):
                i["Clin"] = want
                col_state["ok"] += 1
            elif all(len([k_ for k_ in x if k_ != 1]) == 1 and isinstance([k_ for k_ in x if k_ != 1][0], tuple) and [k_ for k_ in x if k_ != 1][0][0] == "NCHARS"
                     and [k_ for k_ in x if k_ != 1][0][1] != cn(i["TXT"])
                     and through([k_ for k_ in x if k_ != 1][0][1], ("trim_end", "trim", "trim_start", "trim_end_matches", "trim_matches", "trim_start_matches")) == strip(i["TXT"])
                     for x in lv):
                col_state["wrong"] += 1
                viol(R + ".col", "end-of-line-trimmed",
                     "when the position is at the end of its line the column shown is the character count of the *trimmed* line: for a line that ends in "
                     "whitespace (blanks, tabs, the \\r of a CRLF line) the end-of-line position is reported too far left (text \"a  \", position 3 is "
                     "column 4, not 2)")
                continue
            elif all(set(x) <= {1} for x in lv):
                col_state["wrong"] += 1
                viol(R + ".col", "end-of-line-constant",
                     "when the byte offset of the position is not the start of a character of its line - that is exactly when the position is at the end of "
                     "the line (unexpected end of input, or the newline itself) - the column shown is the constant %d instead of (characters of the line) + 1: "
                     "text \"ab\", position 2 is column 3" % lv[0].get(1, 0))
                continue
            else:
                col_state["undecided"] += 1
                notes.append("col: value used at the end of a line not recognised: %s" % mir.show(vals[0])[:80])
                continue
        else:
            col_state["ok"] += 1
        C = i["Clin"]
        # ---- show
        phs = [p for p in flat if p[0] == "ph"]
        bad = False
        ln_args = [p for p in phs if mentions(p[2], i["LN"])]
        if not ln_args:
            viol(R + ".show", "no-line-number", "no formatted value derives from the chosen record's line counter")
            bad = True
        for p in ln_args:
            if lin(through(p[2], DECOR)) != lplus({cn(i["LN"]): 1}, 1):
                viol(R + ".show", "line-number", "the line number shown is %s; the record's counter is 0-based, the reported line is counter + 1" % mir.show(p[2])[:100])
                bad = True
        nums = [p for p in phs if p[1] in ("display", "debug") and p not in ln_args and lin(through(p[2], DECOR)) is not None and set(lin(through(p[2], DECOR))) & set(C)]
        if stt == "notfound":
            nums = [flat[k] for k in (col_idx or [])]
        for p in nums:
            if lin(through(p[2], DECOR)) != lplus(C, 1):
                viol(R + ".show", "column-number", "the column shown is %s; the reported column is (characters before the position) + 1" % mir.show(p[2])[:100])
                bad = True
        if not nums:
            viol(R + ".show", "no-column", "no formatted value derives from the number of characters before the position")
            bad = True
        carets = [p for p in phs if through(p[2], DECOR)[0] == "const" and through(p[2], DECOR)[2] == "^"]
        und = False
        if len(carets) != 1:
            notes.append("show: caret placeholder not recognised")
            und = True
        else:
            ca = carets[0]
            o = ca[3]
            fl = o["flags"]
            ca_prefix_at = None
            # a styled value turned into a String before it is padded: the width counts the escape sequences
            chain = []
            t_ = strip(ca[2])
            while is_call(t_, *DECOR) and t_[2]:
                chain.append(last(t_[1]))
                t_ = strip(t_[2][0])
            STYLES = ("bold", "red", "white", "blue", "green", "yellow")
            for n_, c_ in enumerate(chain):
                if c_ in ("to_string", "to_owned", "into", "from") and any(x in STYLES for x in chain[n_ + 1:]) and (ca[4] is not None or o["width"] is not None):
                    viol(R + ".show", "caret-escape-width", "the caret is styled (%s) and converted to a String *before* it is padded to the column: with colours on "
                         "the String contains the escape sequences and the width counts them - the caret stays at column 1 for every column up to the length of "
                         "the escapes" % "/".join(x for x in chain if x in STYLES))
                    bad = True
                    break
            if ca[4] is None:
                k_ = flat.index(ca)
                padv = through(flat[k_ - 1][2], DECOR) if k_ > 0 and flat[k_ - 1][0] == "ph" else None
                if padv is not None and is_call(padv, "repeat") and len(padv[2]) == 2 and strip(padv[2][0])[0] == "const" and strip(padv[2][0])[2] == " ":
                    # `{padding}{caret}` with padding = " ".repeat(n): the caret stands in column n + 1
                    if lin(padv[2][1]) is None:
                        und = True
                    elif lin(padv[2][1]) != C:
                        viol(R + ".show", "caret-width", "the caret is preceded by %s spaces; it has to be preceded by as many spaces as there are characters before the "
                             "position" % mir.show(padv[2][1])[:80])
                        bad = True
                    # the padding is part of the caret line: compare prefixes from the padding placeholder
                    ca_prefix_at = k_ - 1
                elif padv is not None and padv[0] != "const":
                    und = True      # padding may come from the placeholder in front of the caret
                    notes.append("show: the caret has no width of its own")
                else:
                    viol(R + ".show", "caret-width", "the caret is printed %s: it does not follow the column" % ("without a width" if o["width"] is None else "with the constant width %d" % o["width"]))
                    bad = True
            else:
                if any(not isinstance(k2, int) for k2 in (lin(ca[4]) or {})):
                    viol(R + ".show", "caret-width-range",
                         "the caret's field width is a run-time value (%s) handed to format! as `width$`: the formatting machinery of the pinned toolchain stores "
                         "widths as u16 and `Argument::from_usize` panics with \"Formatting argument out of range\" above 65535 - an error beyond column "
                         "65535 of a long line (minified input) makes the conversion panic" % mir.show(ca[4])[:80])
                    bad = True
                if lin(ca[4]) is None:
                    und = True
                elif lin(ca[4]) != lplus(C, 1):
                    viol(R + ".show", "caret-width", "the caret's field width is %s; right-aligned it has to be the 1-based column = (characters before the position) + 1" % mir.show(ca[4])[:100])
                    bad = True
                align = ((fl >> 29) & 3) if fl is not None else 3
                fill = (fl & 0x1FFFFF) if fl is not None else 0x20
                if align != 1:
                    viol(R + ".show", "caret-align", "the caret is not right-aligned in its field (alignment: %s): it is printed at the left edge / in the middle of the field" %
                         {0: "left", 2: "center", 3: "default = left for strings"}[align])
                    bad = True
                if fill != 0x20:
                    viol(R + ".show", "caret-fill", "the caret's field is filled with %r instead of spaces" % chr(fill))
                    bad = True
            idx_c = flat.index(ca)
            if "ca_prefix_at" in dir() and ca_prefix_at is not None and ca[4] is None:
                idx_c = ca_prefix_at
            TRIMS = ("trim_end", "trim_end_matches", "trim", "trim_start", "trim_start_matches", "trim_matches")
            cand = [p for p in phs if p is not ca and p not in ln_args and p not in nums and mentions(p[2], strip(i["TXT"]))]
            lines = [p for p in cand if through(p[2], DECOR + TRIMS) == strip(i["TXT"])]
            if not cand:
                viol(R + ".show", "line-text", "the text of the chosen record is not shown")
                bad = True
            elif len(lines) != 1:
                und = True
                notes.append("show: the echoed line goes through functions that are not modelled")
            else:
                li = lines[0]
                if any(is_call(x, "trim_start", "trim", "trim_start_matches", "trim_matches") for x in walk(li[2])):
                    viol(R + ".show", "line-trim", "the line is shown with leading whitespace removed: the caret is no longer under the column")
                    bad = True
                idx_l = flat.index(li)

                def prefix(ix):
                    out = []
                    j = ix - 1
                    while j >= 0:
                        p = flat[j]
                        if p[0] == "lit":
                            if "\n" in p[1]:
                                out.append(("lit", p[1].rsplit("\n", 1)[1]))
                                break
                            out.append(p)
                        else:
                            out.append(("ph", p[1], strip(p[2])))
                        j -= 1
                    return [x for x in out[::-1] if x != ("lit", "")]
                pl, pc = prefix(idx_l), prefix(idx_c)
                if pl != pc:
                    if not pl or not pc:
                        viol(R + ".show", "caret-prefix", "the line and the caret line do not start with the same prefix (one of them has none): the caret is shifted against the text")
                        bad = True
                    else:
                        und = True
                        notes.append("show: the prefixes of the text line and the caret line are different expressions")
                between = flat[idx_l + 1:idx_c] if idx_c > idx_l else None
                if between is None or sum(p[1].count("\n") for p in between if p[0] == "lit") != 1:
                    viol(R + ".show", "caret-order", "the caret is not on the line directly below the text")
                    bad = True
        show_state["wrong" if bad else ("undecided" if und else "ok")] += 1
    if col_state["wrong"] or (col_state["ok"] and not col_state["undecided"]):
        undecided["col"] = False
        if not col_state["wrong"]:
            chk.ok(R + ".col", "column", {"rule": "characters of the record's text before byte offset p - start; at the end of the line: all its characters", "paths": col_state["ok"]})
    if show_state["wrong"] or (show_state["ok"] and not show_state["undecided"] and not col_state["undecided"]):
        undecided["show"] = False
        if not show_state["wrong"]:
            chk.ok(R + ".show", "numbers and caret", {"rule": "line = counter + 1, column = chars + 1, caret right-aligned (space filled) in width column, directly "
                                                      "below the text and after the same prefix", "paths": show_state["ok"]})


def column_value(S, l, TXT, D, notes):
    """The 0-based column on leaf l: (term, 'ok') | ((key, message), 'wrong') | (None, 'undecided')."""
    TXT = strip(TXT)
    cands = []
    for ev in l.trace:
        t = ev[0]
        if is_call(t, "position") and len(t[2]) == 2:
            it = strip(t[2][0])
            base = it
            proj = None
            if is_call(it, "map") and len(it[2]) == 2:
                base = strip(it[2][0])
                proj = it[2][1]
            if is_call(base, "char_indices") and strip(base[2][0]) == TXT:
                cands.append(("position", t, proj))
            elif is_call(base, "char_indices", "chars") and through(base[2][0], ("trim_end", "trim", "trim_start", "trim_end_matches", "trim_matches", "trim_start_matches")) == TXT:
                cands.append(("trimmed", t, strip(base[2][0])))
        if is_call(t, "count") and len(t[2]) == 1:
            it = strip(t[2][0])
            if is_call(it, "take") and len(it[2]) == 2 and is_call(strip(it[2][0]), "chars") and strip(strip(it[2][0])[2][0]) == TXT:
                cands.append(("take", t, it[2][1]))
            if is_call(it, "chars", "char_indices") and len(it[2]) == 1:
                v = strip(it[2][0])
                if is_call(v, "index") and len(v[2]) == 2 and strip(v[2][0]) == TXT:
                    rg = strip(v[2][1])
                    if rg[0] == "agg" and last(rg[1]).startswith("RangeTo") and "Inclusive" not in rg[1]:
                        cands.append(("prefix", t, dict(rg[3])["end"]))
    if len(cands) != 1:
        notes.append("col: column computation not recognised (%d candidate searches)" % len(cands))
        return None, "undecided"
    kind, t, x = cands[0]
    if kind == "trimmed":
        return ("trimmed-line", "the column is searched in %s, not in the line itself: for a position inside the whitespace the trim removes (trailing blanks or "
                "tabs, a whitespace-only line, the \\r of a CRLF line) no character starts at the offset and the column collapses to the trimmed length "
                "(text \"  \", position 2 is column 3)" % mir.show(x)[:80]), "wrong"
    if kind == "take":
        if lin(x) == D:
            return ("bytes-as-chars", "the column is chars().take(d).count() with d the *byte* offset of the position in its line: for a line with a multi-byte "
                    "character before the position (text \"éa\", position 2) it counts too many characters"), "wrong"
        return None, "undecided"
    if kind == "prefix":
        if lin(x) == D:
            return t, "ok"
        if lin(x) is not None:
            return ("prefix-offset", "the column counts the characters of the line up to byte offset %s, not up to position - line start" % mir.show(x)[:80]), "wrong"
        return None, "undecided"
    # position over char_indices
    clo = t[2][1]
    cf = closure_fn(S, clo)
    if cf is None or len(cf) != 1 or cf[0][0]:
        notes.append("col: predicate of the column search does not summarise to one comparison")
        return None, "undecided"
    ret = cf[0][1]
    item = mk("param", 2)
    if x is not None:
        pj = closure_fn(S, x)
        if pj is None or len(pj) != 1 or pj[0][0] or pj[0][1] != sem.get_field(item, "0"):
            notes.append("col: projection of char_indices not recognised")
            return None, "undecided"
        key = item
    else:
        key = sem.get_field(item, "0")
    if not (ret[0] == "binop" and ret[1] == "Eq"):
        notes.append("col: column predicate is not an equality")
        return None, "undecided"
    la, lb = lin(ret[2]), lin(ret[3])
    if la is None or lb is None:
        notes.append("col: column predicate is not linear")
        return None, "undecided"
    diff = dict(la)
    for k_, v_ in lb.items():
        diff[k_] = diff.get(k_, 0) - v_
        if diff[k_] == 0:
            del diff[k_]
    ck = diff.get(cn(key), 0)
    if ck not in (1, -1):
        notes.append("col: column predicate does not compare the byte index")
        return None, "undecided"
    other = {k_: -v_ * ck for k_, v_ in diff.items() if k_ != cn(key)}      # key == other
    if other != D:
        return ("search-offset", "the column search looks for the character at byte index %s of the line; it has to be position - line start" %
                " + ".join("%s*%s" % (v_, mir.show(k_) if isinstance(k_, tuple) else k_) for k_, v_ in sorted(other.items(), key=str))[:120]), "wrong"
    found = None
    for a_, v in l.assume:
        if a_[0] == "discr" and a_[1] == t:
            found = v
    if found is None:
        notes.append("col: the result of the column search is not examined")
        return None, "undecided"
    if found == 1:
        return payload(t), "ok"
    # not found: the position is at the end of the line.  Which value is used?  Look at the numeric placeholders: decided by the caller
    return NotFound(t, TXT), "notfound"


class NotFound(tuple):
    def __new__(cls, t, txt):
        return tuple.__new__(cls, (t, txt))
