"""C15 — the grammar compiler always answers, and says so.

exit     : every tool surfaces a failure: cli main reaches a non-zero exit on Err, the build
           helper exits 1, Compile::run returns the inner result.
restrict : every documented restriction has an error return that is control-dependent on the
           facts defining the restriction.
cached   : the three sites that decide "this rule is cached" read the same flags.
panic    : inventory of panic-capable constructs in the generator (guards, cross-references,
           reasoned table).
ident    : grammar-provided strings reach identifier constructors only through a validator.
rec      : recursion through by-name lookups needs a cycle guard.
"""
import re

from .. import mir, finite
from ..mir import short, last, strip, walk, norm, is_call
from . import common, c04, c14, c16, templates

LEVEL = "other"


# ----------------------------------------------------------------- exit

def check_exit(cx, chk):
    cli = cx.cli
    if cli is None or "peginator_cli::main" not in cli.fns:
        chk.anchor_missing("C15.exit", "peginator_cli::main")
    else:
        b = cx.body(cli, "peginator_cli::main")
        f = cli.fns["peginator_cli::main"]
        wraps = [(i, t) for i, t in b.calls() if not t["func"].get("indirect") and t["func"]["path"].startswith("peginator_cli::") and "Result" in b.ty(t["dest"]["l"])]
        if f["output"] != "()":
            # main returns a Result / ExitCode: an Err propagates to a non-zero status by the std runtime
            rets = [norm(b.expr_rv(d[3]) if d[2] == "rv" else b.expr_call(d[3])) for d in b.defs.get(0, [])]
            chk.ok("C15.exit", "cli main returns %s" % f["output"], {"main_output": f["output"], "returns": [mir.show(r)[:80] for r in rets]})
        elif len(wraps) != 1:
            chk.violation("C15.exit", "cli main shape", "cannot find the fallible inner main in peginator_cli::main", cx.site(b))
        else:
            wi, wt = wraps[0]
            sw = wt["target"]
            t = b.blocks[sw]["term"]
            err_edges = []
            if t["k"] == "switch":
                vals = dict((v, bb) for v, bb in t["targets"])
                if 1 in vals:
                    err_edges = [vals[1]]
                elif 0 in vals:
                    err_edges = [t["otherwise"]]
            if not err_edges:
                chk.violation("C15.exit", "cli main no-match", "the result of the inner main is not inspected", cx.site(b, wi))
            for eb in err_edges:
                def is_exit(i):
                    tt = b.blocks[i]["term"]
                    if tt["k"] == "call" and not tt["func"].get("indirect") and last(tt["func"]["path"]) == "exit" and "process" in tt["func"]["path"]:
                        a = norm(b.expr_op(tt["args"][0]))
                        return a[0] == "const" and a[2] != 0
                    return False
                good, path = b.must_pass(eb, is_exit)
                if good:
                    chk.ok("C15.exit", "cli main", {"on_err": "process::exit(non-zero) on every path"})
                else:
                    chk.violation("C15.exit", "cli main exits 0 on error",
                                  "peginator-cli: when the inner main returns Err the process prints the error and still returns normally "
                                  "(exit status 0): a failed compilation is invisible to scripts (e.g. `peginator-cli g.ebnf > out.rs && ...`)",
                                  cx.site(b, eb), {"path": " -> ".join("bb%d" % x for x in path)})
    cg = cx.codegen
    ps = [p for p in cg.fns if last(p) == "run_exit_on_error"]
    if not ps:
        chk.anchor_missing("C15.exit", "Compile::run_exit_on_error")
    else:
        b = cx.body(cg, ps[0])
        runs = [(i, t) for i, t in b.calls() if not t["func"].get("indirect") and last(t["func"]["path"]) == "run" and "Compile" in t["func"]["path"]]
        okk = False
        if len(runs) == 1:
            ri, rt_ = runs[0]
            R = rt_["dest"]["l"]
            # find switch on discr(R)
            for i in b.reach:
                t = b.blocks[i]["term"]
                if t["k"] == "switch":
                    e, ty = b.switch_info(i)
                    e = norm(e)
                    if e[0] == "discr" and any(x == ("local", R) or x == norm(b.expr_local(R)) for x in [e[1]]):
                        vals = dict((v, bb) for v, bb in t["targets"])
                        eb = vals.get(1, t["otherwise"] if 0 in vals else None)
                        if eb is not None:
                            def is_exit(j):
                                tt = b.blocks[j]["term"]
                                if tt["k"] == "call" and not tt["func"].get("indirect") and last(tt["func"]["path"]) == "exit":
                                    a = norm(b.expr_op(tt["args"][0]))
                                    return a[0] == "const" and a[2] != 0
                                return False
                            # exit diverges: every path from the Err edge must hit exit (paths end there)
                            reach = b.reachable_from(eb)
                            hit = [j for j in reach if is_exit(j)]
                            rets_reached = [j for j in reach if b.blocks[j]["term"]["k"] == "return"]
                            esc, pth = b.must_pass(eb, is_exit)
                            okk = bool(hit) and esc
        if okk:
            chk.ok("C15.exit", "run_exit_on_error", {"on_err": "exit(1)"})
        else:
            chk.violation("C15.exit", "run_exit_on_error", "Compile::run_exit_on_error does not reach a non-zero exit on every Err path", cx.site(b))
    ps = [p for p in cg.fns if last(p) == "run" and "Compile" in p and not p.endswith("}")]
    if ps:
        b = cx.body(cg, ps[0])
        bad = []
        for d in b.defs.get(0, []):
            e = norm(b.expr_call(d[3])) if d[2] == "call" else norm(b.expr_rv(d[3]))
            if not (e[0] == "call" and last(e[1]) in ("run_recursively", "run_on_single_file")):
                bad.append(mir.show(e)[:100])
        if bad:
            chk.violation("C15.exit", "Compile::run", "Compile::run does not return the result of the compilation unchanged: %s" % bad, cx.site(b))
        else:
            chk.ok("C15.exit", "Compile::run", {"returns": "inner result unchanged"})
    # no Result of the generator is discarded
    n = 0
    for p, b in c16.generator_bodies(cx):
        if "::grammar::generated::" in p:
            continue
        for l in range(1, len(b.locals)):
            ty = b.ty(l)
            if not (ty.startswith("std::result::Result<") and ("anyhow::Error" in ty or "std::io::Error" in ty or "ParseError" in ty)):
                continue
            if l <= b.arg_count:
                continue
            ds = b.defs.get(l, [])
            if not ds or any(d[2] != "call" for d in ds):
                continue
            n += 1
            from . import c10
            us = c10.uses_of(b, l)
            real = [u for u in us if not (u[1] == "stmt" and u[2]["rv"]["k"] == "discr" and False)]
            consuming = False
            for (i, where, c) in us:
                if where == "call":
                    nm = last(c["t"]["func"]["path"]) if not c["t"]["func"].get("indirect") else ""
                    if nm in ("branch", "map_err", "with_context", "context", "unwrap", "expect", "and_then", "map", "ok"):
                        consuming = True
                    elif nm:
                        consuming = True   # handed to another function
                elif where == "stmt":
                    rv = c["rv"]
                    if rv["k"] in ("use", "agg", "discr"):
                        consuming = True
                    if rv["k"] == "ref":
                        consuming = True
            if not consuming:
                chk.violation("C15.exit", "%s discards result of %s" % (short(p), short(ds[0][3]["func"]["path"]) if not ds[0][3]["func"].get("indirect") else "?"),
                              "%s ignores the Result of a fallible call (`let _ =` / statement call): a failure would go unreported" % short(p),
                              cx.site(b, ds[0][0]))
    chk.ok("C15.exit", "generator Results", {"fallible_call_results_tracked": n})
    chk.floor("C15.exit", "fallible call results tracked", n, 45)


# ----------------------------------------------------------------- restrictions

def err_sites(cx):
    """(fn path, body, bb, atoms) for every `Err(..)` construction / ok_or_else(..)? in the generator."""
    cg = cx.codegen
    out = []
    for p, b in c16.generator_bodies(cx):
        if "::grammar::generated::" in p or "buildscript" in p:
            continue
        for d in b.defs.get(0, []):
            if d[2] == "rv":
                e = norm(b.expr_rv(d[3]))
                if e[0] == "agg" and e[2] == "Err":
                    out.append((p, b, d[0], b.atoms(d[0]), e))
            else:
                e = norm(b.expr_call(d[3]))
                if is_call(e, "ok_or_else", "ok_or"):
                    out.append((p, b, d[0], b.atoms(d[0]), e))
                if is_call(e, "from_residual"):
                    # `x.ok_or_else(..)?`
                    inner = [s for s in walk(e) if is_call(s, "ok_or_else", "ok_or")]
                    if inner:
                        out.append((p, b, d[0], b.atoms(d[0]), inner[0]))
    return out


def has_atom(atoms, pred, want):
    return any(v is want and pred(e) for (e, v, d) in atoms)


def mentions_field(e, name):
    return any(s[0] == "field" and s[2] == name for s in walk(e))


_GUARD = {}


def body_facts(cx, cg, b, depth=0, seen=None):
    """Everything a body mentions: field names read, string constants, callee names - closures and (two levels of) crate-local
    callees included.  Used to recognise *what a guard depends on* independently of how the condition is spelled."""
    seen = seen if seen is not None else set()
    if b.path in seen:
        return set()
    seen.add(b.path)
    cache = cx.__dict__.setdefault("_c15_bf", {})
    key = (b.path, depth)
    if key in cache:
        return cache[key]
    out = set()

    def op(o):
        if not isinstance(o, dict):
            return
        if "str" in o:
            out.add("str:" + o["str"])
        if "promoted" in o:
            pv = b.promoted_value(o["promoted"])
            if pv is not None:
                for s_ in walk(pv):
                    if s_[0] == "const" and s_[1] == "str":
                        out.add("str:" + str(s_[2]))
        pl = o.get("place")
        if pl:
            for pe in pl["p"]:
                if pe["k"] == "field" and pe.get("name"):
                    out.add("field:" + pe["name"])
    for i in b.reach:
        blk = b.blocks[i]
        for st in blk["stmts"]:
            if st["k"] != "assign":
                continue
            rv = st["rv"]
            for k_ in ("op", "a", "b"):
                op(rv.get(k_))
            for o in rv.get("ops", ()):
                op(o)
            if "place" in rv:
                op({"place": rv["place"]})
            if rv["k"] == "agg" and rv.get("agg") == "closure" and rv.get("def") in cg.fns and depth < 3:
                cb = cx.body(cg, rv["def"])
                if cb is not None:
                    out |= body_facts(cx, cg, cb, depth + 1, seen)
        t = blk["term"]
        if t["k"] == "call":
            f = t["func"]
            for a_ in t["args"]:
                op(a_)
            if not f.get("indirect"):
                out.add("call:" + last(f["path"]))
                tgt = f.get("resolved") or f["path"]
                if tgt in cg.fns and "mir" in cg.fns[tgt] and depth < 2 and "::grammar::generated::" not in tgt:
                    cb = cx.body(cg, tgt)
                    if cb is not None and len(cb.reach) < 60:
                        out |= body_facts(cx, cg, cb, depth + 1, seen)
        elif t["k"] == "switch":
            op(t["discr"])
    cache[key] = out
    return out


def guard_facts(cx, cg, b, bb, extra=None):
    """Facts the conditions dominating block bb (and the expression `extra`) depend on."""
    out = set()

    def expr(e):
        for s_ in b.walk_deep(e):
            if s_[0] == "field":
                out.add("field:" + str(s_[2]))
            elif s_[0] == "const" and s_[1] == "str":
                out.add("str:" + str(s_[2]))
            elif s_[0] == "call":
                out.add("call:" + last(s_[1]))
                tgt = s_[3] if len(s_) > 3 and s_[3] else s_[1]
                if tgt in cg.fns and "mir" in cg.fns[tgt] and "::grammar::generated::" not in tgt:
                    cb = cx.body(cg, tgt)
                    if cb is not None and len(cb.reach) < 60:
                        out.update(body_facts(cx, cg, cb, 1))
            elif s_[0] == "closure" and s_[1] in cg.fns:
                cb = cx.body(cg, s_[1])
                if cb is not None:
                    out.update(body_facts(cx, cg, cb, 1))
    for (e, v, d) in b.atoms(bb):
        expr(e)
        if e[0] == "field" and v in (True, False):
            out.add("%s:field:%s" % ("true" if v else "false", e[2]))
    # conditions of enclosing loops / non-dominating guards: every switch from which bb is reachable but its other side is not
    if extra is not None:
        expr(extra)
    return out


def reach_from_impl(cx, cg, needle, depth=3):
    """Paths of generator functions reachable (direct crate-local calls, `depth` levels) from the methods whose path mentions `needle`."""
    cache = cx.__dict__.setdefault("_c15_reach", {})
    if needle in cache:
        return cache[needle]
    cur = {p for p in cg.fns if needle in p and "mir" in cg.fns[p]}

    def foreign_trait_method(q):
        # a trait method implemented for another type (the AST dispatch): not part of this type's own logic
        return mir.qself(q) is not None and needle not in q
    allp = set(cur)
    for _ in range(depth):
        nxt = set()
        for p in cur:
            b = cx.body(cg, p)
            if b is None:
                continue
            for i, t in b.calls():
                f = t["func"]
                if f.get("indirect"):
                    continue
                tgt = f.get("resolved") or f["path"]
                if tgt in cg.fns and "mir" in cg.fns[tgt] and tgt not in allp and "::grammar::generated::" not in tgt \
                        and not foreign_trait_method(tgt) and not cg.fns[tgt].get("trait_decl"):
                    nxt.add(tgt)
            for q in cg.fns:
                if q.startswith(p + "::{closure") and q not in allp and "mir" in cg.fns[q]:
                    nxt.add(q)
        allp |= nxt
        cur = nxt
    cache[needle] = allp
    return allp


def R(scope=None, need=(), forbid=(), flags=None):
    """A documented restriction is recognised by what the guard of some error return depends on:
    scope  - the error return lies in a function reachable from the methods of this generator type,
    need   - facts (field:NAME read, str:CONST compared, call:NAME used) the guard must depend on,
    forbid - facts that would make it a different restriction."""
    return {"scope": scope, "need": set(need), "forbid": set(forbid), "flags": flags}


RESTRICTIONS = [
    ("fields inside a negative lookahead", R("NegativeLookahead", ["call:get_fields"])),
    ("fields inside a positive lookahead", R("PositiveLookahead", ["call:get_fields"])),
    ("mixing @: with named fields", R("rule::", ["str:_override"], ["field:arity", "field:export", "field:position", "field:string"])),
    ("multi-type @: in optional/closure (arity != One)", R("rule::", ["field:arity"])),
    ("@export on a plain override", R("rule::", ["true:field:export"], ["true:field:string"])),
    ("@position on a plain override", R("rule::", ["true:field:position"], ["true:field:string", "true:field:export"])),
    ("@string with @export", R("rule::", ["true:field:export", "true:field:string"])),
    ("a skipping Whitespace rule", R("rule::", ["str:Whitespace", "field:no_skip_ws"])),
    ("@memoize without Clone", R("rule::", ["str:Clone", "field:derives"], flags="memoize")),
    ("non-ASCII case-insensitive literal", R("StringLiteral", ["call:is_ascii", "field:insensitive"])),
    ("invalid code point", R("string::", ["call:from_u32"])),
    ("include of a missing / @char / @extern rule", R("IncludeRule", ["field:rules"], [])),
]


def check_restrict(cx, chk):
    cg = cx.codegen
    _CX[0] = cx
    sites = err_sites(cx)
    facts = {}
    for (p, b, bb, at, e) in sites:
        facts[(p, bb)] = guard_facts(cx, cg, b, bb, e)
    for (name, r) in RESTRICTIONS:
        hits = []
        scope = reach_from_impl(cx, cg, r["scope"]) if r["scope"] else None
        for (p, b, bb, at, e) in sites:
            if scope is not None and p not in scope and p.split("::{closure")[0] not in scope:
                continue
            fs = facts[(p, bb)]
            if not r["need"] <= fs or (r["forbid"] & fs):
                continue
            if r["flags"] and r["flags"] not in flags_guarding(b, bb):
                continue
            hits.append((p, b, bb))
        if hits:
            p, b, bb = hits[0]
            chk.ok("C15.restrict", name, {"restriction": name, "guarded_error_in": short(p), "site": cx.site(b, bb),
                                          "guard_depends_on": sorted(r["need"])})
        else:
            chk.violation("C15.restrict", name, "no error return in the generator is control-dependent on the facts that define the "
                          "documented restriction '%s' (%s): such grammars are no longer rejected" % (name, sorted(r["need"])))
    chk.floor("C15.restrict", "error-return sites in the generator", len(sites), 7)


# ----------------------------------------------------------------- cached

def flag_reads_at(cx, b, block_pred):
    out = set()
    for i in b.reach:
        if not block_pred(i):
            continue
        for (e, v, d) in b.atoms(i):
            for s in walk(e):
                if s[0] == "field" and s[2] in ("memoize", "left_recursive"):
                    out.add(s[2])
    return out


def check_must_reject(cx, chk, R="C15.restrict", only=None):
    """Instance side of `restrict`: one small grammar per documented restriction (corpus/grammars/reject_*.ebnf, with the derive
    set that makes it invalid) is handed to the tree's generator by the corpus build script; every one has to be refused - by
    the generator, not by the front end.  Their output, if any, is never compiled or run."""
    acc, ref = cx.must_reject_accepted, cx.must_reject_refused
    if acc is None or ref is None:
        chk.anchor_missing(R, "corpus must-reject list (MUST_REJECT_*.txt)")
        return
    n = 0
    for row in acc:
        if only and not any(o in row[0] for o in only):
            continue
        if len(row) > 2 and "PANICKED" in row[2]:
            chk.violation(R, "panicked %s" % row[0],
                          "the grammar %s breaks a documented restriction (%s) and makes the compiler PANIC instead of returning an error"
                          % (row[1] if len(row) > 1 else row[0], row[0].replace("_", " ")))
            continue
        chk.violation(R, "accepted %s" % row[0],
                      "the grammar %s breaks a documented restriction (%s) and is ACCEPTED: the compiler has to reject it with an error - what it "
                      "generates instead does not compile or does not mean what the grammar says" % (row[1] if len(row) > 1 else row[0], row[0].replace("_", " ")))
    for row in ref:
        if only and not any(o in row[0] for o in only):
            continue
        n += 1
        msg = row[2] if len(row) > 2 else ""
        if "-->" in msg or "Parse error" in msg:
            chk.violation(R, "front-end %s" % row[0], "the must-reject grammar %s is refused by the front end (%s), not by the restriction it is meant to break: "
                          "the corpus entry is wrong" % (row[0], msg[:100]))
        else:
            chk.ok(R, "refused %s" % row[0], {"grammar": row[0], "error": msg[:160]})
    if not only:
        chk.floor(R, "must-reject grammars refused", n, 12)


def check_cached(cx, chk):
    cg = cx.codegen
    _CX[0] = cx
    _PRED_FLAGS.clear()
    sites = {}
    # (1) cache field declaration: pushes of `CacheEntries` in CodegenGrammar::generate_code
    for p, b in c16.generator_bodies(cx):
        if "::grammar::generated::" in p:
            continue
        evs = templates.events(cx, cg, b)
        for ev in evs:
            if ev["kind"] == "ident" and ev.get("text") == "CacheEntries":
                sites["declares the cache field"] = (p, b, flags_guarding_ip(cx, cg, p, b, ev["bb"]))
        # (2) memo body: emission of `cache_key`
            if ev["kind"] == "ident" and ev.get("text") == "cache_key" and "emits the cache lookup" not in sites:
                pass
    for p, b in c16.generator_bodies(cx):
        if last(p) == "generate_memoized_body":
            evs = templates.events(cx, cg, b)
            reads = set()
            for ev in evs:
                if ev["kind"] == "ident" and ev.get("text") == "cache_key":
                    reads |= flags_guarding(b, ev["bb"])
            sites["emits the cache lookup"] = (p, b, reads)
    # (3) Clone demanded
    for (p, b, bb, at, e) in err_sites(cx):
        if {"str:Clone", "field:derives"} <= guard_facts(cx, cg, b, bb, e):
            reads = set()
            for (x, v, d) in at:
                for s in walk(x):
                    if s[0] == "field" and s[2] in ("memoize", "left_recursive"):
                        reads.add(s[2])
            # flags that lead to the check on *any* path (disjunction): look at predecessors too
            sites["demands Clone"] = (p, b, flags_guarding(b, bb))
    for k in ("declares the cache field", "emits the cache lookup", "demands Clone"):
        if k not in sites:
            chk.anchor_missing("C15.cached", k)
    if len(sites) == 3:
        sets = {k: v[2] for k, v in sites.items()}
        want = {"memoize", "left_recursive"}
        bad = {k: s for k, s in sets.items() if s != want}
        if not bad:
            chk.ok("C15.cached", "agreement", {k: sorted(v) for k, v in sets.items()})
        else:
            for k, s in bad.items():
                p, b, _ = sites[k]
                chk.violation("C15.cached", "%s reads %s" % (k, "+".join(sorted(s)) or "nothing"),
                              "the site that %s decides on {%s} while the others decide on {memoize, left_recursive}: a @leftrec rule "
                              "compiled with a derive set lacking Clone is accepted and its generated `.clone()` calls do not compile"
                              % (k, ", ".join(sorted(s))), cx.site(b))


def flags_guarding_ip(cx, cg, p, b, bb):
    """flags_guarding, looking through a helper: when nothing inside the function decides, the flags that guard every call of it."""
    r = flags_guarding(b, bb)
    if r:
        return r
    if "::{closure" in p:
        # the closure of a `.map(..)` / `.for_each(..)` behind a `.filter(..)` / `.filter_map(..)` of the same function: the elements it
        # sees are the ones the filtering closure lets through
        parent = p.rsplit("::{closure", 1)[0]
        pb = cx.body(cg, parent) if parent in cg.fns and "mir" in cg.fns[parent] else None
        if pb is not None and any(not t["func"].get("indirect") and last(t["func"]["path"]) in ("filter", "filter_map") for _, t in pb.calls()):
            acc = set()
            for q, f in cg.fns.items():
                if q == p or not q.startswith(parent + "::{closure") or "mir" not in f or q.count("::{closure") != p.count("::{closure"):
                    continue
                qb = cx.body(cg, q)
                for i in sorted(qb.reach):
                    for st in qb.blocks[i]["stmts"]:
                        if st["k"] == "assign" and st["place"]["l"] == 0:
                            rv = st["rv"]
                            passes = (rv["k"] == "agg" and rv.get("variant") == "Some") or \
                                (rv["k"] == "use" and rv["op"].get("k") == "const" and str(rv["op"].get("val", rv["op"].get("text", ""))).strip() in ("true", "const true"))
                            if passes:
                                acc |= flags_guarding(qb, i)
            if acc:
                return acc
    sets = []
    for q, f in cg.fns.items():
        if "mir" not in f or "::grammar::generated::" in q:
            continue
        qb = cx.body(cg, q)
        for i, t in qb.calls():
            fq = t["func"]
            if not fq.get("indirect") and (fq.get("resolved") or fq["path"]) == p:
                sets.append(flags_guarding(qb, i))
    if not sets:
        return r
    out = set(sets[0])
    for s_ in sets[1:]:
        out &= s_
    return out


_PRED_FLAGS = {}
_CX = [None]


def predicate_flags(path):
    """For a crate-local predicate `fn(&RuleFlags..) -> bool`: the caching flags that make it true on their own (evaluated on its
    semantic summary), so that `flags.uses_cache()` guards like `flags.memoize || flags.left_recursive`."""
    cx = _CX[0]
    if cx is None:
        return set()
    if path in _PRED_FLAGS:
        return _PRED_FLAGS[path]
    out = set()
    cg = cx.codegen
    f = cg.fns.get(path)
    if f is not None and "mir" in f and f.get("output") == "bool":
        from .. import sem
        from . import semspec
        try:
            sm = sem.Sem(cx, cg, inline=lambda p_: False).summarize(path)
        except sem.SemLimit:
            sm = None
        if sm is not None and sm.complete:
            P1 = mir.mk("param", 1)
            names = ("memoize", "left_recursive")
            for nme in names:
                env = {}
                for other in names:
                    for base in (P1, mir.mk("deref", P1)):
                        env[mir.mk("field", base, other)] = (other == nme)
                sel, unk = semspec.select_leaves(sm.returns, env)
                vals = {semspec.eval_term(l.ret, env) for l in sel}
                if not unk and vals == {True}:
                    out.add(nme)
    _PRED_FLAGS[path] = out
    return out


def flags_guarding(b, bb):
    """Flags (memoize / left_recursive) whose truth lets control reach bb: scan every switch from which bb is reachable."""
    out = set()
    for i in b.reach:
        t = b.blocks[i]["term"]
        if t["k"] != "switch" or bb not in b.reachable_from(i):
            continue
        e, ty = b.switch_info(i)
        ne = norm(e)
        direct = {s[2] for s in walk(ne) if s[0] == "field" and s[2] in ("memoize", "left_recursive")}
        deep = {s[2] for s in b.walk_deep(ne) if s[0] == "field" and s[2] in ("memoize", "left_recursive")}
        for s_ in b.walk_deep(ne):
            if s_[0] == "call" and not s_[1].startswith(("std::", "core::", "alloc::")):
                deep |= predicate_flags(s_[3] if len(s_) > 3 and s_[3] else s_[1])
        for name in deep:
            # does the true edge lead to bb?  (for a flag that only feeds a local condition such as
            # `let needs = a || b;` the local's true edge is what matters)
            for (j, lab) in b.succ[i]:
                if mir.truth(lab[1] if lab[1] != "otherwise" else ("not", tuple(v for v, _ in t["targets"]))) is True and bb in b.reachable_from(j):
                    out.add(name)
    return out


# ----------------------------------------------------------------- panic inventory

GEN_PANIC_TABLE = {
    # (fn key, kind, detail) -> reason
}

IDX = ("index", "assert:bounds")

GEN_PANIC_REASONS = [
    # (predicate on (fnkey, kind, detail), reason)
    (lambda f, k, d: "generate_default_field" in f and k == "panic", "unreachable: an outer field that is absent from an arm is at least Optional (Choice::get_fields demotes One, C03.lattice)"),
    (lambda f, k, d: "generate_parse_function" in f and k in ("panic", "diverges:panicking::assert_failed"), "assert_eq!(arity, Multiple): a field seen twice in one sequence is Multiple (Sequence::get_fields, C03.lattice)"),
    (lambda f, k, d: "generate_code_spec" in f and k == "panic" and "Codegen" in f, "default trait body: every implementor overrides generate_code_spec or generate_inline_body (rustc-checked by construction of misc.rs dispatch)"),
    (lambda f, k, d: "generate_postprocess_calls" in f and k == "unwrap", "expect(): the field and its type were put into rule_fields by get_fields of the same rule"),
    (lambda f, k, d: "generate_field_type" in f and k == "unwrap", "types.iter().next().unwrap() under types.len() <= 1 and every FieldDescriptor has at least one type"),
    (lambda f, k, d: "generate_parse_body" in f and k == "unwrap", "repeats generate_inline_body / get_fields calls that already succeeded in generate_code_spec of the same node (pure functions)"),
    (lambda f, k, d: ("HexaEscape" in f or "Utf8Escape" in f) and k == "unwrap", "to_digit(16).unwrap() on a HexChar: the front end's @char HexChar admits only [0-9a-fA-F] (C12.hex)"),
    (lambda f, k, d: "HexaEscape" in f and k.startswith("assert:overflow"), "two hex digits: 15*16+15 = 255 fits u8"),
    (lambda f, k, d: "Utf8Escape" in f and k.startswith("assert:overflow"), "at most six hex digits: < 2^24 fits u32"),
    (lambda f, k, d: "StringLiteral" in f and "generate_inline_body" in f and k == "unwrap", "chars().next().unwrap() under chars().count() == 1"),
    (lambda f, k, d: "generate_code_spec" in f and k in IDX and ("Sequence" in f or "Choice" in f), "parts[0] / choices[0] under len() < 2 and non-empty (Sequence checks is_empty first; Choice always has >= 1 alternative by the grammar: Choice = choices:Sequence {...})"),
    (lambda f, k, d: "generate_inline_body" in f and k in IDX and ("Sequence" in f or "Choice" in f), "as generate_code_spec: index 0 under a length test"),
    (lambda f, k, d: "generate_override_rule" in f and k in IDX, "fields[0] under fields.len() == 1 (checked by the caller)"),
    (lambda f, k, d: "generate_code" in f and ("CodegenRule" in f or "Rule::generate_code" in f) and k in IDX, "fields[0] guarded by fields.len() == 1 in the same condition (short-circuit)"),
    (lambda f, k, d: "generate_impl_position" in f and k in IDX, "fields[0] guarded by fields.len() == 1 in the same condition (short-circuit)"),
    (lambda f, k, d: "generate_parsed_struct_type" in f and k in IDX, "fields[0] under fields.len() == 1"),
    (lambda f, k, d: "generate_parse_function" in f and k in IDX, "inner_fields[0] under inner_fields.len() == 1"),
    (lambda f, k, d: "generate_result_converter" in f and k in IDX, "fields[0] under fields.len() == 1"),
    (lambda f, k, d: k == "assert:overflow_Add" and "enumerate" in d, "iterator bookkeeping"),
]


def gen_reachable(cx):
    cg = cx.codegen
    roots = [p for p in cg.fns if (last(p) == "generate_code" and "CodegenGrammar" in p) or (last(p) == "from_str" and "Grammar" in p)
             or last(p) in ("generate_source_header", "run", "run_exit_on_error", "set_user_context_type")]
    seen = c16.reachable(cx, cg, roots)
    return sorted(p for p in seen if "::grammar::generated::" not in p)


# constant-index accesses that are safe only by a fact established outside the function (guards.py verdict `open`)
EXTERNAL_INDEX = {
    "Choice": "choices[0] under len() < 2: a Choice has at least one alternative by the grammar of grammars (Choice = choices:Sequence {'|' choices:Sequence})",
    "generate_override_rule": "fields[0]: the caller tests fields.len() == 1 (proved locally there: CodegenRule::generate_code)",
}


def check_panic(cx, chk):
    from . import guards
    cg = cx.codegen
    n = 0
    fns = gen_reachable(cx)
    G = guards.Guards(cx, cg)
    has_unsafe = any(u["user"] and not u["span"]["exp"] and "::grammar::generated::" not in u["fn"] for u in cg.j["unsafe_blocks"])
    for p in fns:
        b = cx.body(cg, p)
        if "fmt::Debug" in p or "Clone" in short(p):
            continue
        for i, kind, t in c04.panic_sites(b):
            if t["k"] == "call" and t.get("fn_exp") and kind.startswith("diverges") and "assert_failed" not in kind:
                continue
            if kind == "diverges:process::exit":
                continue     # deliberate exit of run_exit_on_error (C15.exit), not a panic
            if kind in ("assert:misaligned", "assert:nullptr") and not has_unsafe:
                continue     # rustc's debug pointer checks inside std/macro expansions; the crate has no unsafe code of its own
            q = mir.qself(p.split("::{closure")[0])
            fkey = ("%s::%s" % (last(q[0]), q[2])) if q else short(p)
            if "{closure" in p:
                fkey += "::{closure}"
            # identifier sinks are C15.ident's business
            n += 1
            detail = ""
            if t["k"] == "call" and t["args"]:
                detail = mir.show(norm(b.expr_op(t["args"][0])))[:120]
            reason = None
            for (pred, why) in GEN_PANIC_REASONS:
                try:
                    if pred(fkey + " " + p, kind, detail):
                        reason = why
                        break
                except Exception:
                    pass
            tag = "%s %s" % (fkey, kind)
            if kind in IDX and reason:
                verdict = G.verdicts(p).get(i)
                if verdict == "proved":
                    chk.ok("C15.panic", tag, {"fn": fkey, "kind": kind, "reason": reason, "proved": "the length tests made before the access exclude every out-of-range length"})
                    continue
                if verdict and verdict.startswith("open"):
                    ext = [why for k_, why in EXTERNAL_INDEX.items() if k_ in fkey + " " + p]
                    if ext:
                        chk.ok("C15.panic", tag, {"fn": fkey, "kind": kind, "reason": ext[0], "local_verdict": verdict})
                    else:
                        chk.violation("C15.panic", tag + " guard",
                                      "constant-index access whose guard does not exclude an out-of-range length: with everything %s tests before it, a "
                                      "collection of length %s still reaches the access - the compiler panics instead of returning an error" % (fkey, verdict[7:-1]),
                                      cx.site(b, i), {"detail": detail})
                    continue
            if reason:
                chk.ok("C15.panic", tag, {"fn": fkey, "kind": kind, "reason": reason})
            else:
                chk.violation("C15.panic", tag, "panic-capable construct (%s) in the generator with no recognised guard and no justification "
                              "entry: a grammar could make the compiler panic instead of returning an error" % kind, cx.site(b, i),
                              {"detail": detail})
    chk.floor("C15.panic", "panic-capable sites examined in the generator", n, 12)


def check_prepass(cx, chk):
    """The unwrap()s of generate_parse_body on generate_inline_body / get_fields are justified by "the same call already
    succeeded in generate_code_spec of the same node".  What that needs locally: the bool closure of generate_code_spec that
    sorts the node's children by the result of generate_inline_body sends a child whose result is Err to the side that is
    generated with `?` (returns true for it), and the closure applied to that side propagates a failing generate_code."""
    from .. import sem
    cg = cx.codegen
    S = sem.Sem(cx, cg, inline=lambda p: False)
    n = 0
    for p in sorted(cg.fns):
        if "{closure" not in p or "generate_code_spec" not in p or "mir" not in cg.fns[p] or "::grammar::generated::" in p.split("generate_code_spec")[1]:
            continue
        owner = p.split("::{closure")[0]
        q = mir.qself(owner)
        okey = ("%s::%s" % (last(q[0]), q[2])) if q else short(owner)
        try:
            sm = S.summarize(p)
        except sem.SemLimit:
            continue
        if sm is None or not sm.complete or not sm.returns:
            continue
        # closures returning bool that branch on the result of generate_inline_body
        if not all(l.ret is not None and l.ret[0] == "const" and l.ret[1] == "bool" for l in sm.returns):
            continue
        probes = set()
        for l in sm.returns:
            for a, v in l.assume:
                if a[0] == "discr" and a[1][0] == "call" and last(a[1][1]) in ("generate_inline_body", "get_fields"):
                    probes.add(a[1])
        if len(probes) != 1:
            continue
        call = list(probes)[0]
        # does generate_parse_body of the same type unwrap the same function?
        body_fn = [f for f in cg.fns if f.startswith(owner.rsplit("::", 1)[0].replace("<impl common::Codegen for ", "<impl ").split("<impl")[0]) and last(f) == "generate_parse_body"]
        n += 1
        on_err = {l.ret[2] for l in sm.returns if (mir.mk("discr", call), 1) in list(l.assume)}
        tag = "%s sorts children by %s" % (okey, last(call[1]))
        if on_err == {True}:
            chk.ok("C15.panic", tag, {"fn": okey, "rule": "a child whose %s is Err goes to the side generated with `?`" % last(call[1])})
        elif False in on_err:
            chk.violation("C15.panic", "%s drops-err" % tag,
                          "the closure of %s that sorts the children by the result of %s returns false when that result is Err: the child is treated as "
                          "inlinable, its error is not propagated, and generate_parse_body later unwrap()s the same call - the compiler panics instead of "
                          "returning the error (e.g. `R = 'a' | i'\u00e9';`)" % (okey, last(call[1])), cx.site(cx.body(cg, p)))
    chk.floor("C15.panic", "child-sorting closures examined", n, 1)


# ----------------------------------------------------------------- identifiers

def check_keywords(cx, chk, R):
    cg = cx.codegen
    # safe_ident's keyword table
    kw = None
    for c_ in cg.j.get("consts", []):
        if c_["path"].endswith("RUST_KEYWORDS"):
            kw = c_
    src = cx.read_repo("codegen/src/common.rs")
    m = re.search(r"RUST_KEYWORDS:\s*\[&str;\s*\d+\]\s*=\s*\[(.*?)\];", src, re.S)
    table = set(re.findall(r'"(\w+)"', re.sub(r"//[^\n]*", "", m.group(1)))) if m else set()
    strict = {"as", "break", "const", "continue", "crate", "else", "enum", "extern", "false", "fn", "for", "if", "impl", "in", "let", "loop",
              "match", "mod", "move", "mut", "pub", "ref", "return", "self", "Self", "static", "struct", "super", "trait", "true", "type",
              "unsafe", "use", "where", "while", "async", "await", "dyn"}
    reserved = {"abstract", "become", "box", "do", "final", "macro", "override", "priv", "typeof", "unsized", "virtual", "yield", "try"}
    not_rawable = {"crate", "self", "Self", "super"}
    if not table:
        chk.anchor_missing(R, "RUST_KEYWORDS table")
    else:
        missing = (strict | reserved) - table - not_rawable
        for k in sorted(missing):
            chk.violation(R, "keyword-missing %s" % k, "keyword `%s` is not escaped by safe_ident: a rule or field of that name yields code that does not compile" % k)
        if not missing:
            chk.ok(R, "keyword table", {"escaped": len(table & (strict | reserved)), "reference": "Rust 2021 strict + reserved keywords"})
        # keywords that cannot be raw identifiers
        for k in sorted(not_rawable):
            if k in table:
                chk.violation(R, "keyword-not-rawable %s" % k,
                              "`%s` is escaped as r#%s, which proc_macro2 rejects with a panic: a rule/field named `%s` makes the compiler panic" % (k, k, k))
            else:
                chk.violation(R, "keyword-unescaped %s" % k,
                              "`%s` cannot be a raw identifier and is emitted verbatim: a rule/field named `%s` yields code that does not compile" % (k, k))



def check_ident(cx, chk):
    """Grammar strings must not reach Ident::new / format_ident! unvalidated (they panic on non-identifiers)."""
    cg = cx.codegen
    sinks = []
    for p, b in c16.generator_bodies(cx):
        if "::grammar::generated::" in p:
            continue
        for i, t in b.calls():
            f = t["func"]
            if f.get("indirect"):
                continue
            l = last(f["path"])
            if (l == "mk_ident" and "quote" in f["path"]) or (l in ("new", "new_raw") and "Ident" in f["path"] and f["krate"] == "proc_macro2"):
                sinks.append((p, b, i, t))
    validated = 0
    unvalidated = []
    import ast as _ast
    for (p, b, i, t) in sinks:
        at = b.atoms(i)
        guard = [e for (e, v, d) in at if any(is_call(s_, "is_xid_start", "is_xid_continue", "is_ident", "is_valid_ident", "is_alphabetic", "is_alphanumeric", "parse_str", "validate_ident") for s_ in walk(e))]
        if guard:
            validated += 1
            continue
        e = norm(b.expr_op(t["args"][0]))
        tmpl = None
        for s_ in walk(e):
            if s_[0] == "const" and isinstance(s_[2], str) and s_[2].startswith('b"'):
                try:
                    tmpl = _ast.literal_eval(s_[2])
                except Exception:
                    tmpl = None
        prefix = ""
        if tmpl and tmpl[0] < 0x80:
            prefix = tmpl[1:1 + tmpl[0]].decode("utf-8", "replace")
        if not prefix:
            # a constant name without interpolation (`format_ident!("helper")`, `Ident::new("x", span)`)
            consts = [s_[2] for s_ in walk(e) if s_[0] == "const" and s_[1] == "str" and isinstance(s_[2], str)]
            if len(consts) == 1 and re.match(r"^[A-Za-z_][A-Za-z0-9_]*$", consts[0]) and not any(is_call(s_, "new_display", "new_debug") for s_ in walk(e)):
                prefix = consts[0]
        # a literal prefix that starts an identifier + interpolations made of identifier characters (AST `Identifier`
        # fields are {IdentifierChar}+ over [A-Za-z0-9_]; enumerate() indices are digits) cannot be rejected by Ident::new
        srcs_ok = all((a_[0] == "field" and a_[2] in ("name", "typ", "rule", "0")) or a_[0] in ("param", "upvar") or a_[0] == "agg"
                      for s_ in walk(e) if is_call(s_, "new_display") for a_ in [s_[2][0]])
        if prefix and (prefix[0].isalpha() or prefix[0] == "_") and prefix != "r#":
            validated += 1
            chk.ok("C15.ident", "%s %r" % (short(p), prefix), {"fn": short(p), "template_prefix": prefix, "why": "literal identifier-start prefix + identifier-character interpolations"})
        else:
            unvalidated.append((p, b, i, t))
    check_keywords(cx, chk, "C15.ident")
    if unvalidated:
        byfn = {}
        for (p, b, i, t) in unvalidated:
            q = mir.qself(p.split("::{closure")[0])
            key = ("%s::%s" % (last(q[0]), q[2])) if q else short(p.split("::{closure")[0])
            byfn.setdefault(key, []).append((p, b, i, t))
        for key, lst in sorted(byfn.items()):
            p, b, i, t = lst[0]
            chk.violation("C15.ident", "unvalidated-identifier-sink %s" % key,
                          "%s builds identifiers from grammar/configuration strings (rule, field, type, include, @check/@extern path parts, "
                          "derives, user context type) with the panicking constructors format_ident!/Ident::new and no validation: a name that "
                          "is not a Rust identifier (e.g. rule `1a`, `@check(foo bar)`) makes the compiler panic instead of returning an error" % key,
                          cx.site(b, i), {"sites": len(lst)})
    else:
        chk.ok("C15.ident", "identifier sinks", {"sinks": len(sinks), "validated": validated})
    chk.floor("C15.ident", "identifier construction sites", len(sinks), 12)


# ----------------------------------------------------------------- recursion

def check_rec(cx, chk):
    cg = cx.codegen
    fns = [p for p in gen_reachable(cx)]
    idx = {p: k for k, p in enumerate(fns)}
    adj = {p: set() for p in fns}
    for p in fns:
        b = cx.body(cg, p)
        for _, t in b.calls():
            f = t["func"]
            if f.get("indirect"):
                continue
            tgt = [q for q in (f.get("resolved"), f["path"]) if q in adj]
            if f.get("trait_item") and not (f.get("resolved") in adj):
                m = last(f["path"])
                tr = short(f["path"]).split("::")[0]
                tgt += [q for q in fns if last(q) == m and (cg.fns[q].get("impl_trait") and last(cg.fns[q]["impl_trait"]) == tr)]
            for q in tgt:
                adj[p].add(q)
    # Tarjan SCC
    sccs = []
    index = {}
    low = {}
    stack = []
    on = set()
    counter = [0]

    def strong(v):
        work = [(v, iter(adj[v]))]
        index[v] = low[v] = counter[0]
        counter[0] += 1
        stack.append(v)
        on.add(v)
        while work:
            n, it = work[-1]
            adv = False
            for w in it:
                if w not in index:
                    index[w] = low[w] = counter[0]
                    counter[0] += 1
                    stack.append(w)
                    on.add(w)
                    work.append((w, iter(adj[w])))
                    adv = True
                    break
                elif w in on:
                    low[n] = min(low[n], index[w])
            if not adv:
                work.pop()
                if work:
                    low[work[-1][0]] = min(low[work[-1][0]], low[n])
                if low[n] == index[n]:
                    comp = []
                    while True:
                        w = stack.pop()
                        on.discard(w)
                        comp.append(w)
                        if w == n:
                            break
                    sccs.append(comp)
    for v in fns:
        if v not in index:
            strong(v)
    cyc = [c for c in sccs if len(c) > 1 or (c[0] in adj[c[0]])]
    n = 0
    for comp in cyc:
        n += 1
        names = sorted({short(p) for p in comp})
        # by-name lookups inside the cycle
        lookups = []
        for p in comp:
            b = cx.body(cg, p)
            for i, t in b.calls():
                f = t["func"]
                if not f.get("indirect") and last(f["path"]) in ("find_map", "find", "get", "position") and "iter" in mir.strip_generics(f["path"]).lower():
                    lookups.append((p, b, i))
            # calls to a lookup helper
            for i, t in b.calls():
                f = t["func"]
                if not f.get("indirect") and (f.get("resolved") or f["path"]) in cg.fns:
                    q = f.get("resolved") or f["path"]
                    qb = cx.body(cg, q)
                    if qb is not None and any(not tt["func"].get("indirect") and last(tt["func"]["path"]) in ("find_map",) for _, tt in qb.calls()):
                        lookups.append((p, b, i))
        guard = False
        for p in comp:
            b = cx.body(cg, p)
            for i, t in b.calls():
                f = t["func"]
                if not f.get("indirect") and last(f["path"]) in ("contains", "insert") and any(x in b.ty(t["args"][0]["place"]["l"]) for x in ("HashSet", "BTreeSet", "Vec")) and "visited" in (b.local_name.get(t["args"][0]["place"]["l"], "") + "visit"):
                    guard = True
        if lookups and not guard:
            p, b, i = lookups[0]
            # the finding is identified by the trait methods of the cycle (helper functions come and go with refactoring)
            knames = sorted({short(p) for p in comp if mir.qself(p) is not None or cg.fns[p].get("trait_decl")}) or names
            chk.violation("C15.rec", "by-name-recursion %s" % "+".join(knames[:3]),
                          "the recursion %s goes through a by-name rule lookup (include) without a cycle guard: it is not bounded by the "
                          "grammar tree, so `A = >A;` (or a longer include cycle) overflows the stack" % names[:6], cx.site(b, i))
        else:
            chk.ok("C15.rec", "scc " + "+".join(names[:3]), {"cycle": names[:8], "kind": "structural recursion over the AST (bounded by the grammar text's nesting)"})
    chk.floor("C15.rec", "recursive components of the generator", n, 3)
    # depth of the front end: recursive descent without a depth bound
    boot = [i_ for i_ in cx.instances() if i_.name == "bootstrap"]
    if not boot:
        chk.anchor_missing("C15.rec", "bootstrapped front end")
    else:
        inst = boot[0]
        radj = {}
        for r, p in inst.rule_fns.items():
            tgt = set()
            for q in [p] + [x for x in inst.fns if x.startswith(inst.prefix + "::" + r + "_impl::") or x.startswith(p + "::{closure")]:
                if "mir" not in inst.fns[q]:
                    continue
                bq = cx.body(inst.crate, q)
                for _, t in bq.calls():
                    f = t["func"]
                    if not f.get("indirect") and mir.strip_generics(f["path"]).startswith(inst.prefix + "::parse_") and last(f["path"])[6:] in inst.rule_fns:
                        tgt.add(last(f["path"])[6:])
            radj[r] = tgt
        # is some rule reachable from itself?
        def reach(r):
            seen, st = set(), list(radj.get(r, ()))
            while st:
                x = st.pop()
                if x in seen:
                    continue
                seen.add(x)
                st.extend(radj.get(x, ()))
            return seen
        rec_rules = sorted(r for r in radj if r in reach(r))
        depth_guard = any("depth" in (n or "").lower() for p in inst.fns for n in (cx.body(inst.crate, p).local_name.values() if "mir" in inst.fns[p] else ()))
        if rec_rules and not depth_guard:
            chk.violation("C15.rec", "front-end recursion depth",
                          "the bootstrapped front end is a recursive descent parser whose rules %s recurse once per nesting level of the grammar "
                          "text with no depth bound (and the generator recurses over the resulting tree): deeply nested grammar text (e.g. 200000 "
                          "parentheses) overflows the stack and aborts the process" % rec_rules[:6])
        else:
            chk.ok("C15.rec", "front end", {"recursive_rules": rec_rules, "depth_guard": depth_guard})


def run(cx, chk):
    chk.explanation = (
        "Totality and failure visibility of the compiler decided structurally: (exit) must-pass-through of a non-zero exit on the "
        "Err edge of the tools' entry points, no fallible call result ignored; (restrict) each of the 12 documented restrictions "
        "has an error return control-dependent on its defining facts; (cached) the three sites that decide 'this rule is cached' "
        "read the same flag set; (panic) every panic-capable construct reachable from the compiler's entry points is discharged by "
        "a reasoned entry; (ident) taint from grammar strings to the panicking identifier constructors; (rec) recursive components "
        "of the call graph that pass through a by-name lookup need a cycle guard. Genuine defects recorded in known_findings.json.")
    chk.assumptions = ["termination beyond the absence of unguarded by-name recursion is not decided ('never hangs')"]
    check_exit(cx, chk)
    check_restrict(cx, chk)
    check_must_reject(cx, chk)
    check_cached(cx, chk)
    check_panic(cx, chk)
    check_prepass(cx, chk)
    check_ident(cx, chk)
    check_rec(cx, chk)
