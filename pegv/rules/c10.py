"""C10 — a failed parse reports a real, furthest failure offset.

fold     : no error value is dropped: on every path every ParseResult / ParseError
           value is returned, `?`-propagated, or folded into the surviving state by
           record_error.  Allowed drops are role-based (negative lookahead, @char
           class alternatives, the left-recursion loop arms).
max      : record_error keeps the error with the larger-or-equal position (decided
           over the orderings of two positions + the None case); report_error and
           report_farthest_error build errors at the state's own offset.
choice   : ChoiceHelper folds every failed alternative into its state.
at       : every failure of a terminal matcher is reported on the unadvanced entry state.
sentinel : an exit of a @leftrec wrapper cannot return the seed sentinel.
"""
import re

from .. import mir
from .. import sem
from ..mir import short, last, strip, walk, norm, is_call, mk
from . import common, memo, c04, semspec

LEVEL = "other"

RES_TY = re.compile(r"^std::result::Result<(\w+::)*ParseOk<.*>, (\w+::)*ParseError>$")
ERR_TY = re.compile(r"^(\w+::)*ParseError$")

PASS_THROUGH = ("and_then", "or_else", "map", "map_inner", "discard_result")


def is_res(ty):
    return bool(RES_TY.match(ty))


def is_err(ty):
    return bool(ERR_TY.match(ty))


def uses_of(b, l):
    """(bb, where, ctx) for each operand use of local l.  where: 'stmt'/'term'."""
    out = []
    for i in sorted(b.reach):
        blk = b.blocks[i]
        for si, st in enumerate(blk["stmts"]):
            if st["k"] != "assign":
                continue
            rv = st["rv"]
            ops = []
            for key in ("op", "a", "b"):
                o = rv.get(key)
                if isinstance(o, dict) and "place" in o:
                    ops.append(o)
            for o in rv.get("ops", []):
                if "place" in o:
                    ops.append(o)
            for o in ops:
                if o["place"]["l"] == l:
                    out.append((i, "stmt", {"st": st, "op": o, "rv": rv}))
            if "place" in rv and rv["place"]["l"] == l:
                out.append((i, "stmt", {"st": st, "op": None, "rv": rv}))
        t = blk["term"]
        if t["k"] == "call":
            for ai, a in enumerate(t["args"]):
                if "place" in a and a["place"]["l"] == l:
                    out.append((i, "call", {"t": t, "arg": ai, "op": a}))
        elif t["k"] == "switch":
            d = t["discr"]
            if "place" in d and d["place"]["l"] == l:
                out.append((i, "switch", {"t": t}))
    return out


class Fold:
    def __init__(self, cx, chk, crate, b, label, roles):
        self.cx, self.chk, self.crate, self.b, self.label, self.roles = cx, chk, crate, b, label, roles
        self.n = 0

    def consuming(self, l, u):
        """Is use u of local l a proper consumption of the (error inside the) value?"""
        i, where, c = u
        b = self.b
        if where == "call":
            f = c["t"]["func"]
            if f.get("indirect"):
                return False
            nm = last(f["path"])
            if c["op"]["place"]["p"]:
                # a projection of the value is passed on
                pl = c["op"]["place"]["p"]
                return False
            if nm in PASS_THROUGH and c["arg"] == 0:
                return True
            if nm == "branch" and "Try" in f["path"]:
                return True
            if nm == "from_residual":
                return True
            if nm == "record_error" and c["arg"] == 1:
                return True
            if nm == "insert" and "HashMap" in f["path"]:
                return True
            if nm in ("call_once", "call_mut", "call"):
                return False
            return False
        if where == "stmt":
            rv, op = c["rv"], c["op"]
            if op is None:
                return False
            if op["place"]["p"]:
                return False
            if op["k"] != "move" and not (op["k"] == "copy"):
                return False
            if rv["k"] == "use":
                return True   # moved to another local (tracked on its own) or to _0
            if rv["k"] == "agg":
                if rv.get("agg") == "adt" and rv["variant"] in ("Err", "Ok", "Some") and (rv["adt"].endswith("Result") or rv["adt"].endswith("Option")):
                    return True
                if rv.get("agg") == "tuple" and "leftrec" in self.roles:
                    return True
                if rv.get("agg") == "adt" and rv["adt"].endswith("ParseOk"):
                    return True
            return False
        return False

    def check_local(self, l, start_bb, kind):
        b = self.b
        us = uses_of(b, l)
        cons_blocks = set()
        match_blocks = []
        for u in us:
            if self.consuming(l, u):
                cons_blocks.add(u[0])
        # `match`: discr(R) statements
        discr_blocks = [i for (i, where, c) in us if where == "stmt" and c["rv"]["k"] == "discr" and not c["rv"]["place"]["p"]]
        payload_blocks = {i for (i, where, c) in us if where == "stmt" and c["op"] is not None and c["op"]["place"]["p"]
                          and c["op"]["place"]["p"][0]["k"] == "downcast" and c["op"]["place"]["p"][0]["variant"] == "Err"
                          and c["op"]["k"] == "move"}
        ok_payload_blocks = {i for (i, where, c) in us if where == "stmt" and c["op"] is not None and c["op"]["place"]["p"]
                             and c["op"]["place"]["p"][0]["k"] == "downcast" and c["op"]["place"]["p"][0]["variant"] in ("Ok", "Continue")}
        tag = "%s %s _%d:%s" % (self.label, short(b.path), l, kind)
        self.n += 1
        if kind == "err":
            good, path = b.must_pass(start_bb, lambda i: i in cons_blocks)
            if good:
                return True
            if not self._allowed_drop(l, None):
                self.chk.violation("C10.fold", "%s %s error-dropped" % (self.label, self._fnkey()),
                                   "an error value (_%d) can reach the end of %s without being returned or folded into the "
                                   "surviving state by record_error: its position is lost from the furthest-failure bookkeeping"
                                   % (l, short(b.path)), self.cx.site(b, path[-1] if path else start_bb),
                                   {"path": " -> ".join("bb%d" % x for x in (path or []))})
            return False
        # kind == "res"
        # every path must either consume the value whole, or match on it with the Err payload extracted
        def sat(i):
            return i in cons_blocks
        # handle matches: for each discr block find the switch and its Err edge
        handled_err_edges = {}
        for db in discr_blocks:
            # find the switch using that discriminant (same block or successor chain)
            sw = None
            x = db
            for _ in range(4):
                if b.blocks[x]["term"]["k"] == "switch":
                    sw = x
                    break
                ss = b.succs(x)
                if len(ss) != 1:
                    break
                x = ss[0]
            if sw is None or b.is_noise_switch(sw):
                continue
            t = b.blocks[sw]["term"]
            # Which edge is Err?  Result: Ok=0, Err=1
            vals = dict((v, bb) for v, bb in t["targets"])
            if 1 in vals:
                err_t = vals[1]
            elif 0 in vals:
                err_t = t["otherwise"]
            else:
                continue
            # is this a post-move drop-elaboration switch?  (discr read after payload moves)
            if any(b.dominates(pb, db) for pb in (payload_blocks | ok_payload_blocks)):
                continue
            moved = payload_blocks | ok_payload_blocks
            if moved and db not in b.reachable_from(start_bb, avoid=list(moved)) and db not in moved:
                continue     # every path to this re-read has already moved a payload out (join of the match arms)
            handled_err_edges[sw] = err_t
        if handled_err_edges:
            allgood = True
            for sw, err_t in handled_err_edges.items():
                good, path = b.must_pass(err_t, lambda i: i in payload_blocks)
                if not good and not self._allowed_drop(l, sw):
                    allgood = False
                    self.chk.violation("C10.fold", "%s %s Err-arm-drops-error" % (self.label, self._fnkey()),
                                       "the Err arm of a match on a parse result in %s does not use the error (`Err(_)` / `if let Ok`): "
                                       "the failure position is dropped instead of being folded with record_error"
                                       % short(b.path), self.cx.site(b, sw),
                                       {"path": " -> ".join("bb%d" % x for x in (path or []))})
            return allgood
        good, path = b.must_pass(start_bb, sat)
        if good:
            return True
        if self._allowed_drop(l, None):
            return True
        self.chk.violation("C10.fold", "%s %s result-discarded" % (self.label, self._fnkey()),
                           "a parse result (_%d) in %s is neither returned, propagated, matched nor handed to a known combinator "
                           "on some path (e.g. `.ok()`, `let _ =`, `is_ok()`): its error is lost" % (l, short(b.path)),
                           self.cx.site(b, path[-1] if path else start_bb),
                           {"path": " -> ".join("bb%d" % x for x in (path or [])), "uses": [(u[0], u[1]) for u in us]})
        return False

    def _fnkey(self):
        p = self.b.path
        return re.sub(r"\d+", "N", short(p)) if "peginator_generated" in p else short(p)

    def _allowed_drop(self, l, sw):
        b = self.b
        if "neg_lookahead" in self.roles or "char_class" in self.roles:
            # the dropped value must be the result of an attempt on a clone of the entry state
            d = b.single_def(l)
            if d and d[2] == "call":
                a0 = norm(b.expr_op(d[3]["args"][0])) if d[3]["args"] else None
                if a0 is not None and (is_call(a0, "clone") and a0[2][0] == ("param", 1)):
                    return True
            return False
        if "leftrec" in self.roles:
            return True
        return False


def roles_of(cx, crate, b, leftrec_paths):
    roles = set()
    for i in b.reach:
        for st in b.blocks[i]["stmts"]:
            if st["k"] == "assign" and st["rv"]["k"] == "agg" and st["rv"].get("agg") == "adt":
                v = st["rv"]["variant"]
                if v == "NegativeLookaheadFailed":
                    roles.add("neg_lookahead")
                if v == "ExpectedCharacterClass":
                    roles.add("char_class")
    if any(b.path == lp or b.path.startswith(lp + "::") for lp in leftrec_paths):
        roles.add("leftrec")
    return roles


def check_fold_body(cx, chk, crate, b, label, leftrec_paths):
    roles = roles_of(cx, crate, b, leftrec_paths)
    F = Fold(cx, chk, crate, b, label, roles)
    okc = 0
    for l in range(1, len(b.locals)):
        ty = b.ty(l)
        if not (is_res(ty) or is_err(ty)):
            continue
        kind = "res" if is_res(ty) else "err"
        if l <= b.arg_count:
            starts = [0]
        else:
            starts = []
            for d in b.defs.get(l, []):
                if d[2] == "call":
                    if d[3]["target"] is not None:
                        starts.append(d[3]["target"])
                else:
                    # assignment by statement: check from the same block
                    starts.append(d[0])
        if b.is_closure and l == 1:
            continue
        for s in starts:
            # aliases created by plain moves are tracked as their own locals; a `move` use counts as consumption
            if F.check_local(l, s, kind):
                okc += 1
    return F.n, okc


def check_fold(cx, chk):
    from . import wrapsem
    leftrec_paths = {w.path for w in wrapsem.cached(cx) if w.ok and w.leftrec}
    total = 0
    for inst in cx.instances():
        n_inst = 0
        for p, f in sorted(inst.fns.items()):
            if "mir" not in f:
                continue
            b = cx.body(inst.crate, p)
            n, okc = check_fold_body(cx, chk, inst.crate, b, inst.name, leftrec_paths)
            n_inst += n
        total += n_inst
        chk.ok("C10.fold", inst.name, {"instance": inst.name, "error_bearing_values_tracked": n_inst})
    chk.floor("C10.fold", "error-bearing values tracked in generated code", total, 1500)
    # runtime helpers
    rt = cx.runtime
    nrt = 0
    for p in c04.runtime_reachable(cx, rt):
        if "Tracer" in p or "fmt::" in p:
            continue
        if last(p) in ("record_error", "report_farthest_error", "report_error"):
            continue   # the fold primitives themselves: decided by C10.max
        b = cx.body(rt, p)
        n, okc = check_fold_body(cx, chk, rt, b, "runtime", set())
        nrt += n
    chk.ok("C10.fold", "runtime", {"error_bearing_values_tracked": nrt})


def ret_expr(cx, crate, suffix):
    ps = [p for p in crate.fns if mir.strip_generics(p).endswith(suffix)]
    if not ps:
        return None, None
    b = cx.body(crate, ps[0])
    return b, ps[0]


def _all_return(chk, cx, rule, name, sm, b):
    bad = [l for l in sm.leaves if l.kind != "return"]
    if bad:
        chk.violation(rule, "%s %s-path" % (name, bad[0].kind), "%s has a path that ends in a %s instead of returning: %s"
                      % (name, bad[0].kind, bad[0].show()[:300]), cx.site(b))
        return False
    return True


def check_max(cx, chk):
    """record_error / report_error / report_farthest_error decided from their semantic summaries (sem.py):
    every leaf of the decision tree is classified by the cases {no previous error, old<new, old=new, old>new}
    and its returned state is compared field by field with the specification."""
    rt = cx.runtime
    P1, P2 = mk("param", 1), mk("param", 2)
    OLD = mk("field", P1, "farthest_error")
    OLDV = mk("field", mk("downcast", OLD, "Some"), "0")
    oldpos = mk("field", OLDV, "position")
    names = semspec.adt_fields(rt, "state::ParseState")
    if not names or "farthest_error" not in names:
        chk.anchor_missing("C10.max", "struct ParseState with a farthest_error field")
        return
    want = {"none": {"new"}, "old<new": {"new"}, "old=new": {"new"}, "old>new": {"old"}}

    def decide(sm, S, newpos, classify):
        """decision table {case: set of outcomes}, problems"""
        decided = {k: set() for k in want}
        problems = []
        for leaf in sm.leaves:
            if leaf.kind != "return":
                continue
            cases = []
            dc = semspec.discr_case(leaf, OLD)
            if dc in (None, 0):
                cases.append("none")
            if dc in (None, 1):
                for (nm, env) in semspec.order_models(oldpos, newpos):
                    okm = True
                    for (a, v) in leaf.assume:
                        if a == mk("discr", OLD):
                            continue
                        r = semspec.eval_cmp(a, env)
                        if r is None:
                            if ("depends", a) not in problems:
                                problems.append(("depends", a))
                            continue
                        if r != v:
                            okm = False
                            break
                    if okm:
                        cases.append("old%snew" % nm)
            out = classify(leaf, semspec.Eta(S, leaf))
            for c in cases:
                decided[c].add(out)
        return decided, problems

    # ---- record_error
    p = semspec.find_fn(rt, "ParseState::record_error")
    if p is None:
        chk.anchor_missing("C10.max", "ParseState::record_error")
    else:
        b = cx.body(rt, p)
        S = sem.Sem(cx, rt)
        try:
            sm = S.summarize(p)
        except sem.SemLimit as ex:
            sm = None
            chk.violation("C10.max", "record_error unsummarised", "record_error could not be summarised: %s" % ex, cx.site(b))
        if sm is not None and _all_return(chk, cx, "C10.max", "record_error", sm, b):
            def classify(leaf, eta):
                fs = semspec.fields(leaf.ret, names)
                for n in names:
                    if n != "farthest_error" and fs[n] != mk("field", P1, n):
                        return "changes %s" % n
                fe = fs["farthest_error"]
                if eta.same(fe, sem.some(P2)):
                    return "new"
                if eta.same(fe, OLD):
                    return "old"
                return "stores %s" % mir.show(fe)[:80]
            decided, problems = decide(sm, S, mk("field", P2, "position"), classify)
            if decided == want and not problems:
                chk.ok("C10.max", "record_error", {"decision_table": {k: sorted(v) for k, v in decided.items()}, "leaves": len(sm.leaves)})
            else:
                chk.violation("C10.max", "record_error", "record_error does not keep the error with the larger-or-equal position: "
                              "decided %s, expected %s; %s" % ({k: sorted(v) for k, v in decided.items()}, {k: sorted(v) for k, v in want.items()},
                                                               [mir.show(a)[:80] for (_, a) in problems]), cx.site(b))
    # ---- report_error: (inlined through record_error / report_farthest_error) returns the error at the state's own offset unless
    #      a strictly farther one is recorded
    p = semspec.find_fn(rt, "ParseState::report_error")
    if p is None:
        chk.anchor_missing("C10.max", "ParseState::report_error")
    else:
        b = cx.body(rt, p)
        S = sem.Sem(cx, rt, inline=lambda q: last(q) in ("record_error", "report_farthest_error"))
        try:
            sm = S.summarize(p)
        except sem.SemLimit as ex:
            sm = None
            chk.violation("C10.max", "report_error unsummarised", "report_error could not be summarised: %s" % ex, cx.site(b))
        if sm is not None and _all_return(chk, cx, "C10.max", "report_error", sm, b):
            here = mk("field", P1, "start_index")

            def classify(leaf, eta):
                r = leaf.ret
                if r[0] == "agg" and r[1].endswith("ParseError"):
                    d = dict(r[3])
                    if d.get("position") == here and d.get("specifics") == P2:
                        return "new"
                    return "builds %s" % mir.show(r)[:80]
                if eta.same(r, OLDV):
                    return "old"
                return "returns %s" % mir.show(r)[:80]
            decided, problems = decide(sm, S, here, classify)
            if decided == want and not problems:
                chk.ok("C10.max", "report_error", {"decision_table": {k: sorted(v) for k, v in decided.items()}, "leaves": len(sm.leaves)})
            else:
                chk.violation("C10.max", "report_error", "report_error does not return the error {position: self.start_index, specifics} unless a strictly "
                              "farther one is recorded: decided %s; %s" % ({k: sorted(v) for k, v in decided.items()}, [mir.show(a)[:80] for (_, a) in problems]), cx.site(b))
    # ---- report_farthest_error
    p = semspec.find_fn(rt, "ParseState::report_farthest_error")
    if p is None:
        chk.anchor_missing("C10.max", "ParseState::report_farthest_error")
    else:
        b = cx.body(rt, p)
        S = sem.Sem(cx, rt)
        try:
            sm = S.summarize(p)
        except sem.SemLimit as ex:
            sm = None
            chk.violation("C10.max", "report_farthest_error unsummarised", str(ex), cx.site(b))
        if sm is not None and _all_return(chk, cx, "C10.max", "report_farthest_error", sm, b):
            probs = []
            for leaf in sm.leaves:
                dc = semspec.discr_case(leaf, OLD)
                eta = semspec.Eta(S, leaf)
                r = leaf.ret
                is_here = r[0] == "agg" and r[1].endswith("ParseError") and dict(r[3]).get("position") == mk("field", P1, "start_index")
                is_old = eta.same(r, OLDV)
                if dc == 1 and not is_old:
                    probs.append("with a recorded error it returns %s" % mir.show(r)[:100])
                if dc == 0 and not is_here:
                    probs.append("without a recorded error it returns %s" % mir.show(r)[:100])
                if dc is None:
                    probs.append("does not look at the recorded error: %s" % mir.show(r)[:100])
            if not probs:
                chk.ok("C10.max", "report_farthest_error", {"leaves": len(sm.leaves), "table": "Some(e) -> e ; None -> error at self.start_index"})
            else:
                chk.violation("C10.max", "report_farthest_error", "report_farthest_error is not {Some(e) => e, None => error at self.start_index}: %s" % sorted(set(probs)), cx.site(b))


def check_choice(cx, chk):
    """ChoiceHelper decided from its semantic summary: a leaf per case (already matched / alternative succeeds / alternative fails)."""
    rt = cx.runtime
    P1, P2 = mk("param", 1), mk("param", 2)
    RES, STATE = mk("field", P1, "result"), mk("field", P1, "state")
    p = semspec.find_fn(rt, "ChoiceHelper::choice")
    if p is None:
        chk.anchor_missing("C10.choice", "ChoiceHelper::choice")
        return
    b = cx.body(rt, p)
    S = sem.Sem(cx, rt)
    try:
        sm = S.summarize(p)
    except sem.SemLimit as ex:
        chk.violation("C10.choice", "ChoiceHelper::choice unsummarised", str(ex), cx.site(b))
        return
    problems = []
    if _all_return(chk, cx, "C10.choice", "ChoiceHelper::choice", sm, b):
        for leaf in sm.leaves:
            eta = semspec.Eta(S, leaf)
            fs = semspec.fields(leaf.ret, ["state", "result"])
            arms = [ev for ev in leaf.trace if ev[0][0] == "icall" and ev[0][1] == P2]
            dc = semspec.discr_case(leaf, RES)
            if dc == 1:
                if arms:
                    problems.append("the alternative is not guarded by `self.result.is_none()` (first success must win)")
                if not (eta.same(fs["result"], RES) and fs["state"] == STATE):
                    problems.append("an already matched helper is changed: %s" % mir.show(leaf.ret)[:120])
                continue
            if dc is None and arms:
                problems.append("the alternative is not guarded by `self.result.is_none()` (first success must win)")
            if len(arms) != 1:
                problems.append("expected exactly one call of the alternative, found %d" % len(arms))
                continue
            call = arms[0][0]
            if tuple(call[2]) != (STATE,):
                problems.append("the alternative is not started from a clone of the helper's entry state: %s" % mir.show(call)[:120])
            rc = semspec.discr_case(leaf, call)
            if rc == 0:
                if not eta.same(fs["result"], sem.some(mk("field", mk("downcast", call, "Ok"), "0"))) or fs["state"] != STATE:
                    problems.append("a successful alternative is not stored unchanged: %s" % mir.show(leaf.ret)[:160])
            elif rc == 1:
                e = mk("field", mk("downcast", call, "Err"), "0")
                st = fs["state"]
                if not (is_call(st, "record_error") and tuple(st[2]) == (STATE, e)):
                    problems.append("a failed alternative's error is not folded into the helper state with record_error: %s" % mir.show(st)[:160])
                if not eta.same(fs["result"], RES):
                    problems.append("a failed alternative changes the stored result: %s" % mir.show(fs["result"])[:100])
            else:
                problems.append("the outcome of the alternative is not examined: %s" % leaf.show()[:160])
        if problems:
            for pr in sorted(set(problems)):
                chk.violation("C10.choice", "ChoiceHelper::choice " + pr.split(":")[0][:70], pr, cx.site(b))
        else:
            chk.ok("C10.choice", "ChoiceHelper::choice", {"leaves": len(sm.leaves), "table": "Some -> unchanged; None & Ok(r) -> result=Some(r); None & Err(e) -> state=record_error(state,e)"})
    p = semspec.find_fn(rt, "ChoiceHelper::end")
    if p is None:
        chk.anchor_missing("C10.choice", "ChoiceHelper::end")
        return
    b = cx.body(rt, p)
    try:
        sm = S.summarize(p)
    except sem.SemLimit as ex:
        chk.violation("C10.choice", "ChoiceHelper::end unsummarised", str(ex), cx.site(b))
        return
    if _all_return(chk, cx, "C10.choice", "ChoiceHelper::end", sm, b):
        probs = []
        for leaf in sm.leaves:
            eta = semspec.Eta(S, leaf)
            dc = semspec.discr_case(leaf, RES)
            r = leaf.ret
            if dc == 1:
                if not eta.same(r, sem.ok(mk("field", mk("downcast", RES, "Some"), "0"))):
                    probs.append("Some(ok) gives %s" % mir.show(r)[:100])
            elif dc == 0:
                good = r[0] == "agg" and r[2] == "Err" and is_call(r[3][0][1], "report_farthest_error") and tuple(r[3][0][1][2]) == (STATE,)
                if not good:
                    probs.append("None gives %s" % mir.show(r)[:100])
            else:
                probs.append("result not examined: %s" % mir.show(r)[:100])
        if not probs:
            chk.ok("C10.choice", "ChoiceHelper::end", {"leaves": len(sm.leaves), "table": "Some(ok) -> Ok(ok); None -> Err(state.report_farthest_error())"})
        else:
            chk.violation("C10.choice", "ChoiceHelper::end", "end() is not {Some(ok) => Ok(ok), None => Err(state.report_farthest_error())}: %s" % sorted(set(probs)), cx.site(b))


def check_at(cx, chk):
    """Every failing path of a terminal matcher returns an error positioned at the offset of the attempt - the entry state's
    start_index - or the entry state's recorded farther failure; read off the semantic summary (closures, helpers and
    report_error itself inlined), so it does not matter through which local or helper the entry state reaches report_error."""
    from .. import sem
    from . import c11sem
    rt = cx.runtime
    S = sem.Sem(cx, rt, inline=lambda p: p in rt.fns and "mir" in rt.fns[p] and not rt.fns[p].get("unsafe") and "{closure" not in p, max_leaves=2000)
    P1 = mir.mk("param", 1)
    START = mir.mk("field", P1, "start_index")
    FAR = mir.mk("field", mir.mk("downcast", mir.mk("field", P1, "farthest_error"), "Some"), "0")
    n = 0
    for p, f in sorted(rt.fns.items()):
        if "mir" not in f or "builtin_parsers" not in p or "{closure" in p or f.get("kind") != "Fn":
            continue
        if "ParseState" not in (f.get("inputs") or [""])[0] if f.get("inputs") else False:
            continue
        b = cx.body(rt, p)
        try:
            sm = S.summarize(p)
        except sem.SemLimit as ex:
            chk.violation("C10.at", "%s unsummarised" % short(p), "terminal matcher could not be summarised: %s" % ex, cx.site(b))
            continue
        if sm is None:
            continue
        tag = "%s report_error" % short(p)
        bad = None
        errs = 0
        for l in list(sm.returns) + list(sm.loopbacks):
            r = l.ret
            if r is None or r[0] != "agg" or r[2] != "Err":
                continue
            errs += 1
            e = sem.get_field(r, "0")
            if e == FAR:
                continue
            pos = sem.get_field(e, "position") if e[0] == "agg" else None
            if pos is not None and (pos == START or c11sem.lin(pos) == {START: 1}):
                continue
            bad = e
        if not errs:
            continue
        n += errs
        if bad is None:
            chk.ok("C10.at", tag, {"fn": short(p), "failing_paths": errs, "reported_at": "entry state's start_index (or its recorded farther failure)"})
        else:
            chk.violation("C10.at", tag, "a terminal matcher fails with the error %s: its position is not the offset of the attempt (the entry state's "
                          "start_index), nor the entry state's recorded farther failure" % mir.show(bad)[:160], cx.site(b))
    chk.floor("C10.at", "terminal failure reports", n, 6)


def check_sentinel(cx, chk):
    from . import wrapsem
    n = 0
    for w in wrapsem.cached(cx):
        if not w.ok or not w.leftrec:
            continue
        n += 1
        mine = [v for v in w.viol if v[0] in ("sentinel",) or (v[0] == "exit" and v[1] in ("update-without-store", "stored-not-best"))]
        for (rid, detail, msg, site) in mine:
            chk.violation("C10.sentinel", ("%s %s" % (w.tag, detail)).strip(), msg + (" (a later cache hit then reports the seed sentinel or a stale failure)" if rid == "exit" else ""), site)
        if not mine:
            chk.ok("C10.sentinel", w.tag, {"wrapper": w.tag, "exit_paths_checked": True})
    chk.floor("C10.sentinel", "leftrec wrappers", n, 2)


def check_look(cx, chk):
    """Lookaheads consume nothing and a *succeeding* lookahead contributes nothing to the
    furthest-failure bookkeeping: its Ok carries exactly the entry state."""
    n = 0
    for inst in cx.instances():
        for p, f in sorted(inst.fns.items()):
            if "mir" not in f or f["kind"] != "Fn":
                continue
            b = cx.body(inst.crate, p)
            inner = [(i, t) for i, t in b.calls() if not t["func"].get("indirect")
                     and re.search(r"::(negative|positive)_lookahead::parse$", mir.strip_generics(t["func"]["path"]))
                     and mir.strip_generics(t["func"]["path"]).rsplit("::", 2)[0] == mir.strip_generics(p).rsplit("::", 1)[0]]
            neg_role = any(st["rv"].get("variant") == "NegativeLookaheadFailed" for i in b.reach for st in b.blocks[i]["stmts"]
                           if st["k"] == "assign" and st["rv"]["k"] == "agg")
            if not inner and not neg_role:
                continue
            n += 1
            rest = p[len(inst.prefix) + 2:]
            tag = "%s/%s" % (inst.name, re.sub(r"\d+", "N", rest))
            kind = "negative" if neg_role else "positive"
            probs = []
            for d in b.defs.get(0, []):
                if d[2] != "rv":
                    continue
                e = norm(b.expr_rv(d[3]))
                if e[0] == "agg" and e[2] == "Ok":
                    po = e[3][0][1]
                    st = dict(po[3]).get("state") if po[0] == "agg" else None
                    if st != ("param", 1):
                        probs.append("a succeeding %s lookahead returns %s instead of the untouched entry state (it must consume nothing "
                                     "and attempts inside it must not enter the furthest-failure bookkeeping)" % (kind, mir.show(st) if st else mir.show(po)))
                if e[0] == "agg" and e[2] == "Err" and neg_role:
                    pe = e[3][0][1]
                    if not (is_call(pe, "report_error") and pe[2][0] == ("param", 1)):
                        probs.append("a failing negative lookahead does not report on the entry state: %s" % mir.show(pe))
            for (i, t) in inner:
                a0 = norm(b.expr_op(t["args"][0]))
                if not (is_call(a0, "clone") and a0[2][0] == ("param", 1)):
                    probs.append("the lookahead body is not started from a clone of the entry state: %s" % mir.show(a0))
            if probs:
                for pr in probs:
                    chk.violation("C10.look", "%s %s" % (tag, pr.split(" returns ")[0][:50]), pr, cx.site(b))
            else:
                chk.ok("C10.look", "%s/%s" % (inst.name, rest), {"fn": "%s/%s" % (inst.name, rest), "kind": kind, "ok_state": "entry state"})
    chk.floor("C10.look", "lookahead functions", n, 8)


def run(cx, chk):
    chk.explanation = (
        "Error discipline decided on every path of every generated function and runtime helper: each ParseResult / ParseError "
        "value is returned, `?`-propagated, handed to a modelled combinator, or folded into the surviving state by record_error; "
        "drops are allowed only by role (negative lookahead, @char alternatives tried at the same offset, left-recursion arms). "
        "record_error is decided (4 cases) to keep the larger-or-equal position; report_error / report_farthest_error build "
        "errors at the state's own offset; ChoiceHelper folds every failed alternative; terminal matchers report on the "
        "unadvanced entry state; @leftrec exits cannot return the seed sentinel. The concrete furthest offset for a given "
        "input is the composition of these clauses and is not computed.")
    chk.assumptions = ["positions are char boundaries by C04", "state threading (which state survives) is C01's subject"]
    check_fold(cx, chk)
    check_max(cx, chk)
    check_choice(cx, chk)
    check_at(cx, chk)
    check_sentinel(cx, chk)
    check_look(cx, chk)
