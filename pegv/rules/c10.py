"""C10 — a failed parse reports a real, furthest failure offset.

fold     : no error value is dropped: on every path every ParseResult / ParseError
           value is returned, `?`-propagated, or folded into the surviving state by
           record_error.  Allowed drops are role-based (negative lookahead, @char
           class alternatives, the left-recursion loop arms).
max      : record_error keeps the error with the larger-or-equal position (decided
           over the orderings of two positions + the None case); report_error and
           report_farthest_error build errors at the state's own offset.
choice   : ChoiceHelper folds every failed alternative into its state.
at       : every failure of a terminal matcher is reported on the unadvanced entry state.
sentinel : an exit of a @leftrec wrapper cannot return the seed sentinel.
"""
import re

from .. import mir
from ..mir import short, last, strip, walk, norm, is_call
from . import common, memo, c04

LEVEL = "other"

RES_TY = re.compile(r"^std::result::Result<(\w+::)*ParseOk<.*>, (\w+::)*ParseError>$")
ERR_TY = re.compile(r"^(\w+::)*ParseError$")

PASS_THROUGH = ("and_then", "or_else", "map", "map_inner", "discard_result")


def is_res(ty):
    return bool(RES_TY.match(ty))


def is_err(ty):
    return bool(ERR_TY.match(ty))


def uses_of(b, l):
    """(bb, where, ctx) for each operand use of local l.  where: 'stmt'/'term'."""
    out = []
    for i in sorted(b.reach):
        blk = b.blocks[i]
        for si, st in enumerate(blk["stmts"]):
            if st["k"] != "assign":
                continue
            rv = st["rv"]
            ops = []
            for key in ("op", "a", "b"):
                o = rv.get(key)
                if isinstance(o, dict) and "place" in o:
                    ops.append(o)
            for o in rv.get("ops", []):
                if "place" in o:
                    ops.append(o)
            for o in ops:
                if o["place"]["l"] == l:
                    out.append((i, "stmt", {"st": st, "op": o, "rv": rv}))
            if "place" in rv and rv["place"]["l"] == l:
                out.append((i, "stmt", {"st": st, "op": None, "rv": rv}))
        t = blk["term"]
        if t["k"] == "call":
            for ai, a in enumerate(t["args"]):
                if "place" in a and a["place"]["l"] == l:
                    out.append((i, "call", {"t": t, "arg": ai, "op": a}))
        elif t["k"] == "switch":
            d = t["discr"]
            if "place" in d and d["place"]["l"] == l:
                out.append((i, "switch", {"t": t}))
    return out


class Fold:
    def __init__(self, cx, chk, crate, b, label, roles):
        self.cx, self.chk, self.crate, self.b, self.label, self.roles = cx, chk, crate, b, label, roles
        self.n = 0

    def consuming(self, l, u):
        """Is use u of local l a proper consumption of the (error inside the) value?"""
        i, where, c = u
        b = self.b
        if where == "call":
            f = c["t"]["func"]
            if f.get("indirect"):
                return False
            nm = last(f["path"])
            if c["op"]["place"]["p"]:
                # a projection of the value is passed on
                pl = c["op"]["place"]["p"]
                return False
            if nm in PASS_THROUGH and c["arg"] == 0:
                return True
            if nm == "branch" and "Try" in f["path"]:
                return True
            if nm == "from_residual":
                return True
            if nm == "record_error" and c["arg"] == 1:
                return True
            if nm == "insert" and "HashMap" in f["path"]:
                return True
            if nm in ("call_once", "call_mut", "call"):
                return False
            return False
        if where == "stmt":
            rv, op = c["rv"], c["op"]
            if op is None:
                return False
            if op["place"]["p"]:
                return False
            if op["k"] != "move" and not (op["k"] == "copy"):
                return False
            if rv["k"] == "use":
                return True   # moved to another local (tracked on its own) or to _0
            if rv["k"] == "agg":
                if rv.get("agg") == "adt" and rv["variant"] in ("Err", "Ok", "Some") and (rv["adt"].endswith("Result") or rv["adt"].endswith("Option")):
                    return True
                if rv.get("agg") == "tuple" and "leftrec" in self.roles:
                    return True
                if rv.get("agg") == "adt" and rv["adt"].endswith("ParseOk"):
                    return True
            return False
        return False

    def check_local(self, l, start_bb, kind):
        b = self.b
        us = uses_of(b, l)
        cons_blocks = set()
        match_blocks = []
        for u in us:
            if self.consuming(l, u):
                cons_blocks.add(u[0])
        # `match`: discr(R) statements
        discr_blocks = [i for (i, where, c) in us if where == "stmt" and c["rv"]["k"] == "discr" and not c["rv"]["place"]["p"]]
        payload_blocks = {i for (i, where, c) in us if where == "stmt" and c["op"] is not None and c["op"]["place"]["p"]
                          and c["op"]["place"]["p"][0]["k"] == "downcast" and c["op"]["place"]["p"][0]["variant"] == "Err"
                          and c["op"]["k"] == "move"}
        ok_payload_blocks = {i for (i, where, c) in us if where == "stmt" and c["op"] is not None and c["op"]["place"]["p"]
                             and c["op"]["place"]["p"][0]["k"] == "downcast" and c["op"]["place"]["p"][0]["variant"] in ("Ok", "Continue")}
        tag = "%s %s _%d:%s" % (self.label, short(b.path), l, kind)
        self.n += 1
        if kind == "err":
            good, path = b.must_pass(start_bb, lambda i: i in cons_blocks)
            if good:
                return True
            if not self._allowed_drop(l, None):
                self.chk.violation("C10.fold", "%s %s error-dropped" % (self.label, self._fnkey()),
                                   "an error value (_%d) can reach the end of %s without being returned or folded into the "
                                   "surviving state by record_error: its position is lost from the furthest-failure bookkeeping"
                                   % (l, short(b.path)), self.cx.site(b, path[-1] if path else start_bb),
                                   {"path": " -> ".join("bb%d" % x for x in (path or []))})
            return False
        # kind == "res"
        # every path must either consume the value whole, or match on it with the Err payload extracted
        def sat(i):
            return i in cons_blocks
        # handle matches: for each discr block find the switch and its Err edge
        handled_err_edges = {}
        for db in discr_blocks:
            # find the switch using that discriminant (same block or successor chain)
            sw = None
            x = db
            for _ in range(4):
                if b.blocks[x]["term"]["k"] == "switch":
                    sw = x
                    break
                ss = b.succs(x)
                if len(ss) != 1:
                    break
                x = ss[0]
            if sw is None or b.is_noise_switch(sw):
                continue
            t = b.blocks[sw]["term"]
            # Which edge is Err?  Result: Ok=0, Err=1
            vals = dict((v, bb) for v, bb in t["targets"])
            if 1 in vals:
                err_t = vals[1]
            elif 0 in vals:
                err_t = t["otherwise"]
            else:
                continue
            # is this a post-move drop-elaboration switch?  (discr read after payload moves)
            if any(b.dominates(pb, db) for pb in (payload_blocks | ok_payload_blocks)):
                continue
            handled_err_edges[sw] = err_t
        if handled_err_edges:
            allgood = True
            for sw, err_t in handled_err_edges.items():
                good, path = b.must_pass(err_t, lambda i: i in payload_blocks)
                if not good and not self._allowed_drop(l, sw):
                    allgood = False
                    self.chk.violation("C10.fold", "%s %s Err-arm-drops-error" % (self.label, self._fnkey()),
                                       "the Err arm of a match on a parse result in %s does not use the error (`Err(_)` / `if let Ok`): "
                                       "the failure position is dropped instead of being folded with record_error"
                                       % short(b.path), self.cx.site(b, sw),
                                       {"path": " -> ".join("bb%d" % x for x in (path or []))})
            return allgood
        good, path = b.must_pass(start_bb, sat)
        if good:
            return True
        if self._allowed_drop(l, None):
            return True
        self.chk.violation("C10.fold", "%s %s result-discarded" % (self.label, self._fnkey()),
                           "a parse result (_%d) in %s is neither returned, propagated, matched nor handed to a known combinator "
                           "on some path (e.g. `.ok()`, `let _ =`, `is_ok()`): its error is lost" % (l, short(b.path)),
                           self.cx.site(b, path[-1] if path else start_bb),
                           {"path": " -> ".join("bb%d" % x for x in (path or [])), "uses": [(u[0], u[1]) for u in us]})
        return False

    def _fnkey(self):
        p = self.b.path
        return re.sub(r"\d+", "N", short(p)) if "peginator_generated" in p else short(p)

    def _allowed_drop(self, l, sw):
        b = self.b
        if "neg_lookahead" in self.roles or "char_class" in self.roles:
            # the dropped value must be the result of an attempt on a clone of the entry state
            d = b.single_def(l)
            if d and d[2] == "call":
                a0 = norm(b.expr_op(d[3]["args"][0])) if d[3]["args"] else None
                if a0 is not None and (is_call(a0, "clone") and a0[2][0] == ("param", 1)):
                    return True
            return False
        if "leftrec" in self.roles:
            return True
        return False


def roles_of(cx, crate, b, leftrec_paths):
    roles = set()
    for i in b.reach:
        for st in b.blocks[i]["stmts"]:
            if st["k"] == "assign" and st["rv"]["k"] == "agg" and st["rv"].get("agg") == "adt":
                v = st["rv"]["variant"]
                if v == "NegativeLookaheadFailed":
                    roles.add("neg_lookahead")
                if v == "ExpectedCharacterClass":
                    roles.add("char_class")
    if b.path in leftrec_paths:
        roles.add("leftrec")
    return roles


def check_fold_body(cx, chk, crate, b, label, leftrec_paths):
    roles = roles_of(cx, crate, b, leftrec_paths)
    F = Fold(cx, chk, crate, b, label, roles)
    okc = 0
    for l in range(1, len(b.locals)):
        ty = b.ty(l)
        if not (is_res(ty) or is_err(ty)):
            continue
        kind = "res" if is_res(ty) else "err"
        if l <= b.arg_count:
            starts = [0]
        else:
            starts = []
            for d in b.defs.get(l, []):
                if d[2] == "call":
                    if d[3]["target"] is not None:
                        starts.append(d[3]["target"])
                else:
                    # assignment by statement: check from the same block
                    starts.append(d[0])
        if b.is_closure and l == 1:
            continue
        for s in starts:
            # aliases created by plain moves are tracked as their own locals; a `move` use counts as consumption
            if F.check_local(l, s, kind):
                okc += 1
    return F.n, okc


def check_fold(cx, chk):
    ws = memo.cached_wrappers(cx)
    leftrec_paths = {w.body.path for w in ws if w.ok and w.leftrec}
    total = 0
    for inst in cx.instances():
        n_inst = 0
        for p, f in sorted(inst.fns.items()):
            if "mir" not in f:
                continue
            b = cx.body(inst.crate, p)
            n, okc = check_fold_body(cx, chk, inst.crate, b, inst.name, leftrec_paths)
            n_inst += n
        total += n_inst
        chk.ok("C10.fold", inst.name, {"instance": inst.name, "error_bearing_values_tracked": n_inst})
    chk.floor("C10.fold", "error-bearing values tracked in generated code", total, 2795)
    # runtime helpers
    rt = cx.runtime
    nrt = 0
    for p in c04.runtime_reachable(cx, rt):
        if "Tracer" in p or "fmt::" in p:
            continue
        if last(p) in ("record_error", "report_farthest_error", "report_error"):
            continue   # the fold primitives themselves: decided by C10.max
        b = cx.body(rt, p)
        n, okc = check_fold_body(cx, chk, rt, b, "runtime", set())
        nrt += n
    chk.ok("C10.fold", "runtime", {"error_bearing_values_tracked": nrt})


def ret_expr(cx, crate, suffix):
    ps = [p for p in crate.fns if mir.strip_generics(p).endswith(suffix)]
    if not ps:
        return None, None
    b = cx.body(crate, ps[0])
    return b, ps[0]


def check_max(cx, chk):
    rt = cx.runtime
    b, p = ret_expr(cx, rt, "ParseState::record_error")
    if b is None:
        chk.anchor_missing("C10.max", "ParseState::record_error")
        return
    # structure: writes to self.farthest_error only; decision on Le(old.position, new.position)
    writes = []
    for i in sorted(b.reach):
        for st in b.blocks[i]["stmts"]:
            if st["k"] != "assign":
                continue
            pl = st["place"]
            if pl["l"] == 1 and pl["p"]:
                writes.append((i, "self." + ".".join(str(pe.get("name")) for pe in pl["p"] if pe["k"] == "field"), norm(b.expr_rv(st["rv"]))))
            elif pl["p"] and pl["p"][0]["k"] == "deref":
                tgt = norm(b.expr_local(pl["l"]))
                writes.append((i, mir.show(tgt), norm(b.expr_rv(st["rv"]))))
    new = ("param", 2)
    decided = {}
    problems = []
    for (i, tgt, val) in writes:
        at = b.atoms(i)
        none_case = any(e[0] == "discr" and v == 0 for (e, v, d) in at)
        some_case = any(e[0] == "discr" and v == 1 for (e, v, d) in at)
        if "farthest_error" not in tgt:
            problems.append("writes %s" % tgt)
            continue
        if none_case:
            if val[0] == "agg" and val[2] == "Some" and val[3][0][1] == new:
                decided["none"] = "new"
            else:
                problems.append("None case stores %s" % mir.show(val))
        elif some_case:
            cmpa = [(e, v) for (e, v, d) in at if e[0] == "binop"]
            if val != new or len(cmpa) != 1:
                problems.append("Some case: unrecognised update %s under %s" % (mir.show(val), [mir.show(e) for e, v in cmpa]))
                continue
            e, v = cmpa[0]
            op = e[1]

            def side(x):
                if x[0] == "field" and x[2] == "position":
                    return "new" if x[1] == new else "old"
                return None
            sa, sb = side(e[2]), side(e[3])
            if {sa, sb} != {"new", "old"}:
                problems.append("comparison is not between the two positions: %s" % mir.show(e))
                continue
            for name, (o, n_) in {"old<new": (0, 1), "old=new": (1, 1), "old>new": (2, 1)}.items():
                l_, r_ = (o, n_) if sa == "old" else (n_, o)
                res = {"Gt": l_ > r_, "Ge": l_ >= r_, "Lt": l_ < r_, "Le": l_ <= r_, "Eq": l_ == r_, "Ne": l_ != r_}[op]
                decided[name] = "new" if res == v else "old"
    want = {"none": "new", "old<new": "new", "old=new": "new", "old>new": "old"}
    rets = [norm(b.expr_rv(d[3])) for d in b.defs.get(0, []) if d[2] == "rv"]
    if rets != [("param", 1)] and rets != [("local", 1)]:
        problems.append("does not return self: %s" % [mir.show(r) for r in rets])
    if decided == want and not problems:
        chk.ok("C10.max", "record_error", {"decision_table": decided})
    else:
        chk.violation("C10.max", "record_error", "record_error does not keep the error with the larger-or-equal position: "
                      "decided %s, expected %s; %s" % (decided, want, problems), cx.site(b))
    # report_error
    b, p = ret_expr(cx, rt, "ParseState::report_error")
    if b is None:
        chk.anchor_missing("C10.max", "ParseState::report_error")
    else:
        ds = b.defs.get(0, [])
        e = norm(b.expr_call(ds[0][3])) if len(ds) == 1 and ds[0][2] == "call" else None
        good = False
        if e is not None and is_call(e, "report_farthest_error") and len(e[2]) == 1 and is_call(e[2][0], "record_error"):
            st, er = e[2][0][2]
            if st == ("param", 1) and er[0] == "agg" and er[1].endswith("ParseError"):
                d = dict(er[3])
                pos = d.get("position")
                if pos == ("field", ("param", 1), "start_index") and d.get("specifics") == ("param", 2):
                    good = True
        if good:
            chk.ok("C10.max", "report_error", {"report_error": mir.show(e)})
        else:
            chk.violation("C10.max", "report_error", "report_error is not report_farthest_error(record_error(self, "
                          "ParseError{position: self.start_index, specifics})): %s" % (mir.show(e) if e else "?"), cx.site(b))
    b, p = ret_expr(cx, rt, "ParseState::report_farthest_error")
    if b is None:
        chk.anchor_missing("C10.max", "ParseState::report_farthest_error")
    else:
        ds = b.defs.get(0, [])
        e = norm(b.expr_call(ds[0][3])) if len(ds) == 1 and ds[0][2] == "call" else None
        good = False
        if e is not None and is_call(e, "unwrap_or") and len(e[2]) == 2:
            src, dfl = e[2]
            if src == ("field", ("param", 1), "farthest_error") and dfl[0] == "agg" and dict(dfl[3]).get("position") == ("field", ("param", 1), "start_index"):
                good = True
        if good:
            chk.ok("C10.max", "report_farthest_error", {"report_farthest_error": mir.show(e)})
        else:
            chk.violation("C10.max", "report_farthest_error", "report_farthest_error is not farthest_error.unwrap_or(error at "
                          "self.start_index): %s" % (mir.show(e) if e else "?"), cx.site(b))


def check_choice(cx, chk):
    rt = cx.runtime
    b, p = ret_expr(cx, rt, "ChoiceHelper::choice")
    if b is None:
        chk.anchor_missing("C10.choice", "ChoiceHelper::choice")
        return
    SELF = ("local", 1) if (1 in b.pdefs or b.defs.get(1)) else ("param", 1)
    # the arm call: an indirect / FnOnce call of param 2
    arm = [(i, t) for i, t in b.calls() if (t["func"].get("indirect") or last(t["func"]["path"]) in ("call_once", "call_mut", "call"))]
    problems = []
    if len(arm) != 1:
        problems.append("expected exactly one call of the alternative, found %d" % len(arm))
    else:
        ai, at = arm[0]
        atoms = b.atoms(ai)
        guard = [(e, v) for (e, v, d) in atoms if is_call(e, "is_none") and v is True and e[2][0] == ("field", SELF, "result")]
        guard2 = [(e, v) for (e, v, d) in atoms if e[0] == "discr" and e[1] == ("field", SELF, "result") and v == 0]
        if not guard and not guard2:
            problems.append("the alternative is not guarded by `self.result.is_none()` (first success must win)")
        args = norm(b.expr_op(at["args"][1])) if len(at["args"]) > 1 else None
        # args is a tuple (state.clone(),)
        a = args[1][0] if args is not None and args[0] == "tuple" and args[1] else args
        if not (a is not None and is_call(a, "clone") and a[2][0] == ("field", SELF, "state")):
            problems.append("the alternative is not started from a clone of the helper's entry state: %s" % (mir.show(a) if a else "?"))
        # result handling
        rl = at["dest"]["l"]
        stores = []
        for i in sorted(b.reach):
            for st in b.blocks[i]["stmts"]:
                if st["k"] == "assign" and st["place"]["l"] == 1 and st["place"]["p"]:
                    fld = [pe["name"] for pe in st["place"]["p"] if pe["k"] == "field"]
                    stores.append((fld[-1] if fld else "?", norm(b.expr_rv(st["rv"])), i))
        res_store = [s for s in stores if s[0] == "result"]
        st_store = [s for s in stores if s[0] == "state"]
        R = norm(b.expr_local(rl))
        if not (len(res_store) == 1 and res_store[0][1][0] == "agg" and res_store[0][1][2] == "Some"
                and res_store[0][1][3][0][1] == ("field", ("downcast", R, "Ok"), "0")):
            problems.append("a successful alternative is not stored unchanged: %s" % [mir.show(s[1]) for s in res_store])
        okfold = False
        for s in st_store:
            e = s[1]
            if is_call(e, "record_error") and len(e[2]) == 2 and e[2][0] == ("field", SELF, "state") \
                    and e[2][1] == ("field", ("downcast", R, "Err"), "0"):
                okfold = True
        if not okfold:
            problems.append("a failed alternative's error is not folded into the helper state with record_error: %s"
                            % [mir.show(s[1]) for s in st_store])
    if problems:
        for pr in problems:
            chk.violation("C10.choice", "ChoiceHelper::choice " + pr.split(":")[0][:70], pr, cx.site(b))
    else:
        chk.ok("C10.choice", "ChoiceHelper::choice", {"guard": "result.is_none()", "start": "state.clone()", "ok": "result = Some(ok)", "err": "state = state.record_error(err)"})
    b, p = ret_expr(cx, rt, "ChoiceHelper::end")
    if b is None:
        chk.anchor_missing("C10.choice", "ChoiceHelper::end")
        return
    rets = []
    for d in b.defs.get(0, []):
        rets.append(norm(b.expr_rv(d[3]) if d[2] == "rv" else b.expr_call(d[3])))
    okr = any(r[0] == "agg" and r[2] == "Ok" and r[3][0][1] == ("field", ("downcast", ("field", ("param", 1), "result"), "Some"), "0") for r in rets)
    oke = any(r[0] == "agg" and r[2] == "Err" and is_call(r[3][0][1], "report_farthest_error") and r[3][0][1][2][0] == ("field", ("param", 1), "state") for r in rets)
    if okr and oke and len(rets) == 2:
        chk.ok("C10.choice", "ChoiceHelper::end", {"end": [mir.show(r) for r in rets]})
    else:
        chk.violation("C10.choice", "ChoiceHelper::end", "end() is not {Some(ok) => Ok(ok), None => Err(state.report_farthest_error())}: %s"
                      % [mir.show(r) for r in rets], cx.site(b))


def check_at(cx, chk):
    rt = cx.runtime
    n = 0
    for p, f in sorted(rt.fns.items()):
        if "mir" not in f or "builtin_parsers" not in p:
            continue
        b = cx.body(rt, p)
        for i, t in b.calls():
            if t["func"].get("indirect") or last(t["func"]["path"]) != "report_error":
                continue
            n += 1
            st = norm(b.expr_op(t["args"][0]))
            src = st[2][0] if is_call(st, "clone") else st
            tag = "%s report_error" % short(p)
            okk = False
            if b.is_closure:
                # ok_or_else(|| state.clone().report_error(..)) : upvar must be the matcher's own state parameter
                okk = src[0] == "upvar"
            else:
                okk = src == ("param", 1)
            if okk:
                chk.ok("C10.at", "%s@bb%d" % (tag, i), {"fn": short(p), "reported_on": mir.show(st)})
            else:
                chk.violation("C10.at", tag, "a terminal matcher reports its failure on %s, not on the unadvanced entry state: "
                              "the error offset would not be the offset of the attempt" % mir.show(st), cx.site(b, i))
    chk.floor("C10.at", "terminal failure reports", n, 10)


def check_sentinel(cx, chk):
    n = 0
    for w in memo.cached_wrappers(cx):
        if not w.ok or not w.leftrec:
            continue
        n += 1
        tag = "%s/%s" % (w.inst.name, w.rule)
        b = w.body
        L = memo.LeftrecLoop(w)
        if L.problems:
            chk.violation("C10.sentinel", tag + " shape", "left-recursive wrapper not recognised: %s" % L.problems, cx.site(b))
            continue
        Bx = ("local", L.B)
        bad = None
        # every path from the loop head to a return either goes through an arm that requires best = Ok,
        # or reassigns best from the new evaluation
        defs_in_loop = {db for (db, _) in L.loop_defs}
        for pth in L.iter_paths(L.head, set(b.returns)):
            edges = L.path_edges(pth)
            best_ok = any(e[0] == "discr" and e[1] == Bx and v == 0 for (e, v, _) in edges)
            reassigned = any(x in defs_in_loop for x in pth)
            loops_again = False
            if not best_ok and not reassigned:
                bad = pth
                break
        # and every return in the miss region returns B (C07.exit) - a direct return of a body failure would bypass this
        direct = []
        for d in b.defs.get(0, []):
            if d[0] in b.reachable_from(w.miss) and not b.dominates(w.hit, d[0]):
                okr = d[2] == "rv" and d[3]["k"] == "use" and d[3]["op"].get("place") == {"l": L.B, "p": []}
                if not okr:
                    direct.append(d[0])
        if bad or direct:
            chk.violation("C10.sentinel", tag, "an exit of the left-recursive wrapper can return while the stored/returned best "
                          "result is still the seed sentinel (or bypasses the best result altogether)", cx.site(b, (bad or direct)[-1] if bad else direct[0]),
                          {"path": memo.describe_path(b, bad) if bad else None, "direct_returns": direct})
        else:
            chk.ok("C10.sentinel", tag, {"wrapper": tag, "exit_paths_checked": True})
    chk.floor("C10.sentinel", "leftrec wrappers", n, 2)


def check_look(cx, chk):
    """Lookaheads consume nothing and a *succeeding* lookahead contributes nothing to the
    furthest-failure bookkeeping: its Ok carries exactly the entry state."""
    n = 0
    for inst in cx.instances():
        for p, f in sorted(inst.fns.items()):
            if "mir" not in f or f["kind"] != "Fn":
                continue
            b = cx.body(inst.crate, p)
            inner = [(i, t) for i, t in b.calls() if not t["func"].get("indirect")
                     and re.search(r"::(negative|positive)_lookahead::parse$", mir.strip_generics(t["func"]["path"]))
                     and mir.strip_generics(t["func"]["path"]).rsplit("::", 2)[0] == mir.strip_generics(p).rsplit("::", 1)[0]]
            neg_role = any(st["rv"].get("variant") == "NegativeLookaheadFailed" for i in b.reach for st in b.blocks[i]["stmts"]
                           if st["k"] == "assign" and st["rv"]["k"] == "agg")
            if not inner and not neg_role:
                continue
            n += 1
            rest = p[len(inst.prefix) + 2:]
            tag = "%s/%s" % (inst.name, re.sub(r"\d+", "N", rest))
            kind = "negative" if neg_role else "positive"
            probs = []
            for d in b.defs.get(0, []):
                if d[2] != "rv":
                    continue
                e = norm(b.expr_rv(d[3]))
                if e[0] == "agg" and e[2] == "Ok":
                    po = e[3][0][1]
                    st = dict(po[3]).get("state") if po[0] == "agg" else None
                    if st != ("param", 1):
                        probs.append("a succeeding %s lookahead returns %s instead of the untouched entry state (it must consume nothing "
                                     "and attempts inside it must not enter the furthest-failure bookkeeping)" % (kind, mir.show(st) if st else mir.show(po)))
                if e[0] == "agg" and e[2] == "Err" and neg_role:
                    pe = e[3][0][1]
                    if not (is_call(pe, "report_error") and pe[2][0] == ("param", 1)):
                        probs.append("a failing negative lookahead does not report on the entry state: %s" % mir.show(pe))
            for (i, t) in inner:
                a0 = norm(b.expr_op(t["args"][0]))
                if not (is_call(a0, "clone") and a0[2][0] == ("param", 1)):
                    probs.append("the lookahead body is not started from a clone of the entry state: %s" % mir.show(a0))
            if probs:
                for pr in probs:
                    chk.violation("C10.look", "%s %s" % (tag, pr.split(" returns ")[0][:50]), pr, cx.site(b))
            else:
                chk.ok("C10.look", "%s/%s" % (inst.name, rest), {"fn": "%s/%s" % (inst.name, rest), "kind": kind, "ok_state": "entry state"})
    chk.floor("C10.look", "lookahead functions", n, 12)


def run(cx, chk):
    chk.explanation = (
        "Error discipline decided on every path of every generated function and runtime helper: each ParseResult / ParseError "
        "value is returned, `?`-propagated, handed to a modelled combinator, or folded into the surviving state by record_error; "
        "drops are allowed only by role (negative lookahead, @char alternatives tried at the same offset, left-recursion arms). "
        "record_error is decided (4 cases) to keep the larger-or-equal position; report_error / report_farthest_error build "
        "errors at the state's own offset; ChoiceHelper folds every failed alternative; terminal matchers report on the "
        "unadvanced entry state; @leftrec exits cannot return the seed sentinel. The concrete furthest offset for a given "
        "input is the composition of these clauses and is not computed.")
    chk.assumptions = ["positions are char boundaries by C04", "state threading (which state survives) is C01's subject"]
    check_fold(cx, chk)
    check_max(cx, chk)
    check_choice(cx, chk)
    check_at(cx, chk)
    check_sentinel(cx, chk)
    check_look(cx, chk)
