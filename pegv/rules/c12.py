"""C12 — grammar text is read into the structure it denotes.

simple : each simple escape variant maps to the character documented for its spelling.
hex    : \\xXX = d1*16+d2 ; \\u.. / \\U.. / \\u{..} = left fold acc*16+digit over the digits in order,
         then char::from_u32 with the None case returned as an error.
flags  : each directive variant sets its own flag and no other.
crc    : the shipped front end was generated from today's grammar.ebnf (header CRC).
front  : (lifter) the shipped front end denotes grammar.ebnf.
"""
import itertools
import re
import zlib

from .. import mir, finite, ebnf
from ..mir import short, last, strip, walk, norm, is_call
from . import common

LEVEL = "translation_validation"

SIMPLE = {"n": "\n", "r": "\r", "t": "\t", "\\": "\\", "'": "'", '"': '"'}
DIRECTIVE_FLAG = {"@string": "string", "@no_skip_ws": "no_skip_ws", "@export": "export", "@position": "position",
                  "@memoize": "memoize", "@leftrec": "left_recursive"}


def rule_literal(g, name):
    r = g.rule(name)
    if r is None or r.kind != "rule":
        return None
    e = r.body
    while e[0] in ("choice", "seq", "group") and len(e[1]) == 1 if e[0] != "group" else True:
        e = e[1][0] if e[0] != "group" else e[1]
        if e[0] not in ("choice", "seq", "group"):
            break
    if e[0] == "lit":
        return "".join(e[1])
    if e[0] == "seq" and e[1] and e[1][0][0] == "lit":
        return "".join(e[1][0][1])
    return None


def digit_of(e, field):
    """e == unwrap(to_digit(<self.field or its Some payload>, 16)) possibly cast; returns True/False."""
    x = e
    while x[0] == "cast":
        x = x[2]
    if not (is_call(x, "unwrap", "expect") and is_call(x[2][0], "to_digit")):
        return False
    td = x[2][0]
    if td[2][1] != ("const", "u32", 16):
        return False
    src = td[2][0]
    if src == ("field", ("param", 1), field):
        return True
    if src[0] == "field" and src[2] == "0" and src[1][0] == "downcast" and src[1][2] == "Some" and src[1][1] == ("field", ("param", 1), field):
        return True
    return False


def fold_matches(e, fields):
    """e == ((d(f0)*16 + d(f1))*16 + ...)"""
    e = finite.plain_arith(e)
    fs = list(fields)
    cur = e
    while len(fs) > 1:
        if not (cur[0] == "binop" and cur[1] == "Add"):
            return False
        l, r = cur[2], cur[3]
        if not digit_of(r, fs[-1]):
            return False
        if not (l[0] == "binop" and l[1] == "Mul" and l[3][0] == "const" and l[3][2] == 16):
            return False
        cur = l[2]
        fs.pop()
    return digit_of(cur, fs[0])


def check_escapes(cx, chk, g):
    cg = cx.codegen
    # ---- simple
    ps = [p for p in cg.fns if "SimpleEscape> for char" in p and last(p) == "from" and "mir" in cg.fns[p]]
    adt = [a for q, a in cg.adts.items() if q.endswith("::SimpleEscape")]
    if not ps or not adt:
        chk.anchor_missing("C12.simple", "From<&SimpleEscape> for char")
    else:
        b = cx.body(cg, ps[0])
        variants = [v["name"] for v in adt[0]["variants"]]
        got = {}
        for (atoms, v, pth) in finite.return_table(b):
            d = [val for (e, val) in atoms if e[0] == "discr"]
            if len(d) == 1 and isinstance(d[0], int) and v is not None and v[0] == "const" and v[1] == "char":
                got[variants[d[0]]] = v[2]
        probs = []
        for vn in variants:
            letter = rule_literal(g, vn)
            if letter is None or letter not in SIMPLE:
                probs.append("variant %s: its spelling in grammar.ebnf (%r) is not a documented simple escape" % (vn, letter))
            elif got.get(vn) != SIMPLE[letter]:
                probs.append("escape \\%s (variant %s) decodes to %r, documented: %r" % (letter, vn, got.get(vn), SIMPLE[letter]))
        if set(rule_literal(g, vn) for vn in variants) != set(SIMPLE):
            probs.append("the set of simple escapes is %s, documented: %s" % (sorted(str(rule_literal(g, vn)) for vn in variants), sorted(SIMPLE)))
        if probs:
            for pr in probs:
                chk.violation("C12.simple", pr.split(" decodes")[0][:60], pr, cx.site(b))
        else:
            chk.ok("C12.simple", "simple escapes", {"map": {rule_literal(g, vn): got[vn] for vn in variants}})
    # ---- \\xXX and \\u / \\U / \\u{}: read off the semantic summaries of the two conversions
    from .. import sem
    P1 = mir.mk("param", 1)

    def strip_casts(x):
        while x[0] == "cast":
            x = x[2]
        return x

    def digit_term(x, field, optional):
        """x == (to_digit(<self.field or its Some payload>, 16) as Some).0"""
        x = strip_casts(x)
        if not (x[0] == "field" and x[2] == "0" and x[1][0] == "downcast" and x[1][2] == "Some" and is_call(x[1][1], "to_digit")):
            return False
        td = x[1][1]
        if len(td[2]) != 2 or td[2][1] != ("const", "u32", 16):
            return False
        src = td[2][0]
        base = mir.mk("field", P1, field)
        return src == (mir.mk("field", mir.mk("downcast", base, "Some"), "0") if optional else base)

    def fold_is(x, present, optional_from=1):
        """x == ((d(f0)*16 + d(f1))*16 + ...) over the present digit fields, in order"""
        fs = list(present)
        cur = strip_casts(x)
        while len(fs) > 1:
            if not (cur[0] == "binop" and cur[1] == "Add"):
                return False
            l, r = strip_casts(cur[2]), cur[3]
            if not digit_term(r, fs[-1][0], fs[-1][1]):
                return False
            if not (l[0] == "binop" and l[1] == "Mul" and l[3][0] == "const" and l[3][2] == 16):
                return False
            cur = strip_casts(l[2])
            fs.pop()
        return digit_term(cur, fs[0][0], fs[0][1])
    # private helpers of the module that holds the conversions are looked into (a `hex_digit_value(c)` is still `c.to_digit(16).unwrap()`)
    S = sem.Sem(cx, cg, max_leaves=4000, inline=lambda p_: p_ in cg.fns and "mir" in cg.fns[p_] and "{closure" not in p_ and "::string::" in p_
                and cg.fns[p_].get("kind") == "Fn" and "<impl" not in p_)
    ps = [p for p in cg.fns if "HexaEscape> for char" in p and last(p) == "from" and "mir" in cg.fns[p]]
    if not ps:
        chk.anchor_missing("C12.hex", "From<&HexaEscape> for char")
    else:
        b = cx.body(cg, ps[0])
        probs = []
        try:
            sm = S.summarize(ps[0])
            rets = [l for l in sm.leaves if l.kind == "return"]
            if not rets:
                probs.append("no returning path")
            for l in rets:
                e = l.ret
                v = e[2][0] if is_call(e, "into", "from") and e[2] else e
                if not fold_is(v, [("c1", False), ("c2", False)]):
                    probs.append(mir.show(e)[:200])
        except sem.SemLimit as ex:
            probs.append(str(ex))
        if not probs:
            chk.ok("C12.hex", "\\xXX", {"value": "digit(c1)*16 + digit(c2)"})
        else:
            chk.violation("C12.hex", "\\xXX", "\\xXX is not decoded as digit(c1)*16 + digit(c2): %s" % probs[0], cx.site(b))
    ps = [p for p in cg.fns if "Utf8Escape> for char" in p and last(p) == "try_from" and "mir" in cg.fns[p]]
    adt = [a for q, a in cg.adts.items() if q.endswith("::Utf8Escape")]
    if not ps or not adt:
        chk.anchor_missing("C12.hex", "TryFrom<&Utf8Escape> for char")
    else:
        b = cx.body(cg, ps[0])
        fields = [f["name"] for f in adt[0]["variants"][0]["fields"]]
        probs = []
        combos = set()
        try:
            sm = S.summarize(ps[0])
        except sem.SemLimit as ex:
            sm = None
            probs.append(str(ex))
        for l in (sm.leaves if sm is not None else []):
            if l.kind != "return":
                continue
            present = [(fields[0], False)]
            undecided = False
            for f in fields[1:]:
                k = l.facts.get(mir.mk("discr", mir.mk("field", P1, f)))
                if k == 1:
                    present.append((f, True))
                elif k != 0:
                    undecided = True
            names = [f for f, _ in present]
            if undecided:
                probs.append("a path does not look at every optional digit (saw %s)" % names)
                continue
            combos.add(tuple(names))
            fu = [s_ for (a, v) in l.assume for s_ in walk(a) if is_call(s_, "from_u32")] + [s_ for s_ in walk(l.ret) if is_call(s_, "from_u32")]
            if not fu:
                probs.append("path with digits %s does not go through char::from_u32" % names)
                continue
            if not fold_is(fu[0][2][0], present):
                probs.append("with digits %s present the code point is %s, documented: left fold acc*16+digit in order" % (names, mir.show(fu[0][2][0])[:200]))
                continue
            k = l.facts.get(mir.mk("discr", fu[0]))
            r = l.ret
            if k == 1 and not (r[0] == "agg" and r[2] == "Ok" and r[3][0][1] == mir.mk("field", mir.mk("downcast", fu[0], "Some"), "0")):
                probs.append("a valid code point is not returned as the character: %s" % mir.show(r)[:120])
            if k == 0 and not (r[0] == "agg" and r[2] == "Err"):
                probs.append("an invalid code point is not an error: %s" % mir.show(r)[:120])
            if k not in (0, 1):
                probs.append("the result of char::from_u32 is not examined")
        if fields != ["c1", "c2", "c3", "c4", "c5", "c6"]:
            probs.append("digit fields are %s" % fields)
        if probs:
            for pr in sorted(set(probs))[:3]:
                chk.violation("C12.hex", "utf8-escape " + pr.split(" present")[0][:50], pr, cx.site(b))
        else:
            chk.ok("C12.hex", "\\u / \\U / \\u{}", {"digit_combinations": len(combos), "value": "fold(acc*16 + digit) over present digits in order; from_u32 None -> Err"})
        chk.floor("C12.hex", "digit-presence combinations of the unicode escape", len(combos), 32)
    # HexChar admits only hex digits (discharges the to_digit unwraps)
    hc = g.rule("HexChar")
    okhex = False
    if hc is not None and hc.kind == "char":
        chars = set()
        for p_ in hc.char_parts:
            if p_[0] == "range":
                chars |= set(chr(c) for c in range(ord(p_[1]), ord(p_[2]) + 1))
            elif p_[0] == "lit":
                chars |= set(p_[1])
            else:
                chars.add("?ref")
        okhex = chars <= set("0123456789abcdefABCDEF") and len(chars) == 22
    for fn in ("c1", "c2"):
        pass
    if okhex:
        chk.ok("C12.hex", "HexChar class", {"HexChar": "[0-9a-fA-F]"})
    else:
        chk.violation("C12.hex", "HexChar class", "the front end's HexChar class is not exactly [0-9a-fA-F]: to_digit(16).unwrap() could panic or digits be lost")


def check_flags(cx, chk, g):
    cg = cx.codegen
    ps = [p for p in cg.fns if last(p) == "flags" and "Rule" in p and "mir" in cg.fns[p]]
    adt = [a for q, a in cg.adts.items() if q.endswith("::DirectiveExpression")]
    if not ps or not adt:
        chk.anchor_missing("C12.flags", "Rule::flags / DirectiveExpression")
        return
    b = cx.body(cg, ps[0])
    variants = [v["name"] for v in adt[0]["variants"]]
    got = {v: set() for v in variants}
    # read off the semantic summary: either a loop over the directives whose trips set fields of the flags value (a trip's
    # directive variant -> the fields it sets to true), or a flags literal whose fields are `directives.iter().any(|d| matches!(..))`
    from .. import sem
    recognised = False
    try:
        S = sem.Sem(cx, cg, max_leaves=2000)
        sm = S.summarize(ps[0])
    except sem.SemLimit:
        sm = None
    if sm is not None and sm.loopbacks:
        recognised = True
        for lb in sm.loopbacks:
            ks = [(a_, v_) for (a_, v_) in lb.assume if a_[0] == "discr" and isinstance(v_, int) and any(is_call(s_, "next") for s_ in walk(a_))]
            if len(ks) < 1:
                recognised = False
                continue
            k = [v_ for (a_, v_) in ks if not is_call(a_[1], "next")]
            if not k:
                continue
            kv = k[-1]
            for (l_, nv) in (lb.ret[2] if lb.ret is not None else ()):
                x = nv
                while x[0] == "upd":
                    if x[3] == ("const", "bool", True):
                        if 0 <= kv < len(variants):
                            got[variants[kv]].add(x[2])
                    elif x[3] != ("const", "bool", False) and x[2] in ("string", "no_skip_ws", "export", "position", "memoize", "left_recursive"):
                        chk.violation("C12.flags", "odd flag write", "unrecognised write to a rule flag: %s" % mir.show(x[3])[:80], cx.site(b))
                    x = x[1]
    elif sm is not None:
        rets = [l for l in sm.leaves if l.kind == "return"]
        if len(rets) == 1 and rets[0].ret is not None and rets[0].ret[0] == "agg" and rets[0].ret[1].endswith("RuleFlags"):
            recognised = True
            for (fname, fv) in rets[0].ret[3]:
                if fv[0] == "const":
                    continue
                clo = None
                if is_call(fv, "any") and len(fv[2]) == 2 and any(s_[0] == "field" and s_[2] == "directives" for s_ in walk(fv[2][0])):
                    clo = fv[2][1]
                if clo is None or clo[0] != "closure":
                    recognised = False
                    continue
                csm = S.summarize(clo[1])
                for cl in (csm.leaves if csm is not None else []):
                    if cl.ret == ("const", "bool", True):
                        for (a_, v_) in cl.assume:
                            if a_[0] == "discr" and isinstance(v_, int) and 0 <= v_ < len(variants):
                                got[variants[v_]].add(fname)
        elif len(rets) == 1 and rets[0].ret is not None and is_call(rets[0].ret, "fold") and len(rets[0].ret[2]) == 3 and rets[0].ret[2][2][0] == "closure" \
                and any(s_[0] == "field" and s_[2] == "directives" for s_ in walk(rets[0].ret[2][0])):
            # directives.iter().fold(RuleFlags::default(), |flags, d| match d { V(_) => RuleFlags { f: true, ..flags }, .. })
            init, clo = rets[0].ret[2][1], rets[0].ret[2][2]
            init_ok = is_call(init, "default") or (init[0] == "agg" and all(v_ == ("const", "bool", False) for (_, v_) in init[3]))
            csm = S.summarize(clo[1])
            if init_ok and csm is not None and csm.complete:
                recognised = True
                ACC = mir.mk("param", 2)
                for cl in csm.returns:
                    ks = [v_ for (a_, v_) in cl.assume if a_[0] == "discr" and isinstance(v_, int)]
                    r_ = cl.ret
                    if not ks or r_ is None:
                        recognised = False
                        continue
                    kv = ks[-1]
                    if r_ == ACC:
                        continue
                    if r_[0] != "agg" or not r_[1].endswith("RuleFlags"):
                        recognised = False
                        continue
                    for (fname, fv) in r_[3]:
                        if fv == ("const", "bool", True):
                            if 0 <= kv < len(variants):
                                got[variants[kv]].add(fname)
                        elif fv != mir.mk("field", ACC, fname):
                            chk.violation("C12.flags", "odd flag write", "unrecognised value of rule flag %s in the fold over the directives: %s" % (fname, mir.show(fv)[:80]), cx.site(b))
    if not recognised:
        # structural fallback: field writes under a match on the directive
        for i in sorted(b.reach):
            for st in b.blocks[i]["stmts"]:
                if st["k"] == "assign" and st["place"]["p"] and st["place"]["p"][-1]["k"] == "field" and (st["place"]["p"][-1].get("owner") or "").endswith("RuleFlags"):
                    val = norm(b.expr_rv(st["rv"]))
                    d = [v for (e, v, dd) in b.atoms(i) if e[0] == "discr" and isinstance(v, int)]
                    if d and val == ("const", "bool", True):
                        got[variants[d[-1]]].add(st["place"]["p"][-1]["name"])
                    elif val != ("const", "bool", False):
                        chk.violation("C12.flags", "odd flag write", "unrecognised write to a rule flag: %s" % mir.show(val), cx.site(b, i))
    probs = []
    for v in variants:
        lit = rule_literal(g, v)
        want = {DIRECTIVE_FLAG[lit]} if lit in DIRECTIVE_FLAG else set()
        if lit == "@check":
            want = set()
        if got[v] != want:
            probs.append("directive %s (%s) sets %s, documented: %s" % (lit, v, sorted(got[v]), sorted(want)))
    if probs:
        for pr in probs:
            chk.violation("C12.flags", pr.split(" sets")[0][:60], pr, cx.site(b))
    else:
        chk.ok("C12.flags", "Rule::flags", {"map": {rule_literal(g, v): sorted(got[v]) for v in variants}})


TOKEN_RULES = ["Identifier", "CharRangePart", "StringLiteral", "StringItem", "SimpleEscape", "HexaEscape", "Utf8Escape", "Whitespace", "Comment"]


def check_tokens(cx, chk, g):
    """The rules of grammar.ebnf that spell ONE token (the independent reader ebnf.py treats them as atomic: nothing may be
    skipped between an opening quote and its character, inside an escape, an identifier, a comment) never skip whitespace."""
    names = list(TOKEN_RULES)
    se = g.rule("SimpleEscape")
    if se is not None and se.body is not None:
        def refs(e):
            if e[0] == "field":
                yield e[3]
            elif e[0] in ("choice", "seq"):
                for x in e[1]:
                    yield from refs(x)
            elif e[0] in ("group", "opt", "closure", "neg", "pos"):
                yield from refs(e[1])
        names += [n for n in refs(se.body) if g.rule(n) is not None]
    for n in names:
        r = g.rule(n)
        if r is None:
            chk.anchor_missing("C12.tokens", "token rule %s of grammar.ebnf" % n)
            continue
        if r.kind == "rule" and "no_skip_ws" not in r.flags:
            chk.violation("C12.tokens", "%s skips whitespace" % n,
                          "token rule %s of grammar.ebnf is not @no_skip_ws: whitespace and `#` comments would be skipped INSIDE a token "
                          "(e.g. between a quote and its character), so some documented spellings are read differently or rejected" % n,
                          "grammar.ebnf:%s" % n)
        else:
            chk.ok("C12.tokens", n)


def check_crc(cx, chk):
    text = open(cx.repo_file("grammar.ebnf"), "rb").read()
    crc = "%08x" % (zlib.crc32(text) & 0xFFFFFFFF)
    gen = cx.read_repo("codegen/src/grammar/generated.rs")
    m = re.search(r"CRC-32/ISO-HDLC of the grammar file: ([0-9a-f]{8})", gen[:400])
    if m and m.group(1) == crc:
        chk.ok("C12.crc", "bootstrap header", {"crc32(grammar.ebnf)": crc, "generated.rs header": m.group(1)})
    else:
        chk.violation("C12.crc", "stale bootstrap",
                      "codegen/src/grammar/generated.rs was generated from a different grammar.ebnf (header CRC %s, file CRC %s): the shipped "
                      "front end does not correspond to the grammar in the tree" % (m.group(1) if m else None, crc), "codegen/src/grammar/generated.rs:2")


def check_ws_class(cx, chk, g):
    """Whitespace is one class: a rule of the grammar of grammars (other than Whitespace / Comment, which define the class) that
    names a whitespace character as one alternative of a choice - typically the terminator set of a token, `!( ')' | ' ' )` -
    names all of them, or it treats a newline or a tab differently from a blank and layout changes what a grammar text means."""
    ws = g.rule("Whitespace")
    if ws is None or ws.body is None:
        chk.anchor_missing("C12.tokens", "rule Whitespace of grammar.ebnf")
        return
    def lits(e):
        if isinstance(e, tuple):
            if e and e[0] == "lit" and len(e[1]) == 1:
                yield e[1][0]
            for x in e[1:]:
                if isinstance(x, (tuple, list)):
                    for y in (x if isinstance(x, list) else [x]):
                        yield from lits(y)
    WS = {c for c in lits(ws.body) if len(c) == 1 and c.isspace()}
    n = 0
    def single_alt_lit(alt):
        # ('seq', [('lit', (c,), ins)]) -> c
        if alt[0] == "seq" and len(alt[1]) == 1 and alt[1][0][0] == "lit" and len(alt[1][0][1]) == 1:
            return alt[1][0][1][0]
        if alt[0] == "lit" and len(alt[1]) == 1:
            return alt[1][0]
        return None
    def walk_e(e, rule):
        nonlocal n
        if not isinstance(e, tuple) or not e:
            return
        if e[0] == "choice" and len(e[1]) > 1:
            cs = [single_alt_lit(a) for a in e[1]]
            have = {c for c in cs if c is not None and len(c) == 1 and c in WS}
            if have:
                n += 1
                if have != WS:
                    chk.violation("C12.tokens", "%s partial-whitespace" % rule.name,
                                  "rule %s of grammar.ebnf lists %s among the alternatives of a choice but not %s: it treats some whitespace characters "
                                  "differently from the others (a name that ends at a blank but swallows a newline or a tab), so the layout of a grammar "
                                  "text changes how it is read" % (rule.name, sorted(have), sorted(WS - have)))
        for x in e[1:]:
            if isinstance(x, list):
                for y in x:
                    walk_e(y, rule)
            elif isinstance(x, tuple):
                walk_e(x, rule)
    for r in g.rules:
        if r.kind != "rule" or r.name in ("Whitespace", "Comment") or r.body is None:
            continue
        walk_e(r.body, r)
    chk.ok("C12.tokens", "whitespace is one class", {"whitespace_characters": sorted(WS), "choices_naming_whitespace_outside_the_class_rules": n})


MAXC = 0x10FFFF


def _norm_set(iv):
    out = []
    for a, b in sorted(iv):
        if a > b:
            continue
        if out and a <= out[-1][1] + 1:
            out[-1] = (out[-1][0], max(out[-1][1], b))
        else:
            out.append((a, b))
    return out


def _minus(x, y):
    out = []
    for a, b in x:
        cur = a
        for c, d in y:
            if d < cur or c > b:
                continue
            if c > cur:
                out.append((cur, c - 1))
            cur = max(cur, d + 1)
        if cur <= b:
            out.append((cur, b))
    return _norm_set(out)


def one_char_set(g, e, depth=0):
    """The set of characters c such that expression e matches exactly c (as intervals of code points), or None when e is not
    of a single-character form this computation understands."""
    if depth > 8 or not isinstance(e, tuple) or not e:
        return None
    k = e[0]
    if k == "lit":
        if len(e[1]) != 1 or len(e[1][0]) != 1:
            return None
        c = e[1][0]
        cs = {ord(c)} | ({ord(c.lower()), ord(c.upper())} if e[2] and c.isascii() else set())
        return _norm_set([(x, x) for x in cs])
    if k == "range":
        return _norm_set([(ord(e[1]), ord(e[2]))])
    if k == "ref":
        return one_char_set(g, ("field", None, False, e[1]), depth + 1)
    if k == "field":
        if e[3] == "char":
            return [(0, MAXC)]
        r = g.rule(e[3])
        if r is None:
            return None
        if r.kind == "char" and r.char_parts is not None and not r.checks:
            acc = []
            for p_ in r.char_parts:
                s_ = one_char_set(g, p_, depth + 1)
                if s_ is None:
                    return None
                acc += s_
            return _norm_set(acc)
        if r.kind == "rule" and r.body is not None and not r.checks:
            return one_char_set(g, r.body, depth + 1)
        return None
    if k == "group":
        return one_char_set(g, e[1], depth + 1)
    if k == "choice":
        acc = []
        for a in e[1]:
            s_ = one_char_set(g, a, depth + 1)
            if s_ is None:
                return None
            acc += s_
        return _norm_set(acc)
    if k == "seq":
        items = list(e[1])
        negs = []
        while items and items[0][0] == "neg":
            s_ = one_char_set(g, items[0][1], depth + 1)
            if s_ is None:
                return None
            negs += s_
            items = items[1:]
        if len(items) != 1:
            return None
        s_ = one_char_set(g, items[0], depth + 1)
        if s_ is None:
            return None
        return _minus(s_, _norm_set(negs))
    return None


def check_comment(cx, chk, g):
    """A `#` comment runs to the end of its line whatever it contains: the class of characters one iteration of the comment's
    body accepts is every character except the line feed (decided on grammar.ebnf's Comment rule; an unrecognised shape is left
    undecided)."""
    r = g.rule("Comment")
    if r is None or r.body is None:
        chk.anchor_missing("C12.tokens", "rule Comment of grammar.ebnf")
        return
    b = r.body
    while b[0] in ("choice", "group") and (b[0] == "group" or len(b[1]) == 1):
        b = b[1] if b[0] == "group" else b[1][0]
    if not (b[0] == "seq" and len(b[1]) == 3 and b[1][0][0] == "lit" and b[1][1][0] == "closure" and b[1][2] == ("lit", ("\n",), False)):
        chk.ok("C12.tokens", "comment body class", {"decided": False, "reason": "Comment is not of the form '#' {body} '\\n'"})
        return
    cs = one_char_set(g, b[1][1][1])
    if cs is None:
        chk.ok("C12.tokens", "comment body class", {"decided": False, "reason": "the body of the closure is not a single-character expression"})
        return
    want = [(0, 9), (11, MAXC)]
    if cs == want:
        chk.ok("C12.tokens", "comment body class", {"decided": True, "class": "every character except U+000A"})
        return
    missing = _minus(want, cs)
    extra = _minus(cs, want)
    show = lambda iv: ", ".join("U+%04X" % a if a == b_ else "U+%04X-U+%04X" % (a, b_) for a, b_ in iv[:6])
    chk.violation("C12.tokens", "Comment body class",
                  "a `#` comment of a grammar text may not contain %s%s: a grammar file whose comments contain such a character (U+000D: every comment "
                  "of a file with CRLF line ends) is rejected as a whole although the documented syntax lets a comment run to the end of the line"
                  % (show(missing) if missing else "-", ("; it also swallows " + show(extra)) if extra else ""), "grammar.ebnf:Comment")


def check_use(cx, chk):
    """What the front end reads it hands to the generator: every named field of the syntax-tree types generated from grammar.ebnf
    is read by the generator's own code somewhere.  A field that is filled but never read is a part of the grammar text that is
    parsed and then silently ignored (e.g. the `@check`s after `@char` landing under a mistyped label)."""
    cg = cx.codegen
    reads = set()

    def scan(o):
        if isinstance(o, dict):
            if "p" in o and "l" in o:
                for pe in o.get("p", []):
                    if pe["k"] == "field" and "grammar::generated::" in (pe.get("owner") or ""):
                        reads.add((pe["owner"].split("::")[-1].split("<")[0], pe["name"]))
            for v in o.values():
                scan(v)
        elif isinstance(o, list):
            for v in o:
                scan(v)
    nf = 0
    for p, f in cg.fns.items():
        if "mir" not in f or "::grammar::generated::" in p or re.match(r"^\w+::<grammar::generated::[\w<>', ]+ as (std|core)::(fmt::Debug|clone::Clone|cmp::\w+|default::Default|hash::Hash)>::", p):
            continue        # the front end itself and the derives on its types (Debug / Clone touch every field)
        nf += 1
        b = cx.body(cg, p)
        for i in b.reach:
            scan(b.blocks[i])
    adts = [a for a in cg.j["adts"] if "::grammar::generated::" in a["path"] and "peginator_generated" not in a["path"]]
    n = 0
    for a in adts:
        nm = a["path"].split("::")[-1]
        for v in a["variants"]:
            for fl in v["fields"]:
                if fl["name"].isdigit():
                    continue
                n += 1
                if (nm, fl["name"]) not in reads:
                    chk.violation("C12.use", "%s.%s never read" % (nm, fl["name"]),
                                  "the front end fills %s.%s (%s) but no code of the generator reads it: that part of a grammar text is parsed and then "
                                  "ignored" % (nm, fl["name"], fl["ty"][:60]), "%s:%d" % (a["span"]["file"], a["span"]["line"]) if a.get("span") else None)
    chk.ok("C12.use", "syntax-tree fields", {"types": len(adts), "named_fields": n, "read_by_generator": len(reads), "generator_functions_scanned": nf})
    chk.floor("C12.use", "named fields of the front end's syntax tree", n, 20)


def run(cx, chk):
    chk.explanation = (
        "Tier 1: escape decoding decided exactly - the 6 simple escapes against the spellings read from grammar.ebnf, \\xXX as "
        "d1*16+d2, the unicode escapes by forward symbolic evaluation of all 32 digit-presence paths against the left fold "
        "acc*16+digit followed by char::from_u32 with None returned as an error; Rule::flags maps each directive variant (spelling "
        "read from grammar.ebnf) to exactly its flag; the shipped front end's header CRC equals CRC-32 of today's grammar.ebnf. "
        "Tier 2 (front): all rule functions of the shipped front end are lifted and compared with the terms grammar.ebnf denotes.")
    chk.assumptions = ["that grammar.ebnf itself denotes the prose of the syntax reference is not decided (language equivalence against prose)"]
    try:
        g = ebnf.parse_file(cx.repo_file("grammar.ebnf"))
    except Exception as ex:
        chk.violation("C12.crc", "grammar.ebnf unreadable", "the independent reader cannot read grammar.ebnf: %s" % ex)
        return
    check_escapes(cx, chk, g)
    check_flags(cx, chk, g)
    check_tokens(cx, chk, g)
    check_ws_class(cx, chk, g)
    check_comment(cx, chk, g)
    check_use(cx, chk)
    check_crc(cx, chk)
    try:
        from . import lift_rules
    except ImportError:
        lift_rules = None
    if lift_rules is not None:
        lift_rules.check_tv(cx, chk, "C12.front", only=("bootstrap",), floor=50)
