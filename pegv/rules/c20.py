"""C20 — parsing is a pure function of grammar and input, also across threads.

static : no static / thread_local item in the runtime crate or in generated modules.
freeze : no interior mutability in any parse data type (runtime + generated).
fresh  : every parse_advanced builds its ParseGlobal (cache, tracer) locally per call.
sinks  : nothing reachable from generated parsers touches process-global state.
"""
import re

from .. import mir
from ..mir import short, last, strip, walk, norm, is_call
from . import common, c04

LEVEL = "other"

GLOBAL_STATE = re.compile(
    r"^(std|core)::(env|fs|time|process|thread|net|sync|cell|rc|os|hint::spin_loop|collections::hash::map::RandomState|hash::random)\b")
IO = re.compile(r"^std::io::")


def check_static(cx, chk):
    rt = cx.runtime
    for s in rt.j["statics"]:
        chk.violation("C20.static", "runtime static %s" % s["path"],
                      "static item in the runtime crate (%s%s): process-wide state shared by all parses"
                      % ("thread_local " if s["thread_local"] else "", s["ty"]),
                      "%s:%d" % (s["span"]["file"], s["span"]["line"]))
    chk.ok("C20.static", "runtime", {"crate": "peginator", "statics": len(rt.j["statics"])})
    if cx.runtime_nodefault is not None:
        for s in cx.runtime_nodefault.j["statics"]:
            chk.violation("C20.static", "runtime(no-default) static %s" % s["path"], "static item in the runtime crate")
    for inst in cx.instances():
        hits = [s for s in inst.crate.j["statics"] if s["path"].startswith(inst.outer + "::")]
        for s in hits:
            chk.violation("C20.static", "%s static %s" % (inst.name, s["path"][len(inst.outer) + 2:]),
                          "static item inside generated code", "%s:%d" % (s["span"]["file"], s["span"]["line"]))
        chk.ok("C20.static", inst.name, {"instance": inst.name, "statics": len(hits)})
    # thread-local refs in MIR (thread_local! expands to const/static + accessor)
    for crate, fns in [(rt, rt.fns)] + [(i.crate, i.fns) for i in cx.instances()]:
        for p, f in fns.items():
            if "mir" not in f:
                continue
            b = cx.body(crate, p)
            for i in b.reach:
                for st in b.blocks[i]["stmts"]:
                    if st["k"] == "assign" and st["rv"]["k"] == "tlsref":
                        chk.violation("C20.static", "%s tlsref" % short(p), "thread-local access", cx.site(b, i))
                    if st["k"] == "assign" and st["rv"]["k"] == "use" and st["rv"]["op"]["k"] == "const":
                        tx = st["rv"]["op"].get("text", "")
                        if "alloc" in tx and "static" in tx:
                            chk.violation("C20.static", "%s static-ref" % short(p), "reference to a static: %s" % tx[:80], cx.site(b, i))


def check_freeze(cx, chk):
    rt = cx.runtime
    names = ["ParseState", "ParseOk", "ParseError", "ParseErrorSpecifics", "ParseGlobal", "ChoiceHelper",
             "NoopTracer", "IndentedTracer", "ParseSettings"]
    for name in names:
        hits = common.adt_by_suffix(rt, name)
        if not hits:
            chk.anchor_missing("C20.freeze", name)
            continue
        for adt in hits:
            for v in adt["variants"]:
                for fld in v["fields"]:
                    st = common.field_freeze_status(adt, fld)
                    if st == "interior":
                        chk.violation("C20.freeze", "%s.%s" % (name, fld["name"]),
                                      "%s.%s: %s has interior mutability: parse state can change behind a shared "
                                      "reference / be shared between parses" % (name, fld["name"], fld["ty"]),
                                      "%s:%d" % (adt["span"]["file"], adt["span"]["line"]))
                    else:
                        chk.ok("C20.freeze", "%s.%s" % (name, fld["name"]), {"type": name, "field": fld["name"], "ty": fld["ty"], "status": st})
    n = 0
    for inst in cx.instances():
        for p, adt in inst.crate.adts.items():
            if not p.startswith(inst.outer + "::"):
                continue
            for v in adt["variants"]:
                for fld in v["fields"]:
                    st = common.field_freeze_status(adt, fld)
                    n += 1
                    if st == "interior" and not inst.name.startswith("test:user_defined_state") and "PhantomData" not in fld["ty"]:
                        # user-supplied extern result types are the user's business only if they come from outside
                        if fld["freeze"] is False and not common.INTERIOR.search(fld["ty"]):
                            # non-generic, non-freeze without a known interior type: look closer
                            pass
                        chk.violation("C20.freeze", "%s %s.%s" % (inst.name, last(p), fld["name"]),
                                      "generated type %s field %s: %s is not Freeze" % (last(p), fld["name"], fld["ty"]))
    chk.ok("C20.freeze", "generated ADT fields", {"fields_checked": n})
    chk.floor("C20.freeze", "generated ADT fields", n, 300)


def check_fresh(cx, chk, R="C20.fresh"):
    n = 0
    for inst in cx.instances():
        for p, f in inst.crate.fns.items():
            if "mir" not in f or last(p) != "parse_advanced" or not inst.owns_impl(p):
                continue
            if f["kind"] != "AssocFn":
                continue
            n += 1
            b = cx.body(inst.crate, p)
            tag = "%s %s" % (inst.name, mir.qself(p)[0] if mir.qself(p) else short(p))
            rule_calls = [(i, t) for i, t in b.calls() if not t["func"].get("indirect")
                          and t["func"]["path"].startswith(inst.prefix + "::parse_")]
            if len(rule_calls) != 1:
                chk.violation(R, tag + " rule-calls", "parse_advanced does not call exactly one rule function", cx.site(b))
                continue
            i, t = rule_calls[0]
            g = b.expr_op(t["args"][1])
            gs = strip(g)
            okg = is_call(gs, "new") and "ParseGlobal" in gs[1] and len(gs[2]) == 2
            if okg:
                cache, uc = norm(gs[2][0]), norm(gs[2][1])
                if not (is_call(cache, "default") and not cache[2]):
                    okg = False
                if uc != ("param", 3):
                    okg = False
            if not okg:
                chk.violation(R, tag + " global",
                              "the ParseGlobal handed to the rule is not a fresh ParseGlobal::new(Default::default(), "
                              "user_context) built in this call: %s" % mir.show(g), cx.site(b, i))
                continue
            st = norm(b.expr_op(t["args"][0]))
            if not (is_call(st, "new") and "ParseState" in st[1] and st[2][0] == ("param", 1)):
                chk.violation(R, tag + " state", "initial state is not ParseState::new(s, ..): %s" % mir.show(st), cx.site(b, i))
                continue
            chk.ok(R, tag, {"impl": tag, "global": mir.show(gs), "state": mir.show(st)})
    chk.floor(R, "parse_advanced implementations", n, 80)


ADDRESS_API = ("as_ptr", "as_mut_ptr", "align_to", "align_to_mut", "align_offset", "addr", "expose_addr", "expose_provenance", "is_aligned", "is_aligned_to",
               "as_ptr_range", "from_raw_parts", "from_exposed_addr", "with_exposed_provenance")


def check_address(cx, chk):
    """A parse is a function of the text and settings, not of where the text lies in memory: nothing reachable from generated
    parsers observes an address (pointer -> integer casts, alignment queries, `align_to` splits)."""
    rt = cx.runtime
    n = 0
    bodies = [(rt, p, "runtime") for p in c04.runtime_reachable(cx, rt)]
    for inst in cx.instances():
        bodies += [(inst.crate, p, inst.name) for p, f in inst.fns.items() if "mir" in f]
    for (crate, p, label) in bodies:
        if "Tracer" in p or "fmt::" in p:
            continue
        b = cx.body(crate, p)
        for i, t in b.calls():
            f = t["func"]
            if f.get("indirect") or t.get("fn_exp"):
                continue
            n += 1
            l = last(f["path"])
            path = mir.strip_generics(f["path"])
            if l in ADDRESS_API and (f["krate"] in ("core", "alloc", "std")) and ("ptr" in path or "slice" in path or "str" in path or "NonNull" in path):
                chk.violation("C20.address", "%s %s -> %s" % (label, short(p), short(f["path"])),
                              "%s observes where its input lies in memory (%s): the result of a parse can then depend on the address / alignment of the "
                              "text, i.e. differ between two parses of the same text" % (short(p), path), cx.site(b, i))
        for i in b.reach:
            for st in b.blocks[i]["stmts"]:
                if st["k"] == "assign" and st["rv"]["k"] == "cast" and not st.get("exp"):
                    kd = str(st["rv"].get("kind"))
                    if "PointerExpose" in kd or "PtrToInt" in kd or "PointerWithExposed" in kd or "Transmute" in kd:
                        n += 1
                        chk.violation("C20.address", "%s %s cast %s" % (label, short(p), kd.split("(")[0]),
                                      "%s turns a pointer into an integer (or transmutes): the result of a parse can then depend on an address" % short(p), cx.site(b, i))
    chk.ok("C20.address", "calls and casts scanned", {"scanned": n})
    chk.floor("C20.address", "calls scanned for address observation", n, 4000)


def check_sinks(cx, chk):
    rt = cx.runtime
    tracerish = lambda p: ("Tracer" in p or "PrettyParseError" in p or "fmt::" in p)
    n = 0

    def scan(crate, p, own_prefixes, label):
        nonlocal n
        b = cx.body(crate, p)
        for i, t in b.calls():
            f = t["func"]
            if f.get("indirect"):
                continue
            n += 1
            path = mir.strip_generics(f["path"])
            k = f["krate"]
            tag = "%s %s -> %s" % (label, short(p), short(f["path"]))
            if k in ("core", "alloc", "std"):
                if GLOBAL_STATE.match(path):
                    chk.violation("C20.sinks", tag, "call into process-global state API %s" % path, cx.site(b, i))
                elif IO.match(path) and not tracerish(p):
                    chk.violation("C20.sinks", tag, "I/O call %s outside tracer / error-display code" % path, cx.site(b, i))
            elif k == "colored":
                if not tracerish(p):
                    chk.violation("C20.sinks", tag, "terminal colouring outside tracer / error-display code", cx.site(b, i))
            elif k in ("peginator", "nohash_hasher") or any(f["path"].startswith(x) for x in own_prefixes):
                pass
            elif k == crate.name:
                pass  # user hook functions of the crate that owns the grammar (assumed pure by the property)
            else:
                chk.violation("C20.sinks", tag, "call into unexpected crate %s" % k, cx.site(b, i))
    for p in c04.runtime_reachable(cx, rt):
        scan(rt, p, ("peginator::",), "runtime")
    for inst in cx.instances():
        for p, f in inst.fns.items():
            if "mir" in f:
                scan(inst.crate, p, (inst.prefix,), inst.name)
    chk.ok("C20.sinks", "calls scanned", {"calls_scanned": n})
    chk.floor("C20.sinks", "calls scanned", n, 4000)


def run(cx, chk):
    chk.explanation = (
        "Ownership/effect argument decided structurally: no static or thread-local item exists in the runtime crate or in "
        "any generated module; no parse data type (runtime or generated) contains interior mutability; every parse_advanced "
        "builds its ParseGlobal (tracer, cache, user context) and ParseState inside the call and hands out only a borrow of "
        "that temporary; nothing reachable from generated parsers calls a process-global API (env, fs, time, thread, sync, "
        "I/O outside tracer/error display). With these, a parse reads only its arguments and writes only its own stack "
        "object, so results are schedule- and history-independent by Rust's aliasing rules.")
    chk.assumptions = ["user check/extern hooks are pure (assumed by the property)",
                       "std's HashMap / Vec / String have no observable global state"]
    check_static(cx, chk)
    check_freeze(cx, chk)
    check_fresh(cx, chk)
    check_sinks(cx, chk)
    check_address(cx, chk)
