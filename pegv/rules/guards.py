"""C15.panic / C04.panic - local proof of index guards and of `x - k` overflow checks.

For every constant-index access of the generator (`xs[0]`, as a MIR bounds assert on a slice or as `Index::index(vec, 0)`) the
path-sensitive summary of the function is asked: do the assumptions that hold before the access - the ones that talk about
the length of the same collection (`len() == 1`, `len() < 2`, `is_empty()`, ...) - exclude every length for which the index is
out of range?  The lengths 0..5 are enumerated (the guards compare with small constants).

 proved      : every length compatible with the assumptions keeps the index in range.
 open(L=n)   : length n is compatible with everything the function itself tests, and the index is out of range for it: the
               access is safe only by a fact established elsewhere (the caller, the shape of the grammar of grammars).
 None        : the function does not summarise / the site is not found.

check_panic accepts an `open` site only when its entry in the reasoned table is marked as resting on an external fact.
The same enumeration discharges the overflow check of `x - k` (k constant) when the assumptions about x before it (`x != 0`,
`x > 0`, `x >= k`) exclude every x < k."""
from .. import mir, sem
from ..mir import mk, last, walk
from . import semspec


def _strip(t):
    while isinstance(t, tuple) and t and (t[0] in ("ref", "deref") or (t[0] == "call" and last(t[1]) in ("deref", "as_slice", "as_ref", "borrow") and len(t[2]) == 1)):
        t = t[1] if t[0] in ("ref", "deref") else t[2][0]
    return t


def canon_len(t):
    if isinstance(t, mir.E):
        if t[0] == "unop" and t[1] == "PtrMetadata":
            return mk("LEN", _strip(t[2]))
        if t[0] == "call" and last(t[1]) == "len" and len(t[2]) == 1:
            return mk("LEN", _strip(t[2][0]))
        if t[0] == "call" and last(t[1]) == "is_empty" and len(t[2]) == 1:
            return mk("binop", "Eq", mk("LEN", _strip(t[2][0])), mk("const", "usize", 0))
        return mir.E([t[0]] + [canon_len(a) if isinstance(a, tuple) else a for a in t[1:]])
    if isinstance(t, tuple):
        return tuple(canon_len(a) if isinstance(a, tuple) else a for a in t)
    return t


def _wrap(t, L):
    """Occurrences of the bare variable of L = LEN(x) (overflow form: x itself is the quantity) are read as L."""
    x = L[1]
    if isinstance(t, mir.E):
        if t == L:
            return t
        if t == x:
            return L
        return mir.E([t[0]] + [_wrap(a, L) if isinstance(a, tuple) else a for a in t[1:]])
    if isinstance(t, tuple):
        return tuple(_wrap(a, L) if isinstance(a, tuple) else a for a in t)
    return t


class Guards:
    def __init__(self, cx, crate):
        self.cx, self.crate = cx, crate
        # predicates of the crate (fn .. -> bool) are looked into: a guard extracted into a helper stays a guard
        self.S = sem.Sem(cx, crate, inline=lambda p: p in crate.fns and "mir" in crate.fns[p] and crate.fns[p].get("output") == "bool"
                         and "{closure" not in p, max_leaves=4000)
        self._memo = {}

    def verdicts(self, path):
        """{bb: verdict} for the constant-index accesses of function `path`."""
        if path in self._memo:
            return self._memo[path]
        out = {}
        try:
            sm = self.S.summarize(path)
        except sem.SemLimit:
            sm = None
        if sm is not None:
            res = {}
            for l in list(sm.leaves) + list(sm.loopbacks):
                for ev in l.trace:
                    t = ev[0]
                    if t[0] == "call" and last(t[1]) == "index" and len(t[2]) == 2:
                        ix = _strip(t[2][1])
                        if ix[0] == "const" and isinstance(ix[2], int):
                            t = mk("assert", "bounds", mk("binop", "Lt", ix, mk("LEN", _strip(t[2][0]))), True)
                    if t[0] == "assert" and str(t[1]).lower().startswith("overflow") and t[2][0] == "ovf" and t[2][1].startswith("Sub"):
                        x_, k_ = _strip(t[2][2]), _strip(t[2][3])
                        if k_[0] == "const" and isinstance(k_[2], int) and x_[0] != "const":
                            # no overflow  <=>  k <= x
                            t = mk("assert", "bounds", mk("binop", "Le", k_, mk("LEN", x_)), True)
                            ev = (t, ev[1], ev[2])
                    if not (t[0] == "assert" and t[1] == "bounds"):
                        continue
                    if ev[2][0] != path:
                        continue
                    cond, want = canon_len(t[2]), t[3]
                    lens = {x for x in walk(cond) if x[0] == "LEN"}
                    if len(lens) != 1:
                        res.setdefault(ev[2][1], set()).add("unevaluable")
                        continue
                    L = lens.pop()
                    pre = [(_wrap(canon_len(a), L), v) for a, v in l.assume[:ev[1]]]
                    rel = [(a, v) for a, v in pre if any(x == L for x in walk(a))]
                    verdict = "proved"
                    # an uninterpreted call that is handed the collection and whose outcome the path depends on may be the guard
                    coll = L[1]
                    opaque_guard = any(any(x[0] in ("call", "icall") and last(x[1] if x[0] == "call" else "") not in ("len", "is_empty")
                                           and any(_strip(y) == coll for y in (x[2] if x[0] == "call" else x[2])) for x in walk(a)) for a, v in pre)
                    for n in range(0, 6):
                        env = {L: n}
                        ok = True
                        for a, v in rel:
                            r = semspec.eval_term(a, env)
                            if r is None:
                                continue
                            if isinstance(v, tuple):
                                if r in v[1]:
                                    ok = False
                            elif r != v:
                                ok = False
                        if not ok:
                            continue
                        c = semspec.eval_term(cond, env)
                        if c is None:
                            verdict = "unevaluable"
                            break
                        if c != want:
                            verdict = "unevaluable" if opaque_guard else "open(L=%d)" % n
                            break
                    res.setdefault(ev[2][1], set()).add(verdict)
            for bb, vs in res.items():
                opens = sorted(v for v in vs if v.startswith("open"))
                out[bb] = opens[0] if opens else ("unevaluable" if "unevaluable" in vs else "proved")
        self._memo[path] = out
        return out
