"""C05 — @memoize is transparent.

key   : every get/insert on a cache field uses the cache key of the rule's entry
        state; the runtime key function returns the absolute offset.
own   : a cache field is touched only by its own wrapper; nothing evicts.
value : a miss inserts a clone of exactly the value it returns; a hit returns a
        clone of exactly the stored value (whole result incl. resumed state).
fresh : every parse call starts from an empty cache (shared with C20.fresh).
frame : error payloads never steer parsing (only folded / displayed).
"""
from .. import mir
from ..mir import short, last, strip, walk, norm, is_call
from . import memo, c20

LEVEL = "other"

ERR_READERS = ("record_error", "report_error", "report_farthest_error", "fmt", "to_string", "from_parse_error",
               "print_trace_result", "clone")


def ret_value_on(b, bb_set):
    """Expressions assigned to _0 in the given blocks."""
    out = []
    for d in b.defs.get(0, []):
        if d[0] in bb_set:
            out.append((d[0], norm(b.expr_rv(d[3]) if d[2] == "rv" else b.expr_call(d[3]))))
    return out


def check_key_runtime(cx, chk):
    rt = cx.runtime
    ks = [p for p in rt.fns if mir.strip_generics(p).endswith("ParseState::cache_key")]
    if not ks:
        chk.anchor_missing("C05.key", "ParseState::cache_key")
        return
    b = cx.body(rt, ks[0])
    ds = b.defs.get(0, [])
    e = norm(b.expr_rv(ds[0][3])) if len(ds) == 1 and ds[0][2] == "rv" else None
    if e == ("field", ("param", 1), "start_index"):
        chk.ok("C05.key", "runtime cache_key", {"cache_key": mir.show(e)})
    else:
        chk.violation("C05.key", "runtime cache_key", "cache key is not the absolute offset of the state: %s"
                      % (mir.show(e) if e else "<complex>"), cx.site(b))


def check_state_origin(cx, chk, R="C05.key"):
    """The key is an absolute offset only if every state descends from the one entry state: the constructor ParseState::new
    (offset 0) is called by the entry points `parse_advanced` alone - never by rule functions, closures or runtime helpers, where
    it would restart the offsets in the middle of the input."""
    n = 0
    crates = [(cx.runtime, "runtime")] + [(i.crate, i.crate.name if hasattr(i.crate, "name") else i.name.split(":")[0]) for i in cx.instances()]
    seen = set()
    for crate, label in crates:
        if id(crate) in seen:
            continue
        seen.add(id(crate))
        for p, f in sorted(crate.fns.items()):
            if "mir" not in f:
                continue
            b = cx.body(crate, p)
            for i, t in b.calls():
                fn = t["func"]
                if fn.get("indirect") or not mir.strip_generics(fn["path"]).endswith("ParseState::new"):
                    continue
                n += 1
                owner = mir.strip_generics(p.split("::{closure")[0])
                if last(owner) in ("parse_advanced",) or owner.endswith("ParseState::new"):
                    continue
                chk.violation(R, "state-origin %s %s" % (label.split("/")[0], short(owner)),
                              "%s makes a parse state with ParseState::new: its offset restarts at 0 in the middle of the input, so cache keys "
                              "(and @position ranges, error offsets) of everything parsed from it are relative while the cache is keyed by absolute "
                              "offsets - a @memoize rule reached from there replays results of another position" % short(owner), cx.site(b, i))
    chk.ok(R, "state-origin", {"calls_of_ParseState_new": n, "rule": "only parse_advanced entry points construct the initial state"})
    chk.floor(R, "calls of ParseState::new in entry points", n, 20)


def check_global_state(cx, chk, R="C05.key"):
    """The cache is keyed by the offset alone, so what a rule returns at an offset must not depend on any other mutable state of the
    parse: ParseGlobal holds the caller-supplied tracer, cache and user context (fields whose type is a type parameter) and
    nothing that generated code or the runtime modifies while parsing (a depth counter, a mode flag, statistics that feed back)."""
    from . import common
    rt = cx.runtime
    adts = common.adt_by_suffix(rt, "global::ParseGlobal") or common.adt_by_suffix(rt, "ParseGlobal")
    if not adts:
        chk.anchor_missing(R, "struct ParseGlobal")
        return
    adt = adts[0]
    gen = set(adt.get("generics") or [])
    own = {f["name"]: f["ty"] for v in adt["variants"] for f in v["fields"] if f["ty"] not in gen}
    n = 0
    seen = set()
    crates = [(rt, "runtime")] + [(i.crate, i.name.split(":")[0]) for i in cx.instances()]
    done = set()
    for crate, label in crates:
        if id(crate) in done:
            continue
        done.add(id(crate))
        for p, f in sorted(crate.fns.items()):
            if "mir" not in f or mir.strip_generics(p).endswith("ParseGlobal::new"):
                continue
            b = cx.body(crate, p)
            for i in sorted(b.reach):
                for st in b.blocks[i]["stmts"]:
                    if st["k"] != "assign":
                        continue
                    places = [st["place"]]
                    rv = st["rv"]
                    if rv["k"] in ("ref", "rawptr") and rv.get("mut", True) and "place" in rv:
                        places.append(rv["place"])
                    for pl in places:
                        for pe in pl["p"]:
                            if pe["k"] == "field" and (pe.get("owner") or "").endswith("::ParseGlobal"):
                                n += 1
                                if pe["name"] in own and (label, pe["name"]) not in seen:
                                    seen.add((label, pe["name"]))
                                    chk.violation(R, "global-state %s ParseGlobal.%s" % (label, pe["name"]),
                                                  "%s modifies ParseGlobal.%s (%s) while parsing: state besides the cache that survives from one rule evaluation to "
                                                  "the next - what a rule returns at an offset can depend on it, but a @memoize rule replays whatever was computed "
                                                  "first at that offset" % (short(p), pe["name"], own[pe["name"]]), cx.site(b, i))
    chk.ok(R, "global-state", {"ParseGlobal_fields": sorted(f["name"] for v in adt["variants"] for f in v["fields"]), "own_state_fields": sorted(own),
                               "mutable_uses_of_ParseGlobal_fields": n})
    chk.floor(R, "mutable uses of ParseGlobal fields (cache, tracer)", n, 50)


def check_entry_wrappers(cx, chk, R="C01.entry"):
    """The friendly entry points hand their input on unchanged: on every path of `PegParser::parse` / `parse_with_trace` (and of
    the generated `parse_advanced`) the text that reaches `parse_advanced` / `ParseState::new` is the caller's own `&str`, and the
    result is returned as it comes - offsets in results and errors are offsets into the string the caller passed."""
    from .. import sem
    rt = cx.runtime
    S = sem.Sem(cx, rt, inline=lambda p_: p_ in rt.fns and "mir" in rt.fns[p_] and "peg_parser" in p_ and "{closure" not in p_ and last(p_) != "parse_advanced")
    P1 = mir.mk("param", 1)
    n = 0
    for p, f in sorted(rt.fns.items()):
        if "mir" not in f or "{closure" in p or "PegParser>::" not in p or last(p) not in ("parse", "parse_with_trace"):
            continue
        try:
            sm = S.summarize(p)
        except sem.SemLimit:
            sm = None
        tag = "wrapper %s" % last(p)
        if sm is None or not sm.complete:
            chk.violation(R, tag + " unsummarised", "the entry point %s does not summarise" % short(p), cx.site(cx.body(rt, p)))
            continue
        n += 1
        bad = None
        for l in sm.returns:
            calls = [ev[0] for ev in l.trace if ev[0][0] == "call" and last(ev[0][1]) == "parse_advanced"]
            if len(calls) != 1:
                bad = "does not call parse_advanced exactly once on a path"
            elif strip(calls[0][2][0]) != P1:
                bad = "hands %s to parse_advanced instead of its own argument" % mir.show(calls[0][2][0])[:80]
            elif l.ret != calls[0]:
                bad = "returns %s instead of the result of parse_advanced" % mir.show(l.ret)[:80]
        if bad:
            chk.violation(R, tag, "PegParser::%s %s: every offset the parser reports (positions, error offsets) then refers to another string than the one "
                          "the caller passed, and the rule is not applied at offset 0 of the input" % (last(p), bad), cx.site(cx.body(rt, p)))
        else:
            chk.ok(R, tag, {"entry": short(p), "rule": "parse_advanced(own argument, ..) called once, result returned unchanged"})
    chk.floor(R, "friendly entry points", n, 2)
    # generated parse_advanced: the state is ParseState::new(own first argument, settings)
    k = 0
    for inst in cx.instances():
        for p, f in sorted(inst.fns.items()):
            if "mir" not in f or last(mir.strip_generics(p)) != "parse_advanced" or "{closure" in p:
                continue
            b = cx.body(inst.crate, p)
            for i, t in b.calls():
                fn = t["func"]
                if fn.get("indirect") or not mir.strip_generics(fn["path"]).endswith("ParseState::new"):
                    continue
                k += 1
                a0 = strip(norm(b.expr_op(t["args"][0])))
                if a0 != ("param", 1):
                    chk.violation(R, "%s parse_advanced input" % inst.name, "a generated parse_advanced starts from ParseState::new(%s), not from its own input"
                                  % mir.show(a0)[:80], cx.site(b, i))
    chk.ok(R, "generated parse_advanced start from their own input", {"entry_points": k})


def check_wrappers(cx, chk):
    """Obligations of every cached wrapper, read off its semantic summary (wrapsem.py)."""
    from . import wrapsem
    ws = wrapsem.cached(cx)
    n = 0
    for w in ws:
        tag = w.tag
        mine = [v for v in w.viol if v[0] in ("shape", "key", "own", "value")]
        if w.ok:
            n += 1
        for (rid, detail, msg, site) in mine:
            chk.violation("C05.%s" % rid, ("%s %s" % (tag, detail)).strip(), msg, site)
        if w.ok:
            for rid in ("key", "value"):
                if not any(v[0] == rid for v in mine):
                    chk.ok("C05.%s" % rid, tag + (" hit+miss" if rid == "value" else ""), {"wrapper": tag, "paths": len(w.leaves)})
    chk.floor("C05.key", "cached wrappers", n, 4)
    # own: no function outside the rule's own function (and what is nested in it) touches the field
    for inst in cx.instances():
        fields = memo.cache_fields(inst)
        owners = {w.field: w.path for w in ws if w.inst is inst and w.ok}
        for p, f in inst.fns.items():
            if "mir" not in f:
                continue
            body = cx.body(inst.crate, p)
            for i in body.reach:
                for st in body.blocks[i]["stmts"]:
                    if st["k"] != "assign":
                        continue
                    rv = st["rv"]
                    pl = rv.get("place")
                    if pl and any(pe["k"] == "field" and pe["name"] == "cache" and (pe.get("owner") or "").endswith("ParseGlobal") for pe in pl["p"]):
                        fl = [pe["name"] for pe in pl["p"] if pe["k"] == "field"]
                        fld = fl[fl.index("cache") + 1] if fl.index("cache") + 1 < len(fl) else None
                        own = owners.get(fld)
                        if fld is None or own is None or not (p == own or p.startswith(own + "::")):
                            chk.violation("C05.own", "%s %s touches cache.%s" % (inst.name, short(p), fld),
                                          "the cache (field %s) is accessed outside that rule's wrapper" % fld, cx.site(body, i))
        if fields:
            chk.ok("C05.own", inst.name, {"instance": inst.name, "fields": fields})


def check_frame(cx, chk):
    """Error payloads are only moved, folded or displayed."""
    rt = cx.runtime
    n = 0
    for crate, fns, label in [(rt, rt.fns, "runtime")] + [(i.crate, i.fns, i.name) for i in cx.instances()]:
        for p, f in fns.items():
            if "mir" not in f:
                continue
            b = cx.body(crate, p)
            fk = last(p) if not p.endswith("}") else last(p.split("::{closure")[0])
            for i in sorted(b.reach):
                blk = b.blocks[i]
                places = []
                for st in blk["stmts"]:
                    if st["k"] == "assign":
                        rv = st["rv"]
                        if "place" in rv:
                            places.append((rv["place"], rv["k"]))
                        for key in ("op", "a", "b"):
                            o = rv.get(key)
                            if isinstance(o, dict) and "place" in o:
                                places.append((o["place"], "use"))
                        for o in rv.get("ops", []):
                            if "place" in o:
                                places.append((o["place"], "use"))
                t = blk["term"]
                if t["k"] == "switch" and "place" in t["discr"]:
                    places.append((t["discr"]["place"], "switch"))
                for (pl, how) in places:
                    for j, pe in enumerate(pl["p"]):
                        if pe["k"] != "field":
                            continue
                        own = pe.get("owner") or ""
                        if own.endswith("::ParseError") and pe["name"] in ("position", "specifics"):
                            n += 1
                            if label != "runtime" or fk not in ERR_READERS:
                                chk.violation("C05.frame", "%s %s reads ParseError.%s" % (label, short(p), pe["name"]),
                                              "error content (%s) is inspected outside the fold/display functions: "
                                              "a result could depend on error detail" % pe["name"], cx.site(b, i))
                        if own.endswith("::ParseState") and pe["name"] == "farthest_error":
                            n += 1
                            if label != "runtime" or fk not in ERR_READERS + ("new", "advance", "advance_safe"):
                                chk.violation("C05.frame", "%s %s reads farthest_error" % (label, short(p)),
                                              "the furthest-error bookkeeping is read outside the fold functions", cx.site(b, i))
                    if how == "discr" and b.ty(pl["l"]).endswith("ParseErrorSpecifics") and label != "runtime":
                        chk.violation("C05.frame", "%s %s matches on ParseErrorSpecifics" % (label, short(p)),
                                      "generated code branches on error detail", cx.site(b, i))
    chk.ok("C05.frame", "error field reads", {"error_field_reads_seen": n})
    chk.floor("C05.frame", "error field reads examined", n, 3)


def run(cx, chk):
    chk.explanation = (
        "Transparency of @memoize decided as the conjunction of structural clauses over every cached wrapper: the key of "
        "every get/insert is cache_key(entry state) and cache_key is the absolute offset; the field is private to its "
        "wrapper and never evicted; a miss stores a clone of exactly what it returns and a hit returns a clone of exactly "
        "what is stored (result and resumed state); every parse_advanced starts from Default::default() cache; error "
        "payloads are only moved/folded/displayed, so a result replayed in another context can differ only in error detail.")
    chk.assumptions = ["user hooks are side-effect free (stated in the property)",
                       "the rule is not part of a left-recursive cycle (stated in the property)"]
    check_key_runtime(cx, chk)
    # cache_key is start_index; that it is the absolute offset of the remaining input rests on the cursor invariant (shared with C04)
    from . import c04
    c04.check_cursor(cx, chk, cx.runtime, "runtime")
    if "C04.cursor" in chk.rules:
        chk.rules["C05.key.cursor"] = chk.rules.pop("C04.cursor")
    check_state_origin(cx, chk)
    check_global_state(cx, chk)
    check_wrappers(cx, chk)
    c20.check_fresh(cx, chk, "C05.fresh")
    check_frame(cx, chk)
