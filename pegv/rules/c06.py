"""C06 — a memoized rule body runs at most once per input position.

Rules (DESIGN.md §3 C06): insert (must-pass-through on every miss path),
lookup (nothing but the lookup runs before the miss edge), keep (no eviction;
cache fields touched only by their own wrapper), key (same key for get and
insert, computed from the entry state).
"""
from .. import mir
from ..mir import short, last, strip
from . import memo

LEVEL = "other"


def run(cx, chk):
    chk.explanation = (
        "Path rule over the MIR of every generated @memoize wrapper (workspace instances; corpus in thorough): "
        "from the miss edge of the cache lookup every CFG path to a normal return must pass an insert on the same "
        "cache field under the lookup key; every other call of the wrapper is dominated by the miss edge; no other "
        "function touches the field; nothing evicts. Holds for all inputs of the analysed wrappers; the wrapper "
        "template is one per rule kind x directive set.")
    ws = memo.cached_wrappers(cx)
    n_memo = 0
    for w in ws:
        tag = "%s/%s" % (w.inst.name, w.rule)
        if not w.ok:
            for p in w.problems:
                chk.violation("C06.shape", "%s %s" % (tag, p), "cached wrapper not recognised: %s" % p)
            continue
        if w.leftrec:
            continue
        n_memo += 1
        b = w.body
        # --- C06.key
        ok, why = w.key_is_entry_state()
        if ok:
            chk.ok("C06.key", tag, {"wrapper": tag, "key": mir.show(w.key)})
        else:
            chk.violation("C06.key", tag, why, cx.site(b, w.get_bb))
        # --- C06.insert
        def is_insert(i, w=w, b=b):
            t = b.blocks[i]["term"]
            if t["k"] != "call":
                return False
            for (bi, tt) in w.inserts:
                if bi == i:
                    return strip(b.expr_op(tt["args"][1])) == w.key
            return False
        good, path = b.must_pass(w.miss, is_insert)
        if good:
            chk.ok("C06.insert", tag, {"wrapper": tag, "miss_bb": w.miss,
                                        "inserts": [cx.site(b, i) for i, _ in w.inserts]})
        else:
            # identify how the path leaves: the last call on it
            leave = [short(b.blocks[i]["term"]["func"]["path"]) for i in path
                     if b.blocks[i]["term"]["k"] == "call" and not b.blocks[i]["term"]["func"].get("indirect")]
            chk.violation(
                "C06.insert", "%s exit-via=%s" % (tag, leave[-1] if leave else "?"),
                "memoized wrapper parse_%s: a path from the cache-miss edge reaches `return` without inserting "
                "the result (failures are not cached; the body is re-evaluated at this position)" % w.rule,
                cx.site(b, path[-2] if len(path) > 1 else path[-1]),
                {"path": memo.describe_path(b, path), "calls_on_path": leave})
        # --- C06.lookup : everything except the lookup itself is on the miss side or the hit side
        allowed_before = {"cache_key", "get"}
        bad = []
        for (obb, body, i, t) in w.flat.items:
            f = t["func"]
            nm = last(f["path"]) if not f.get("indirect") else "<indirect>"
            if b.dominates(w.miss, obb) or b.dominates(w.hit, obb):
                continue
            if nm in allowed_before and obb in (0, w.get_bb) or (nm == "cache_key"):
                continue
            if nm == "get" and obb == w.get_bb:
                continue
            bad.append((obb, nm))
        if bad:
            for (obb, nm) in bad:
                chk.violation("C06.lookup", "%s call=%s" % (tag, nm),
                              "call to %s is evaluated before / regardless of the cache lookup" % nm,
                              cx.site(b, obb))
        else:
            chk.ok("C06.lookup", tag)
        # hit side: only clone + tracer
        hit_blocks = b.reachable_from(w.hit)
        miss_blocks = b.reachable_from(w.miss)
        for (obb, body, i, t) in w.flat.items:
            if obb in hit_blocks and obb not in miss_blocks:
                nm = last(t["func"]["path"]) if not t["func"].get("indirect") else "<indirect>"
                if nm not in ("clone", "print_informative"):
                    chk.violation("C06.hit", "%s call=%s" % (tag, nm),
                                  "cache-hit path calls %s (the hit path must only copy the stored result)" % nm,
                                  cx.site(b, obb))
        chk.ok("C06.hit", tag)
        # --- C06.keep / own
        for (i, t) in w.other_cache_calls:
            nm = short(t["func"]["path"]) if not t["func"].get("indirect") else "<indirect>"
            chk.violation("C06.keep", "%s call=%s" % (tag, nm),
                          "cache field %s is passed to %s (only get/insert may touch it)" % (w.field, nm),
                          cx.site(b, i))
    # cache fields are touched only inside their own wrapper
    for inst in cx.instances():
        fields = memo.cache_fields(inst)
        if not fields:
            continue
        owners = {}
        for w in ws:
            if w.inst is inst and w.ok:
                owners[w.field] = w.body.path
        for p, f in inst.fns.items():
            if "mir" not in f:
                continue
            body = cx.body(inst.crate, p)
            for i in body.reach:
                for st in body.blocks[i]["stmts"]:
                    if st["k"] != "assign":
                        continue
                    fld = memo.mentions_cache_field(body.expr_rv(st["rv"]))
                    if fld and owners.get(fld) != p and "ParseCache" not in p:
                        chk.violation("C06.keep", "%s field=%s fn=%s" % (inst.name, fld, mir.short(p)),
                                      "cache field %s accessed outside its wrapper" % fld, cx.site(body, i))
        chk.ok("C06.keep", inst.name, {"instance": inst.name, "fields": fields})
    chk.floor("C06.insert", "memoized wrappers", n_memo, 2)
