"""C06 — a memoized rule body runs at most once per input position.

Rules (DESIGN.md §3 C06): insert (must-pass-through on every miss path),
lookup (nothing but the lookup runs before the miss edge), keep (no eviction;
cache fields touched only by their own wrapper), key (same key for get and
insert, computed from the entry state).
"""
from .. import mir
from ..mir import short, last, strip
from . import memo

LEVEL = "other"


def run(cx, chk):
    chk.explanation = (
        "Path rule over the MIR of every generated @memoize wrapper (workspace instances; corpus in thorough): "
        "from the miss edge of the cache lookup every CFG path to a normal return must pass an insert on the same "
        "cache field under the lookup key; every other call of the wrapper is dominated by the miss edge; no other "
        "function touches the field; nothing evicts. Holds for all inputs of the analysed wrappers; the wrapper "
        "template is one per rule kind x directive set.")
    from . import wrapsem
    ws = wrapsem.cached(cx)
    n_memo = 0
    names = {"key": "C06.key", "insert": "C06.insert", "lookup": "C06.lookup", "hit": "C06.hit", "own": "C06.keep", "shape": "C06.shape"}
    for w in ws:
        tag = w.tag
        if w.ok and w.leftrec:
            # a growing wrapper is C07's subject, except for what it does to the cache beyond its own entry (eviction of memoized results)
            for (rid, detail, msg, site) in [v for v in w.viol if v[0] == "own"]:
                chk.violation("C06.keep", ("%s %s" % (tag, detail)).strip(), msg + " - memoized results of other rules at this position may be evicted and their bodies "
                              "evaluated again", site)
            continue
        if w.ok:
            n_memo += 1
        mine = [v for v in w.viol if v[0] in names]
        for (rid, detail, msg, site) in mine:
            chk.violation(names[rid], ("%s %s" % (tag, detail)).strip(), msg, site)
        if w.ok:
            for rid in ("key", "insert", "lookup", "hit"):
                if not any(v[0] == rid for v in mine):
                    chk.ok(names[rid], tag, {"wrapper": tag, "paths": len(w.leaves)})
    # cache fields are touched only inside their own wrapper
    for inst in cx.instances():
        fields = memo.cache_fields(inst)
        if not fields:
            continue
        owners = {}
        for w in ws:
            if w.inst is inst and w.ok:
                owners[w.field] = w.path
        for p, f in inst.fns.items():
            if "mir" not in f:
                continue
            body = cx.body(inst.crate, p)
            for i in body.reach:
                for st in body.blocks[i]["stmts"]:
                    if st["k"] != "assign":
                        continue
                    fld = memo.mentions_cache_field(body.expr_rv(st["rv"]))
                    own = owners.get(fld) if fld else None
                    if fld and not (own is not None and (p == own or p.startswith(own + "::"))) and not ("ParseCache" in p and any(tr in p for tr in ("Default>::default", "Clone>::clone", "fmt::Debug>::fmt", "PartialEq>::eq"))):
                        chk.violation("C06.keep", "%s field=%s fn=%s" % (inst.name, fld, mir.short(p)),
                                      "cache field %s accessed outside its wrapper" % fld, cx.site(body, i))
        chk.ok("C06.keep", inst.name, {"instance": inst.name, "fields": fields})
    chk.floor("C06.insert", "memoized wrappers", n_memo, 2)
