"""C18 — build-script compilation and freshness (necessary structural clauses only).

order : every file-mutating call in run_on_single_file is dominated by the success of
        Grammar::from_str and of generate_code; nothing else in the crate mutates files.
key   : the up-to-date shortcut is control-dependent on equality between bytes read from
        the destination and a value that depends on the grammar text and the prefix; the
        bytes written start with that same value; the header depends on the text only
        through its parameter.
err   : every fallible step is propagated; run / run_recursively return results unchanged.
walk  : directory mode calls the same single-file routine for `.ebnf` entries and propagates.
"""
import re

from .. import mir
from ..mir import short, last, strip, walk, norm, is_call
from . import common, c16

LEVEL = "other"

FILE_MUT = re.compile(r"^std::fs::(write|remove_file|remove_dir|remove_dir_all|rename|copy|create_dir|create_dir_all|set_permissions|hard_link)$|"
                      r"^std::fs::File::(create|create_new|set_len|options)$|^std::fs::OpenOptions::|^std::io::Write::|^std::os::")


def run(cx, chk):
    chk.explanation = (
        "Freshness is a property of histories and is NOT decided. Decided are four necessary structural clauses of Compile: the "
        "only file-mutating call (fs::write) is dominated by the success edges of Grammar::from_str and generate_code, and no other "
        "function of the crate mutates files; the early `return Ok(())` is control-dependent on equality of the destination's "
        "leading bytes with a value data-dependent on both the grammar text and the prefix, and the written bytes start with that "
        "same value; all fallible steps are `?`-propagated; directory mode calls the same routine for .ebnf entries and propagates.")
    chk.assumptions = ["histories other than the shortened-prefix one (CRC collisions, settings not part of the key) are outside this family's reach",
                       "the optional rustfmt child process rewrites the destination after a successful write"]
    from .. import sem
    cg = cx.codegen
    ps = [p for p in cg.fns if last(p) == "run_on_single_file" and "mir" in cg.fns[p]]
    if not ps:
        chk.anchor_missing("C18.order", "Compile::run_on_single_file")
        return
    b = cx.body(cg, ps[0])
    # the routine with its private helpers inlined (an extracted `is_up_to_date` / `write_output` reads like inline code)
    local = lambda q: q in cg.fns and "mir" in cg.fns[q] and "{closure" not in q and "::grammar::generated::" not in q \
        and "Codegen" not in q and last(q) not in ("generate_code", "generate_source_header", "from_str", "parse") and "buildscript" in q
    S = sem.Sem(cx, cg, inline=local, max_leaves=4000)
    try:
        sm = S.summarize(ps[0])
    except sem.SemLimit as ex:
        chk.violation("C18.order", "unsummarised", "run_on_single_file could not be summarised: %s" % ex, cx.site(b))
        return
    leaves = [l for l in sm.leaves if l.kind == "return"]

    def is_parse(t):
        return t[0] == "call" and last(t[1]) in ("from_str", "parse", "parse_with_trace") and ("Grammar" in (t[3] or "") or "FromStr" in t[1] or "PegParser" in t[1] or "str" in t[1])

    def is_gen(t):
        return t[0] == "call" and last(t[1]) == "generate_code" and "CodegenGrammar" in t[1]

    def is_mut(t):
        return t[0] == "call" and FILE_MUT.match(mir.strip_generics(t[1]))

    def succeeded(leaf, t):
        k = leaf.facts.get(mir.mk("discr", t))
        return k == 0
    # ---- order
    n_mut = 0
    mut_fns = set()
    probs = set()
    for leaf in leaves:
        parsed = generated = None
        for ev in leaf.trace:
            t = ev[0]
            if is_parse(t):
                parsed = t
            elif is_gen(t):
                generated = t
            elif is_mut(t):
                n_mut += 1
                mut_fns.add(ev[2][0])
                a_ = parsed is not None and succeeded(leaf, parsed)
                g_ = generated is not None and succeeded(leaf, generated)
                if not (a_ and g_):
                    probs.add((short(t[1]), "parse" if not a_ else "codegen"))
    if n_mut == 0:
        chk.violation("C18.order", "no-write", "run_on_single_file never writes the destination", cx.site(b))
    for (path, what) in sorted(probs):
        chk.violation("C18.order", "%s before %s" % (path, what),
                      "the destination is modified (%s) on a path where %s has not succeeded yet: a failing run can leave a new, "
                      "truncated or header-only destination behind (which the up-to-date shortcut then accepts)" % (
                          path, "parsing the grammar" if what == "parse" else "code generation"), cx.site(b))
    if n_mut and not probs:
        chk.ok("C18.order", "file mutations in run_on_single_file", {"mutating_events": n_mut, "dominated_by": ["Grammar::from_str ok", "generate_code ok"], "paths": len(leaves)})
    # nothing else in the crate mutates files
    for p, ob in c16.generator_bodies(cx):
        if p in mut_fns or p == ps[0] or "::grammar::generated::" in p:
            continue
        for i, t in ob.calls():
            f = t["func"]
            if f.get("indirect"):
                continue
            path = mir.strip_generics(f["path"])
            if FILE_MUT.match(path):
                chk.violation("C18.order", "%s mutates files" % short(p), "%s calls %s" % (short(p), path), cx.site(ob, i))
    # ---- the destination is replaced as a whole: what it holds afterwards depends on this run only (not on what it held before)
    for l in leaves:
        for ev in l.trace:
            t = ev[0]
            if t[0] == "call" and last(t[1]) == "open" and "OpenOptions" in t[1] and t[2]:
                chain = [last(x[1]) + ":" + (mir.show(x[2][1])[:12] if len(x[2]) > 1 else "") for x in walk(t[2][0]) if x[0] == "call" and "OpenOptions" in x[1]]
                writes = any(c.startswith(("write:const(True", "append:const(True", "create:const(True")) for c in chain)
                whole = any(c.startswith(("truncate:const(True", "create_new:const(True")) for c in chain)
                if writes and not whole:
                    chk.violation("C18.order", "destination opened for writing without truncation",
                                  "run_on_single_file opens a file for writing with OpenOptions (%s) but without truncate(true): when the new output is shorter "
                                  "than what the destination held, the tail of the old file survives - the build-script route then emits bytes that depend on "
                                  "the destination's previous content" % ", ".join(c.split(":")[0] for c in chain), cx.site(b))
                    break
    # ---- key: the paths that return Ok without generating anything
    early = [l for l in leaves if l.ret is not None and l.ret[0] == "agg" and l.ret[2] == "Ok" and not any(is_gen(ev[0]) for ev in l.trace)]
    # reads of the destination itself (same path term as the mutating call's) are the shortcut's side, not "the grammar text"
    def _core(t_):
        while t_[0] == "call" and last(t_[1]) in ("must_use", "deref", "as_ref", "borrow", "clone", "as_path", "as_os_str", "to_owned", "to_path_buf") and t_[2]:
            t_ = t_[2][0]
        return t_
    dest_terms = {_core(ev[0][2][0]) for l in leaves for ev in l.trace if is_mut(ev[0]) and ev[0][2]}
    is_dest_read = lambda t_: t_[0] == "call" and last(t_[1]) in ("read_to_string", "read") and "fs::" in t_[1] and t_[2] and _core(t_[2][0]) in dest_terms
    texts = {ev[0] for l in leaves for ev in l.trace if ev[0][0] == "call" and last(ev[0][1]) == "read_to_string" and "fs::" in ev[0][1] and not is_dest_read(ev[0])}
    keyv = None
    if not early or len(texts) != 1:
        chk.violation("C18.key", "shape", "cannot identify the up-to-date shortcut (%d early Ok paths, %d reads of the grammar)" % (len(early), len(texts)), cx.site(b))
    else:
        TEXT = list(texts)[0]
        good_all = True
        lossy = []
        TRANSPARENT = ("must_use", "deref", "as_str", "as_ref", "borrow", "as_bytes", "as_slice", "clone", "to_owned", "to_string", "into_bytes", "into_iter", "bytes", "chars", "iter")
        LOSSY = ("split_whitespace", "split_ascii_whitespace", "trim", "trim_end", "trim_start", "trim_matches", "trim_end_matches", "trim_start_matches", "lines", "to_lowercase",
                 "to_uppercase", "to_ascii_lowercase", "to_ascii_uppercase", "split", "filter", "replace", "words", "skip", "skip_while", "take_while", "step_by")
        shown = []
        for l in early:
            good = False
            for (a_, v_) in l.assume:
                if a_[0] == "call" and last(a_[1]) in ("eq", "ne", "starts_with") and len(a_[2]) == 2 and v_ is (last(a_[1]) != "ne"):
                    shown.append(mir.show(a_)[:160])
                    for x, y in ((a_[2][0], a_[2][1]), (a_[2][1], a_[2][0])):
                        dep_text = any(s_ == TEXT for s_ in walk(x))
                        dep_prefix = any(s_[0] == "field" and s_[2] == "prefix" for s_ in walk(x))
                        from_dest = any(s_[0] == "call" and last(s_[1]) in ("read_to_string", "read_to_end", "read", "read_exact") and
                                        any(is_call(z, "open") or (z[0] == "call" and last(z[1]) in ("read_to_string", "read") and "fs::" in z[1] and z != TEXT) for z in walk(s_)) for s_ in walk(y)) \
                            or any(s_[0] == "call" and last(s_[1]) in ("read_to_string", "read") and "fs::" in s_[1] and s_ != TEXT for s_ in walk(y))
                        if dep_text and dep_prefix and from_dest:
                            good = True
                            keyv = x
                            for side in (x, y):
                                c_ = side
                                while c_[0] == "call" and c_[2] and last(c_[1]) in TRANSPARENT:
                                    c_ = c_[2][0]
                                if c_[0] == "call" and last(c_[1]) in LOSSY:
                                    lossy.append(last(c_[1]))
            if not good:
                good_all = False
        if lossy:
            chk.violation("C18.key", "lossy comparison", "the shortcut compares a *view* of the destination / of the expected header and prefix (%s), not the bytes: "
                          "a change of the grammar's header or of the prefix that the view drops (amount of whitespace - also inside a string literal of the prefix -, "
                          "case, trimmed ends) is taken for up to date and the stale destination survives a successful run" % ", ".join(sorted(set(lossy))), cx.site(b))
        if good_all:
            chk.ok("C18.key", "shortcut", {"skip_when": "destination bytes == f(grammar text, prefix)", "key": mir.show(keyv)[:200], "early_paths": len(early)})
        else:
            chk.violation("C18.key", "shortcut-condition", "the early `return Ok(())` is not control-dependent on equality between the destination's "
                          "bytes and a value that depends on both the grammar text and the prefix: %s" % shown[:2], cx.site(b))
        # the compared span is delimited: the shortcut looks at the first len(key) bytes only, so a key that *ends* in caller-controlled
        # text of free length (the prefix) with no length / digest of it earlier in the key cannot tell "prefix P" from "prefix P + more":
        # after the prefix option is shortened to a proper prefix of the old one the old destination still starts with the new key
        if good_all and keyv is not None:
            from . import c11sem as _c11
            tp = _c11.template_of(keyv)
            fl = _c11.flatten(*tp) if tp else None
            bounded = any(a_[0] == "call" and last(a_[1]) == "starts_with" for l in early for (a_, v_) in l.assume) or \
                any(s_[0] == "call" and last(s_[1]) == "take" and len(s_[2]) == 2 and any(z[0] == "call" and last(z[1]) == "len" for z in walk(s_[2][1]))
                    for l in early for (a_, v_) in l.assume for s_ in walk(a_))
            if fl and bounded and fl[-1][0] == "ph":
                is_pref = lambda t_: any(z[0] == "field" and z[2] == "prefix" for z in walk(t_))
                last_is_prefix = is_pref(fl[-1][2]) and not any(z[0] == "call" and last(z[1]) not in ("deref", "as_str", "as_ref", "borrow", "clone", "to_owned", "to_string", "must_use")
                                                                 for z in walk(fl[-1][2]))
                earlier_dep = any(p_[0] == "ph" and is_pref(p_[2]) for p_ in fl[:-1])
                if last_is_prefix and not earlier_dep:
                    chk.violation("C18.key", "prefix not delimited",
                                  "the shortcut compares only the first len(header + prefix) bytes of the destination and the key ends with the raw prefix text: "
                                  "when the prefix option is changed to a proper prefix of the old one (e.g. to empty) the old destination still starts with the "
                                  "new key, the run returns Ok and the stale prefix stays in the file (history: run with prefix \"use a;\\nuse b;\\n\", run with "
                                  "prefix \"use a;\\n\")", cx.site(b))
                else:
                    chk.ok("C18.key", "prefix-delimited", {"last_component_is_raw_prefix": last_is_prefix, "earlier_component_depends_on_prefix": earlier_dep})
        # what is written starts with (contains, built first) the key
        if good_all and keyv is not None:
            key_core = keyv
            while key_core[0] == "call" and last(key_core[1]) in ("must_use", "deref", "as_str", "as_ref", "borrow", "as_bytes", "as_slice", "clone", "to_owned", "to_string", "into_bytes") and key_core[2]:
                key_core = key_core[2][0]
            okw = False
            for l in leaves:
                for ev in l.trace:
                    t = ev[0]
                    if is_mut(t) and len(t[2]) >= 2 and any(s_ == key_core for s_ in walk(t[2][1])):
                        okw = True
            if okw:
                chk.ok("C18.key", "written-prefix", {"written": "the destination content is built from the same key value"})
            else:
                chk.violation("C18.key", "written-prefix", "the bytes written to the destination do not start with the value the shortcut compares against", cx.site(b))
    hp = [p for p in cg.fns if last(p) == "generate_source_header" and "mir" in cg.fns[p]]
    if hp:
        hb = cx.body(cg, hp[0])
        uses_param = any(any(s_ == ("param", 1) for s_ in walk(norm(hb.expr_op(a)))) for _, t in hb.calls() for a in t["args"])
        if uses_param:
            chk.ok("C18.key", "header", {"header_depends_on": "its parameter (the grammar text) + compile-time constants"})
        else:
            chk.violation("C18.key", "header ignores text", "generate_source_header does not depend on the grammar text", cx.site(hb))
        # the digest covers the whole text: a checksum over a *view* of the text (its lines, a trimmed / filtered / normalised copy)
        # is blind to the bytes the view drops, and an edit of just those bytes is skipped by the shortcut
        from .. import sem as _sem
        try:
            hsm = _sem.Sem(cx, cg, inline=lambda p_: False).summarize(hp[0])
        except _sem.SemLimit:
            hsm = None
        P1 = mir.mk("param", 1)
        WHOLE = lambda t: t == P1 or (t[0] == "call" and last(t[1]) in ("as_bytes", "bytes", "as_ref", "as_str", "deref", "borrow") and len(t[2]) == 1 and WHOLE(t[2][0])) \
            or (t[0] in ("ref", "deref") and WHOLE(t[1]))
        digests = []
        if hsm is not None:
            for l in list(hsm.leaves) + list(hsm.loopbacks):
                for ev in l.trace:
                    t = ev[0]
                    if t[0] == "call" and last(t[1]) in ("checksum", "update", "write", "hash", "digest") and len(t[2]) >= 2 and \
                            any(x_ in t[1].lower() for x_ in ("crc", "digest", "hash", "table")):
                        digests.append((t, l.kind))
        if not digests:
            chk.note("C18.key: no checksum / hash call recognised in generate_source_header - coverage of the text by the header is not decided")
        else:
            bad = [(t, k) for (t, k) in digests if not WHOLE(t[2][-1]) or k != "return"]
            if bad:
                t, k = bad[0]
                chk.violation("C18.key", "header digest is partial",
                              "the header's checksum is fed %s%s, not the whole grammar text: bytes the view leaves out (line breaks, trimmed or filtered "
                              "characters) do not change the header, so an edit of only those bytes - which can change the meaning of the grammar, e.g. a "
                              "line break after a `#` comment - is taken for 'up to date' and the old output is kept"
                              % (mir.show(t[2][-1])[:100], " piecewise in a loop" if k != "return" else ""), cx.site(hb))
            else:
                chk.ok("C18.key", "header digest", {"covers": "the whole grammar text (as_bytes of the parameter)", "digest_calls": len(digests)})
    # ---- err: every fallible step is propagated: a path on which it failed returns that failure
    FALLIBLE = lambda t: t[0] == "call" and ((last(t[1]) == "read_to_string" and "fs::" in t[1]) or is_parse(t) or is_gen(t) or is_mut(t) or (last(t[1]) in ("status", "output", "spawn") and "Command" in t[1]))
    n = 0
    seen = {}
    for l in leaves:
        for ev in l.trace:
            t = ev[0]
            if not FALLIBLE(t) or is_dest_read(t):
                continue
            k = l.facts.get(mir.mk("discr", t))
            st_ = seen.setdefault(short(t[1]), {"examined": False, "dropped": False})
            if k is not None:
                st_["examined"] = True
            if k == 1 and not (l.ret is not None and l.ret[0] == "agg" and l.ret[2] == "Err"):
                st_["dropped"] = True
    for nm, st_ in sorted(seen.items()):
        n += 1
        if st_["examined"] and not st_["dropped"]:
            chk.ok("C18.err", "%s propagated" % nm)
        else:
            chk.violation("C18.err", "%s not propagated" % nm, "the result of %s is not `?`-propagated (%s)" % (nm, "a failure continues to a success return" if st_["dropped"] else "never examined"), cx.site(b))
    chk.floor("C18.err", "fallible steps", n, 4)
    # ---- walk
    rp = [p for p in cg.fns if last(p) == "run_recursively" and "mir" in cg.fns[p] and not p.endswith("}")]
    if not rp:
        chk.anchor_missing("C18.walk", "Compile::run_recursively")
    else:
        rb = cx.body(cg, rp[0])
        single = [(i, t) for i, t in rb.calls() if not t["func"].get("indirect") and last(t["func"]["path"]) == "run_on_single_file"]
        ext = any(any(s_ == ("const", "str", "ebnf") for s_ in walk(e)) for i in rb.reach for (e, v, d) in rb.atoms(i))
        rets = [norm(rb.expr_call(d[3])) if d[2] == "call" else norm(rb.expr_rv(d[3])) for d in rb.defs.get(0, [])]
        prop = any(is_call(r, "run_on_single_file") for r in rets) and any(is_call(r, "try_for_each") or is_call(r, "from_residual") for r in rets)
        if not (single and ext and prop):
            # the same three facts read off the semantic summary (closures of modelled combinators inlined; loops as trips)
            from .. import sem as _sem
            try:
                rsm = _sem.Sem(cx, cg, inline=lambda p_: False, max_leaves=2000).summarize(rp[0])
            except _sem.SemLimit:
                rsm = None
            if rsm is not None:
                allv = list(rsm.leaves) + list(rsm.loopbacks)
                has_ebnf = lambda t_: any(s_ == ("const", "str", "ebnf") for s_ in walk(t_))
                s_single = s_ext = s_prop_file = s_prop_dir = False
                for l in allv:
                    for ev in l.trace:
                        t_ = ev[0]
                        if t_[0] == "call" and last(t_[1]) == "run_on_single_file" and len(t_[2]) == 3:
                            s_single = any(is_call(x_, "with_extension") for x_ in walk(t_[2][2]))
                            if any(has_ebnf(a_) for (a_, _) in l.assume[:ev[1]]):
                                s_ext = True
                            if l.kind == "return" and l.ret is not None and any(x_ == t_ for x_ in walk(l.ret)):
                                s_prop_file = True
                        if t_[0] == "call" and last(t_[1]) in ("try_for_each", "try_fold") and l.kind == "return" and l.ret is not None and any(x_ == t_ for x_ in walk(l.ret)):
                            s_prop_dir = True
                    for (a_, v_) in l.assume:
                        if a_[0] == "discr" and is_call(a_[1], "run_recursively") and v_ == 1 and l.kind == "return" and l.ret is not None and l.ret[0] == "agg" and l.ret[2] == "Err":
                            s_prop_dir = True
                single, ext, prop = single or s_single, ext or s_ext, prop or (s_prop_file and s_prop_dir)
        # directory mode derives every destination from the file's own path: nothing reachable from run_recursively reads the
        # explicit destination, which is documented as "only used if running on a single file"
        reach = set()
        work = [rp[0]]
        while work:
            q = work.pop()
            if q in reach or q not in cg.fns or "mir" not in cg.fns[q]:
                continue
            reach.add(q)
            qb = cx.body(cg, q)
            for _, t_ in qb.calls():
                fq = t_["func"]
                if not fq.get("indirect"):
                    tq = fq.get("resolved") or fq["path"]
                    if tq in cg.fns and "buildscript" in tq:
                        work.append(tq)
            for q2 in cg.fns:
                if q2.startswith(q + "::{closure"):
                    work.append(q2)
        import json as _json
        for q in sorted(reach):
            qb = cx.body(cg, q)
            for i in sorted(qb.reach):
                if '"name": "destination_path"' in _json.dumps(qb.blocks[i]):
                    chk.violation("C18.walk", "directory mode reads destination_path in %s" % short(q),
                                  "%s is reachable from run_recursively and reads the explicit destination: in directory mode every grammar is then checked "
                                  "against and written to that one file - the sibling .rs files are never created or refreshed although run() returns Ok" % short(q),
                                  cx.site(qb, i))
                    break
        if single and ext and prop:
            chk.ok("C18.walk", "run_recursively", {"per_file": "run_on_single_file(source, source.with_extension(\"rs\"))", "filter": "extension == \"ebnf\"", "errors": "propagated (try_for_each / ?)"})
        else:
            chk.violation("C18.walk", "run_recursively", "directory mode does not call the single-file routine for .ebnf entries and propagate its result (single=%s ext=%s prop=%s)" % (bool(single), ext, prop), cx.site(rb))
