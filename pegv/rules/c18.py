"""C18 — build-script compilation and freshness (necessary structural clauses only).

order : every file-mutating call in run_on_single_file is dominated by the success of
        Grammar::from_str and of generate_code; nothing else in the crate mutates files.
key   : the up-to-date shortcut is control-dependent on equality between bytes read from
        the destination and a value that depends on the grammar text and the prefix; the
        bytes written start with that same value; the header depends on the text only
        through its parameter.
err   : every fallible step is propagated; run / run_recursively return results unchanged.
walk  : directory mode calls the same single-file routine for `.ebnf` entries and propagates.
"""
import re

from .. import mir
from ..mir import short, last, strip, walk, norm, is_call
from . import common, c16

LEVEL = "other"

FILE_MUT = re.compile(r"^std::fs::(write|remove_file|remove_dir|remove_dir_all|rename|copy|create_dir|create_dir_all|set_permissions|hard_link)$|"
                      r"^std::fs::File::(create|create_new|set_len|options)$|^std::fs::OpenOptions::|^std::io::Write::|^std::os::")


def run(cx, chk):
    chk.explanation = (
        "Freshness is a property of histories and is NOT decided. Decided are four necessary structural clauses of Compile: the "
        "only file-mutating call (fs::write) is dominated by the success edges of Grammar::from_str and generate_code, and no other "
        "function of the crate mutates files; the early `return Ok(())` is control-dependent on equality of the destination's "
        "leading bytes with a value data-dependent on both the grammar text and the prefix, and the written bytes start with that "
        "same value; all fallible steps are `?`-propagated; directory mode calls the same routine for .ebnf entries and propagates.")
    chk.assumptions = ["histories (stale prefix, CRC collisions, settings not part of the key) are outside this family's reach",
                       "the optional rustfmt child process rewrites the destination after a successful write"]
    cg = cx.codegen
    ps = [p for p in cg.fns if last(p) == "run_on_single_file" and "mir" in cg.fns[p]]
    if not ps:
        chk.anchor_missing("C18.order", "Compile::run_on_single_file")
        return
    b = cx.body(cg, ps[0])
    # ---- order
    from_str = [(i, t) for i, t in b.calls() if not t["func"].get("indirect") and last(t["func"]["path"]) in ("from_str", "parse") and ("Grammar" in (t["func"].get("resolved") or "") or "FromStr" in t["func"]["path"] or "PegParser" in t["func"]["path"])]
    gen = [(i, t) for i, t in b.calls() if not t["func"].get("indirect") and last(t["func"]["path"]) == "generate_code" and "CodegenGrammar" in t["func"]["path"]]
    if len(from_str) != 1 or len(gen) != 1:
        chk.violation("C18.order", "shape", "run_on_single_file does not parse and generate exactly once (%d/%d)" % (len(from_str), len(gen)), cx.site(b))
        return
    muts = []
    for i, t in b.calls():
        f = t["func"]
        if f.get("indirect"):
            continue
        path = mir.strip_generics(f["path"])
        if FILE_MUT.match(path):
            muts.append((i, t, path))
    if not muts:
        chk.violation("C18.order", "no-write", "run_on_single_file never writes the destination", cx.site(b))

    def success_dominates(call_bb, site):
        """site is dominated by the Continue/Ok edge of the `?` applied to the result of the call at call_bb."""
        for (e, v, d) in b.atoms(site):
            if e[0] == "discr" and v == 0:
                inner = e[1]
                for s_ in walk(inner):
                    if s_[0] == "call" and norm(b.expr_call(b.blocks[call_bb]["term"])) == s_:
                        return True
        return False
    for (i, t, path) in muts:
        tag = "%s@%s" % (short(path), "run_on_single_file")
        a = success_dominates(from_str[0][0], i)
        g = success_dominates(gen[0][0], i)
        if a and g:
            chk.ok("C18.order", tag, {"mutation": path, "dominated_by": ["Grammar::from_str ok", "generate_code ok"]})
        else:
            chk.violation("C18.order", "%s before %s" % (short(path), "parse" if not a else "codegen"),
                          "the destination is modified (%s) on a path where %s has not succeeded yet: a failing run can leave a new, "
                          "truncated or header-only destination behind (which the up-to-date shortcut then accepts)" % (
                              path, "parsing the grammar" if not a else "code generation"), cx.site(b, i))
    # nothing else in the crate mutates files
    for p, ob in c16.generator_bodies(cx):
        if p == ps[0] or "::grammar::generated::" in p:
            continue
        for i, t in ob.calls():
            f = t["func"]
            if f.get("indirect"):
                continue
            path = mir.strip_generics(f["path"])
            if FILE_MUT.match(path):
                chk.violation("C18.order", "%s mutates files" % short(p), "%s calls %s" % (short(p), path), cx.site(ob, i))
    # ---- key
    early = [d for d in b.defs.get(0, []) if d[2] == "rv" and norm(b.expr_rv(d[3]))[0] == "agg" and norm(b.expr_rv(d[3]))[2] == "Ok"
             and not any(b.dominates(x[0], d[0]) for x in gen)]
    text_read = [(i, t) for i, t in b.calls() if not t["func"].get("indirect") and last(t["func"]["path"]) == "read_to_string" and "fs" in t["func"]["path"]]
    if len(early) != 1 or len(text_read) != 1:
        chk.violation("C18.key", "shape", "cannot identify the up-to-date shortcut (%d early Ok returns, %d reads of the grammar)" % (len(early), len(text_read)), cx.site(b))
    else:
        eb = early[0][0]
        eqs = [(e, v) for (e, v, d) in b.atoms(eb) if is_call(e, "eq") and v is True]
        TEXT = norm(b.expr_call(text_read[0][1]))
        good = False
        keyv = None
        for (e, v) in eqs:
            for x, y in ((e[2][0], e[2][1]), (e[2][1], e[2][0])):
                dep_text = any(s_ == TEXT for s_ in b.walk_deep(x))
                dep_prefix = any(s_[0] == "field" and s_[2] == "prefix" for s_ in b.walk_deep(x))
                from . import templates
                from_dest = any(
                    last(tt["func"]["path"]) == "read_to_string" and "Read" in tt["func"]["path"]
                    and (templates.ref_target(b, tt["args"][1]) == y or norm(b.expr_local(templates.ref_target(b, tt["args"][1])[1])) == y
                         if templates.ref_target(b, tt["args"][1])[0] == "local" else False)
                    for _, tt in b.calls() if not tt["func"].get("indirect") and len(tt["args"]) > 1)
                if dep_text and dep_prefix and from_dest:
                    good = True
                    keyv = x
        if good:
            chk.ok("C18.key", "shortcut", {"skip_when": "destination bytes == f(grammar text, prefix)", "key": mir.show(keyv)[:200]})
        else:
            chk.violation("C18.key", "shortcut-condition", "the early `return Ok(())` is not control-dependent on equality between the destination's "
                          "bytes and a value that depends on both the grammar text and the prefix: %s" % [mir.show(e)[:160] for e, v in eqs], cx.site(b, eb))
        # what is written starts with the key
        if good:
            okw = False
            for (i, t, path) in muts:
                if len(t["args"]) >= 2:
                    w = norm(b.expr_op(t["args"][1]))
                    for s_ in b.walk_deep(w):
                        if s_[0] == "tuple" and s_[1] and s_[1][0] == keyv:
                            okw = True
                        if is_call(s_, "new_display") and s_[2][0] == keyv:
                            okw = True
            if okw:
                chk.ok("C18.key", "written-prefix", {"written": "format!(\"{key}\\n{code}\") with the same key value"})
            else:
                chk.violation("C18.key", "written-prefix", "the bytes written to the destination do not start with the value the shortcut compares against", cx.site(b))
    hp = [p for p in cg.fns if last(p) == "generate_source_header" and "mir" in cg.fns[p]]
    if hp:
        hb = cx.body(cg, hp[0])
        uses_param = any(any(s_ == ("param", 1) for s_ in walk(norm(hb.expr_op(a)))) for _, t in hb.calls() for a in t["args"])
        if uses_param:
            chk.ok("C18.key", "header", {"header_depends_on": "its parameter (the grammar text) + compile-time constants"})
        else:
            chk.violation("C18.key", "header ignores text", "generate_source_header does not depend on the grammar text", cx.site(hb))
    # ---- err: every fallible call result is ?-propagated (or matched)
    n = 0
    for i, t in b.calls():
        f = t["func"]
        if f.get("indirect"):
            continue
        ty = b.ty(t["dest"]["l"]) if not t["dest"]["p"] else ""
        if not ty.startswith("std::result::Result<") or last(f["path"]) in ("branch", "from_residual", "map_err"):
            continue
        if last(f["path"]) in ("read_to_string",) and "Read" in f["path"]:
            continue      # reading the old destination: failure simply disables the shortcut
        if last(f["path"]) == "open" and "File" in f["path"]:
            continue      # a missing destination is the normal first-run case
        n += 1
        dest = t["dest"]["l"]
        propagated = False
        for j, tt in b.calls():
            if not tt["func"].get("indirect") and last(tt["func"]["path"]) in ("branch", "map_err") and tt["args"] and "place" in tt["args"][0] and tt["args"][0]["place"]["l"] == dest:
                propagated = True
        if propagated:
            chk.ok("C18.err", "%s propagated" % short(f["path"]))
        else:
            chk.violation("C18.err", "%s not propagated" % short(f["path"]), "the result of %s is not `?`-propagated" % short(f["path"]), cx.site(b, i))
    chk.floor("C18.err", "fallible steps", n, 4)
    # ---- walk
    rp = [p for p in cg.fns if last(p) == "run_recursively" and "mir" in cg.fns[p] and not p.endswith("}")]
    if not rp:
        chk.anchor_missing("C18.walk", "Compile::run_recursively")
    else:
        rb = cx.body(cg, rp[0])
        single = [(i, t) for i, t in rb.calls() if not t["func"].get("indirect") and last(t["func"]["path"]) == "run_on_single_file"]
        ext = any(any(s_ == ("const", "str", "ebnf") for s_ in walk(e)) for i in rb.reach for (e, v, d) in rb.atoms(i))
        rets = [norm(rb.expr_call(d[3])) if d[2] == "call" else norm(rb.expr_rv(d[3])) for d in rb.defs.get(0, [])]
        prop = any(is_call(r, "run_on_single_file") for r in rets) and any(is_call(r, "try_for_each") or is_call(r, "from_residual") for r in rets)
        if single and ext and prop:
            chk.ok("C18.walk", "run_recursively", {"per_file": "run_on_single_file(source, source.with_extension(\"rs\"))", "filter": "extension == \"ebnf\"", "errors": "propagated (try_for_each / ?)"})
        else:
            chk.violation("C18.walk", "run_recursively", "directory mode does not call the single-file routine for .ebnf entries and propagate its result (single=%s ext=%s prop=%s)" % (bool(single), ext, prop), cx.site(rb))
