"""C17 — the bootstrapped front end is what the generator produces.

The literal fixpoint (regenerate, rebuild, regenerate: same bytes) needs the generator to run twice and is not a static
question.  Decided instead:
crc   : the shipped parser was generated from today's grammar.ebnf (header CRC) - shared with C12.crc.
front : the shipped parser denotes grammar.ebnf (every rule function lifts to the term its rule denotes) - C12.front.
regen : grammar.ebnf is part of the corpus, so the build step produces the tree's own stage-2 front end as a SOURCE file
        (never executed); its lifted terms and declared types must equal those of the shipped generated.rs.  Equal normal
        forms mean both front ends read every grammar text - valid or not - to the same structure or the same failure.
"""
from .. import mir
from . import c12, lift_rules

LEVEL = "translation_validation"


def run(cx, chk):
    chk.explanation = (
        "Static translation validation of the bootstrap: (crc) header CRC of generated.rs equals CRC-32 of grammar.ebnf; (front) all "
        "rule functions of the shipped front end are lifted from MIR and equal the terms grammar.ebnf denotes; (regen) the stage-2 "
        "front end produced by the tree's own generator from grammar.ebnf (a source file in the corpus crate, type-checked, never "
        "run) lifts to exactly the same terms and declares exactly the same types as the shipped one. Byte-identical regeneration "
        "and stage 3 are not decided.")
    chk.assumptions = ["terminal matcher contracts and combinator axioms (C01.prim / C01.ax)", "byte identity of regenerated code is not decided"]
    c12.check_crc(cx, chk)
    if "C12.crc" in chk.rules:
        chk.rules["C17.crc"] = chk.rules.pop("C12.crc")
    lift_rules.check_tv(cx, chk, "C17.front", only=("bootstrap",), floor=50)
    lift_rules.check_tv(cx, chk, "C17.stage2", only=("corpus:self_grammar",), floor=50)
    lift_rules.check_twin(cx, chk, "C17.regen", "bootstrap", "corpus:self_grammar", "shipped vs regenerated front end", floor=50)
    chk.extra["samples_note"] = "each sample is one rule of grammar.ebnf with the term both front ends denote"
