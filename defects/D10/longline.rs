// Demonstration for D10 (C11): copy to runtime/tests/longline.rs and run
//   cargo test --offline -p peginator --no-default-features --test longline
// Before afc926e: panics "Formatting argument out of range" at runtime/src/error.rs for p >= 65535; after: passes.
use peginator::{ParseError, ParseErrorSpecifics, PrettyParseError};
#[test]
fn long_line() {
    let text = "a".repeat(70000);
    for p in [65534usize, 65535, 65536, 70000] {
        let e = ParseError { position: p, specifics: ParseErrorSpecifics::ExpectedEoi };
        let s = format!("{}", PrettyParseError::from_parse_error(&e, &text, None));
        let caret = s.lines().nth(4).unwrap();
        assert_eq!(caret.chars().count(), " |  ".len() + p + 1);
        assert!(caret.ends_with('^'));
    }
}
