// D4 demonstration: PrettyParseError::from_parse_error panics on the empty text.
use peginator::{ParseError, ParseErrorSpecifics, PrettyParseError};

#[test]
fn empty_text_does_not_panic() {
    let err = ParseError { position: 0, specifics: ParseErrorSpecifics::ExpectedAnyCharacter };
    let p = PrettyParseError::from_parse_error(&err, "", None);
    let s = format!("{p}");
    assert!(s.contains("Line 1 character 1"), "{s}");
    let p = PrettyParseError::from_parse_error(&err, "", Some("g.ebnf"));
    assert!(format!("{p}").contains("g.ebnf:1:1"));
}
