// Demonstration for D8 (C11): copy to runtime/tests/pretty_probe.rs and run
//   cargo test --offline -p peginator --no-default-features --test pretty_probe
// Before 266b2d5 it prints 16 wrong (text, position) pairs among the 8 small texts; after it, none.
use peginator::{ParseError, ParseErrorSpecifics, PrettyParseError};

fn expected(text: &str, p: usize) -> (usize, usize, String) {
    let line = text[..p].matches('\n').count() + 1;
    let start = text[..p].rfind('\n').map(|i| i + 1).unwrap_or(0);
    let end = text[start..].find('\n').map(|i| i + start).unwrap_or(text.len());
    (line, text[start..p].chars().count() + 1, text[start..end].to_string())
}

#[test]
fn probe() {
    let mut bad = 0;
    for text in ["", "ab", "ab\n", "ab\ncd", "ab\ncd\n", "é\nxy", "\n", "\n\n", "  a é b\nö"] {
        for p in 0..=text.len() {
            if !text.is_char_boundary(p) {
                continue;
            }
            let e = ParseError { position: p, specifics: ParseErrorSpecifics::ExpectedEoi };
            for file in [Some("f"), None] {
                let s = format!("{}", PrettyParseError::from_parse_error(&e, text, file));
                let (line, col, the_line) = expected(text, p);
                let lines: Vec<&str> = s.lines().collect();
                let w = match file {
                    Some(_) => format!("--> f:{}:{}", line, col),
                    None => format!("--> Line {} character {}", line, col),
                };
                let shown = lines[3].strip_prefix(" |  ").unwrap_or("<no prefix>");
                let caret = lines[4].strip_prefix(" |  ").unwrap_or("<no prefix>");
                let ok = lines[1] == w
                    && shown == the_line.trim_end()
                    && caret.chars().count() == col
                    && caret.ends_with('^')
                    && caret.trim_start() == "^";
                if !ok {
                    bad += 1;
                    println!("text={:?} p={} want {:?} line {:?}; got {:?} / {:?} / {:?}", text, p, w, the_line, lines[1], lines[3], lines[4]);
                }
            }
        }
    }
    assert_eq!(bad, 0);
}
