// D13 demo: put this file at codegen/tests/stale_prefix.rs in a scratch worktree of /repo and run
//   cargo test --offline -p peginator_codegen --test stale_prefix
// Observed on the unchanged tree: the assertion fails - the second run returns Ok and the destination still holds the old prefix.
use peginator_codegen::Compile;
use std::fs;

#[test]
fn shortened_prefix_is_not_noticed() {
    let dir = std::env::temp_dir().join(format!("d13-{}", std::process::id()));
    let _ = fs::remove_dir_all(&dir);
    fs::create_dir_all(&dir).unwrap();
    let src = dir.join("g.ebnf");
    let dst = dir.join("g.rs");
    fs::write(&src, "@export\nA = 'a';\n").unwrap();
    Compile::file(&src).destination(&dst).prefix("use a;\nuse b;\n".into()).run().unwrap();
    assert!(fs::read_to_string(&dst).unwrap().contains("use b;"));
    Compile::file(&src).destination(&dst).prefix("use a;\n".into()).run().unwrap();
    let now = fs::read_to_string(&dst).unwrap();
    let _ = fs::remove_dir_all(&dir);
    assert!(!now.contains("use b;"), "destination still carries the old prefix after a successful run");
}
