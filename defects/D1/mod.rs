// D1 demonstration (not part of the repository's suite)
mod grammar;
use std::cell::Cell;

use grammar::*;
use peginator::{ParseErrorSpecifics, PegParser};

thread_local! { static PROBES: Cell<usize> = Cell::new(0); }

pub fn probe(_s: &str) -> Result<(String, usize), &'static str> {
    PROBES.with(|p| p.set(p.get() + 1));
    Ok((String::new(), 0))
}

#[test]
fn memoized_failure_is_cached() {
    PROBES.with(|p| p.set(0));
    assert!(Root::parse("q").is_ok());
    // M is attempted three times at offset 0 and fails each time ('k' missing);
    // a packrat parser evaluates its body once.
    assert_eq!(PROBES.with(|p| p.get()), 1, "memoized body evaluations at offset 0");
}

#[test]
fn sentinel_never_surfaces() {
    let e = LRoot::parse("?").unwrap_err();
    assert!(
        !matches!(e.specifics, ParseErrorSpecifics::LeftRecursionSentinel),
        "internal sentinel returned: {e}"
    );
}

#[test]
fn seed_survives_failing_growth() {
    // iteration 1: G fails (sentinel) => !G ok, N matches "1".  iteration 2:
    // both alternatives fail; the rule must answer with the grown seed "1".
    assert!(GRoot::parse("1").is_ok());
}
