// Compiles every grammar listed in grammars/corpus.txt with the tree's own generator
// (peginator_codegen::Compile) into src/gen/<module>.rs and writes src/gen/mod.rs.
// A grammar the generator rejects is reported in src/gen/REJECTED.txt (its module is left out).
use std::fs;

fn main() {
    let list = fs::read_to_string("grammars/corpus.txt").expect("corpus.txt");
    fs::create_dir_all("src/gen").unwrap();
    let mut mods = String::new();
    let mut rejected = String::new();
    for line in list.lines() {
        let p: Vec<&str> = line.split('|').collect();
        if p.len() < 4 {
            continue;
        }
        let (module, file, derives, uc) = (p[0], p[1], p[2], p[3]);
        let dest = format!("src/gen/{module}.rs");
        let _ = fs::remove_file(&dest);
        let mut c = peginator_codegen::Compile::file(format!("grammars/{file}"))
            .destination(dest.clone())
            .format()
            .derives(derives.split(',').filter(|s| !s.is_empty()).map(|s| s.to_string()).collect());
        if !uc.is_empty() {
            c = c.user_context_type(uc);
        }
        match c.run() {
            Ok(()) => mods.push_str(&format!(
                "#[allow(clippy::all, unused, non_camel_case_types)]\npub mod {module} {{ include!(\"{module}.rs\"); }}\n"
            )),
            Err(e) => rejected.push_str(&format!("{module}|{file}|{e:#}\n")),
        }
    }
    // grammars that break a documented restriction: the generator has to reject every one of them (their output, if any, is
    // written outside src/gen and never compiled)
    let mut accepted = String::new();
    let mut refused = String::new();
    if let Ok(list) = fs::read_to_string("grammars/must_reject.txt") {
        fs::create_dir_all("src/gen_reject").unwrap();
        for line in list.lines() {
            let p: Vec<&str> = line.split('|').collect();
            if p.len() < 4 {
                continue;
            }
            let (name, file, derives, uc) = (p[0], p[1], p[2], p[3]);
            let dest = format!("src/gen_reject/{name}.rs");
            let _ = fs::remove_file(&dest);
            let mut c = peginator_codegen::Compile::file(format!("grammars/{file}"))
                .destination(dest.clone())
                .derives(derives.split(',').filter(|s| !s.is_empty()).map(|s| s.to_string()).collect());
            if !uc.is_empty() {
                c = c.user_context_type(uc);
            }
            // a generator that panics on such a grammar must not take the whole build down: it is recorded (and reported by C15)
            let outcome = std::panic::catch_unwind(std::panic::AssertUnwindSafe(|| c.run()));
            match outcome {
                Ok(Ok(())) => accepted.push_str(&format!("{name}|{file}|accepted\n")),
                Ok(Err(e)) => refused.push_str(&format!("{name}|{file}|{}\n", format!("{e:#}").replace('\n', " "))),
                Err(_) => accepted.push_str(&format!("{name}|{file}|PANICKED\n")),
            }
        }
    }
    fs::write("src/gen/MUST_REJECT_ACCEPTED.txt", accepted).unwrap();
    fs::write("src/gen/MUST_REJECT_REFUSED.txt", refused).unwrap();
    fs::write("src/gen/mod.rs", mods).unwrap();
    fs::write("src/gen/REJECTED.txt", rejected).unwrap();
    println!("cargo:rerun-if-changed=grammars");
}
