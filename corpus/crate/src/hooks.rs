//! User hook functions referenced by the corpus grammars.  Never called: the crate is only type-checked.
#[derive(Debug, Clone, PartialEq, Eq, Default)]
pub struct Thing {
    pub s: String,
}
impl From<String> for Thing {
    fn from(s: String) -> Self {
        Thing { s }
    }
}
#[derive(Debug, Default)]
pub struct Ctx {
    pub n: usize,
}
pub fn ok<T>(_v: &T) -> bool {
    true
}
pub fn ok2<T>(_v: &T) -> bool {
    true
}
pub fn ok_uc<T>(_v: &T, _c: &mut Ctx) -> bool {
    true
}
pub fn ok2_uc<T>(_v: &T, _c: &mut Ctx) -> bool {
    true
}
pub fn char_ok(c: char) -> bool {
    c != '\0'
}
pub fn char_ok2(c: char) -> bool {
    c != '\u{1}'
}
pub fn char_ok_uc(c: char) -> bool {
    c != '\0'
}
pub fn char_ok2_uc(c: char) -> bool {
    c != '\u{1}'
}
pub fn ext(s: &str) -> Result<(&str, usize), &'static str> {
    Ok((s, s.len()))
}
pub fn ext_typed(s: &str) -> Result<(Thing, usize), &'static str> {
    Ok((Thing { s: s.into() }, s.len()))
}
pub fn ext_uc<'a>(s: &'a str, _c: &mut Ctx) -> Result<(&'a str, usize), &'static str> {
    Ok((s, s.len()))
}
pub fn ext_typed_uc(s: &str, _c: &mut Ctx) -> Result<(Thing, usize), &'static str> {
    Ok((Thing { s: s.into() }, s.len()))
}
