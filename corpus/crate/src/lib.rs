//! Type-checked only (cargo check under the pegmir driver); nothing here is ever executed.
#![forbid(unsafe_code)]
#![allow(dead_code, unused_imports, non_snake_case, non_camel_case_types)]
pub mod hooks;
pub mod gen;
