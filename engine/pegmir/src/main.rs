//! pegmir — MIR fact extractor for the peginator verification framework.
//!
//! Runs as RUSTC_WORKSPACE_WRAPPER: argv[1] is the real rustc path (dropped).
//! After analysis it writes one JSON fact file per compiled crate target into
//! $PEGMIR_OUT (one `write` per process) and lets compilation continue, so
//! that build-dependencies (the code generator used by test/build.rs) are
//! really built.  Nothing of the analysed code is executed by this driver.
#![feature(rustc_private)]
#![feature(box_patterns)]

extern crate rustc_abi;
extern crate rustc_data_structures;
extern crate rustc_driver;
extern crate rustc_hir;
extern crate rustc_index;
extern crate rustc_interface;
extern crate rustc_middle;
extern crate rustc_session;
extern crate rustc_span;

mod json;
use json::J;

use rustc_driver::Compilation;
use rustc_hir as hir;
use rustc_hir::def::DefKind;
use rustc_hir::def_id::{DefId, LocalDefId, LOCAL_CRATE};
use rustc_hir::intravisit::{self, Visitor};
use rustc_middle::hir::nested_filter;
use rustc_middle::mir::{self, *};
use rustc_middle::ty::print::with_no_trimmed_paths;
use rustc_middle::ty::{self, Instance, Ty, TyCtxt, TypingEnv};
use rustc_span::Span;

struct Cb;

impl rustc_driver::Callbacks for Cb {
    fn after_analysis<'tcx>(
        &mut self,
        _c: &rustc_interface::interface::Compiler,
        tcx: TyCtxt<'tcx>,
    ) -> Compilation {
        if let Ok(dir) = std::env::var("PEGMIR_OUT") {
            extract(tcx, &dir);
        }
        Compilation::Continue
    }
}

fn main() {
    let mut args: Vec<String> = std::env::args().collect();
    if args.len() > 1 && (args[1].ends_with("rustc") || args[1].contains("/rustc")) {
        args.remove(1);
    }
    rustc_driver::run_compiler(&args, &mut Cb);
}

struct Cx<'tcx> {
    tcx: TyCtxt<'tcx>,
    krate: String,
    files: std::cell::RefCell<(std::collections::HashMap<String, usize>, Vec<String>)>,
    callees: std::cell::RefCell<(std::collections::HashMap<String, usize>, Vec<String>)>,
}

fn intern(t: &std::cell::RefCell<(std::collections::HashMap<String, usize>, Vec<String>)>, s: String) -> usize {
    let mut g = t.borrow_mut();
    if let Some(i) = g.0.get(&s) {
        return *i;
    }
    let i = g.1.len();
    g.0.insert(s.clone(), i);
    g.1.push(s);
    i
}

impl<'tcx> Cx<'tcx> {
    fn path(&self, did: DefId) -> String {
        let p = with_no_trimmed_paths!(self.tcx.def_path_str(did));
        if did.is_local() {
            format!("{}::{}", self.krate, p)
        } else {
            p
        }
    }
    fn ty(&self, t: Ty<'tcx>) -> String {
        with_no_trimmed_paths!(format!("{}", t))
    }
    fn span(&self, sp: Span) -> J {
        let sm = self.tcx.sess.source_map();
        let lo = sm.lookup_char_pos(sp.lo());
        let hi = sm.lookup_char_pos(sp.hi());
        let file = format!("{}", lo.file.name.prefer_local_unconditionally());
        let file = intern(&self.files, file);
        J::O(vec![
            ("file", J::n(file)),
            ("line", J::n(lo.line)),
            ("col", J::n(lo.col.0)),
            ("end_line", J::n(hi.line)),
            ("exp", J::B(sp.from_expansion())),
        ])
    }
    fn sline(&self, sp: Span) -> (J, J) {
        let sm = self.tcx.sess.source_map();
        let lo = sm.lookup_char_pos(sp.lo());
        (J::n(lo.line), J::B(sp.from_expansion()))
    }

    fn field_name(&self, pty: mir::PlaceTy<'tcx>, f: rustc_abi::FieldIdx) -> Option<String> {
        match pty.ty.kind() {
            ty::Adt(def, _) => {
                let v = match pty.variant_index {
                    Some(v) => def.variant(v),
                    None => {
                        if def.is_enum() {
                            return None;
                        }
                        def.non_enum_variant()
                    }
                };
                v.fields.get(f).map(|fd| fd.name.to_string())
            }
            _ => None,
        }
    }

    fn place(&self, body: &Body<'tcx>, p: Place<'tcx>) -> J {
        let mut proj = Vec::new();
        let mut pty = mir::PlaceTy::from_ty(body.local_decls[p.local].ty);
        for elem in p.projection.iter() {
            let j = match elem {
                ProjectionElem::Deref => J::O(vec![("k", J::s("deref"))]),
                ProjectionElem::Field(f, t) => {
                    let name = self.field_name(pty, f);
                    let owner = match pty.ty.kind() {
                        ty::Adt(def, _) => Some(self.path(def.did())),
                        ty::Closure(def, _) => Some(self.path(*def)),
                        _ => None,
                    };
                    J::O(vec![
                        ("k", J::s("field")),
                        ("i", J::n(f.as_usize())),
                        ("name", J::opt(name.map(J::S))),
                        ("owner", J::opt(owner.map(J::S))),
                        ("ty", J::s(self.ty(t))),
                    ])
                }
                ProjectionElem::Index(l) => {
                    J::O(vec![("k", J::s("index")), ("local", J::n(l.as_usize()))])
                }
                ProjectionElem::ConstantIndex { offset, min_length, from_end } => J::O(vec![
                    ("k", J::s("cindex")),
                    ("offset", J::n(offset)),
                    ("min_length", J::n(min_length)),
                    ("from_end", J::B(from_end)),
                ]),
                ProjectionElem::Subslice { from, to, from_end } => J::O(vec![
                    ("k", J::s("subslice")),
                    ("from", J::n(from)),
                    ("to", J::n(to)),
                    ("from_end", J::B(from_end)),
                ]),
                ProjectionElem::Downcast(sym, v) => {
                    let name = sym.map(|s| s.to_string()).or_else(|| match pty.ty.kind() {
                        ty::Adt(def, _) => Some(def.variant(v).name.to_string()),
                        _ => None,
                    });
                    J::O(vec![
                        ("k", J::s("downcast")),
                        ("variant", J::opt(name.map(J::S))),
                        ("idx", J::n(v.as_usize())),
                    ])
                }
                ProjectionElem::OpaqueCast(_) => J::O(vec![("k", J::s("opaque"))]),
                ProjectionElem::UnwrapUnsafeBinder(_) => J::O(vec![("k", J::s("unwrap_binder"))]),
            };
            proj.push(j);
            pty = pty.projection_ty(self.tcx, elem);
        }
        J::O(vec![("l", J::n(p.local.as_usize())), ("p", J::A(proj))])
    }

    fn fn_def_of(&self, owner: DefId, t: Ty<'tcx>) -> Option<J> {
        match t.kind() {
            ty::FnDef(did, args) => Some(self.callee(owner, *did, args)),
            ty::Closure(did, _) => Some(J::O(vec![
                ("path", J::s(self.path(*did))),
                ("resolved", J::s(self.path(*did))),
                ("closure", J::B(true)),
            ])),
            _ => None,
        }
    }

    fn callee(&self, owner: DefId, did: DefId, args: ty::GenericArgsRef<'tcx>) -> J {
        let j = self.callee_full(owner, did, args);
        let mut out = String::new();
        j.write(&mut out);
        J::n(intern(&self.callees, out))
    }

    fn callee_full(&self, owner: DefId, did: DefId, args: ty::GenericArgsRef<'tcx>) -> J {
        let tcx = self.tcx;
        let path = self.path(did);
        let full = with_no_trimmed_paths!(tcx.def_path_str_with_args(did, args));
        let gargs: Vec<J> = args.iter().map(|a| J::s(with_no_trimmed_paths!(format!("{}", a)))).collect();
        let tenv = TypingEnv::post_analysis(tcx, owner);
        let mut resolved = None;
        let mut res_closure = false;
        let mut res_kind = "none";
        // Resolution can fail for too-generic callees; that is fine.
        let r = std::panic::catch_unwind(std::panic::AssertUnwindSafe(|| {
            Instance::try_resolve(tcx, tenv, did, args)
        }));
        if let Ok(Ok(Some(inst))) = r {
            let rd = inst.def_id();
            resolved = Some(self.path(rd));
            res_closure = matches!(tcx.def_kind(rd), DefKind::Closure);
            res_kind = match inst.def {
                ty::InstanceKind::Item(_) => "item",
                ty::InstanceKind::Virtual(..) => "virtual",
                ty::InstanceKind::ClosureOnceShim { .. } => "closure_once_shim",
                ty::InstanceKind::FnPtrShim(..) => "fnptr_shim",
                ty::InstanceKind::CloneShim(..) => "clone_shim",
                ty::InstanceKind::DropGlue(..) => "drop_glue",
                ty::InstanceKind::Intrinsic(..) => "intrinsic",
                _ => "other",
            };
        }
        let is_trait_item = tcx.trait_of_assoc(did).is_some();
        let is_unsafe = matches!(tcx.def_kind(did), DefKind::Fn | DefKind::AssocFn)
            && tcx.fn_sig(did).skip_binder().skip_binder().safety().is_unsafe();
        J::O(vec![
            ("unsafe", J::B(is_unsafe)),
            ("path", J::S(path)),
            ("full", J::S(full)),
            ("args", J::A(gargs)),
            ("resolved", J::opt(resolved.map(J::S))),
            ("res_kind", J::s(res_kind)),
            ("closure", J::B(res_closure)),
            ("trait_item", J::B(is_trait_item)),
            ("krate", J::s(tcx.crate_name(did.krate).to_string())),
        ])
    }

    fn constant(&self, owner: DefId, c: &ConstOperand<'tcx>) -> J {
        let tcx = self.tcx;
        let cty = c.const_.ty();
        let mut v: Vec<(&'static str, J)> = vec![("k", J::s("const")), ("ty", J::s(self.ty(cty)))];
        let disp = with_no_trimmed_paths!(format!("{}", c.const_));
        v.push(("text", J::s(disp)));
        if let Some(f) = self.fn_def_of(owner, cty) {
            v.push(("fn", f));
        }
        match c.const_ {
            Const::Val(cv, t) => {
                match cv {
                    ConstValue::Scalar(mir::interpret::Scalar::Int(si)) => {
                        let bits = si.to_bits_unchecked();
                        v.push(("bits", J::n(bits)));
                    }
                    ConstValue::Slice { .. } | ConstValue::Indirect { .. } => {
                        let is_str = matches!(t.kind(), ty::Ref(_, inner, _) if inner.is_str());
                        if is_str {
                            if let Some(bytes) = cv.try_get_slice_bytes_for_diagnostics(tcx) {
                                if let Ok(s) = std::str::from_utf8(bytes) {
                                    v.push(("str", J::s(s)));
                                }
                            }
                        }
                    }
                    _ => {}
                }
            }
            Const::Unevaluated(uv, _) => {
                v.push(("uneval", J::s(self.path(uv.def))));
                if uv.promoted.is_some() {
                    v.push(("promoted", J::n(uv.promoted.unwrap().as_usize())));
                }
            }
            Const::Ty(..) => {}
        }
        J::O(v)
    }

    fn operand(&self, owner: DefId, body: &Body<'tcx>, op: &Operand<'tcx>) -> J {
        match op {
            Operand::Copy(p) => J::O(vec![("k", J::s("copy")), ("place", self.place(body, *p))]),
            Operand::Move(p) => J::O(vec![("k", J::s("move")), ("place", self.place(body, *p))]),
            Operand::Constant(c) => self.constant(owner, c),
            #[allow(unreachable_patterns)]
            _ => J::O(vec![("k", J::s("other")), ("text", J::s(format!("{:?}", op)))]),
        }
    }

    fn rvalue(&self, owner: DefId, body: &Body<'tcx>, rv: &Rvalue<'tcx>) -> J {
        match rv {
            Rvalue::Use(op, _) => J::O(vec![("k", J::s("use")), ("op", self.operand(owner, body, op))]),
            Rvalue::CopyForDeref(p) => J::O(vec![
                ("k", J::s("use")),
                ("op", J::O(vec![("k", J::s("copy")), ("place", self.place(body, *p))])),
            ]),
            Rvalue::Ref(_, bk, p) => J::O(vec![
                ("k", J::s("ref")),
                ("mut", J::B(matches!(bk, BorrowKind::Mut { .. }))),
                ("place", self.place(body, *p)),
            ]),
            Rvalue::RawPtr(kind, p) => J::O(vec![
                ("k", J::s("rawptr")),
                ("kind", J::s(format!("{:?}", kind))),
                ("place", self.place(body, *p)),
            ]),
            Rvalue::Cast(kind, op, t) => J::O(vec![
                ("k", J::s("cast")),
                ("kind", J::s(format!("{:?}", kind))),
                ("op", self.operand(owner, body, op)),
                ("ty", J::s(self.ty(*t))),
            ]),
            Rvalue::BinaryOp(op, box (a, b)) => J::O(vec![
                ("k", J::s("binop")),
                ("op", J::s(format!("{:?}", op))),
                ("a", self.operand(owner, body, a)),
                ("b", self.operand(owner, body, b)),
            ]),
            Rvalue::UnaryOp(op, a) => J::O(vec![
                ("k", J::s("unop")),
                ("op", J::s(format!("{:?}", op))),
                ("a", self.operand(owner, body, a)),
            ]),
            Rvalue::Discriminant(p) => {
                J::O(vec![("k", J::s("discr")), ("place", self.place(body, *p))])
            }
            Rvalue::Aggregate(box kind, ops) => {
                let ops_j: Vec<J> = ops.iter().map(|o| self.operand(owner, body, o)).collect();
                let mut v: Vec<(&'static str, J)> = vec![("k", J::s("agg"))];
                match kind {
                    AggregateKind::Array(t) => {
                        v.push(("agg", J::s("array")));
                        v.push(("ty", J::s(self.ty(*t))));
                    }
                    AggregateKind::Tuple => v.push(("agg", J::s("tuple"))),
                    AggregateKind::Adt(did, vi, gargs, _, active) => {
                        v.push(("agg", J::s("adt")));
                        v.push(("adt", J::s(self.path(*did))));
                        let def = self.tcx.adt_def(*did);
                        let var = def.variant(*vi);
                        v.push(("variant", J::s(var.name.to_string())));
                        v.push(("variant_idx", J::n(vi.as_usize())));
                        let names: Vec<J> = match active {
                            Some(f) => vec![J::s(var.fields[*f].name.to_string())],
                            None => var.fields.iter().map(|f| J::s(f.name.to_string())).collect(),
                        };
                        v.push(("fields", J::A(names)));
                        v.push((
                            "targs",
                            J::A(gargs.iter().map(|a| J::s(with_no_trimmed_paths!(format!("{}", a)))).collect()),
                        ));
                    }
                    AggregateKind::Closure(did, _) => {
                        v.push(("agg", J::s("closure")));
                        v.push(("def", J::s(self.path(*did))));
                    }
                    AggregateKind::Coroutine(did, _) | AggregateKind::CoroutineClosure(did, _) => {
                        v.push(("agg", J::s("coroutine")));
                        v.push(("def", J::s(self.path(*did))));
                    }
                    AggregateKind::RawPtr(..) => v.push(("agg", J::s("rawptr"))),
                }
                v.push(("ops", J::A(ops_j)));
                J::O(v)
            }
            Rvalue::Repeat(op, n) => J::O(vec![
                ("k", J::s("repeat")),
                ("op", self.operand(owner, body, op)),
                ("n", J::s(format!("{}", n))),
            ]),
            Rvalue::ThreadLocalRef(did) => {
                J::O(vec![("k", J::s("tlsref")), ("def", J::s(self.path(*did)))])
            }
            other => J::O(vec![("k", J::s("other")), ("text", J::s(format!("{:?}", other)))]),
        }
    }

    fn body(&self, did: LocalDefId) -> J {
        let tcx = self.tcx;
        let owner = did.to_def_id();
        let body: &Body<'tcx> = tcx.optimized_mir(owner);
        let mut j = self.body_of(owner, body);
        let proms = tcx.promoted_mir(owner);
        if !proms.is_empty() {
            let pj: Vec<J> = proms.iter().map(|pb| self.body_of(owner, pb)).collect();
            if let J::O(ref mut v) = j {
                v.push(("promoted", J::A(pj)));
            }
        }
        j
    }

    fn body_of(&self, owner: DefId, body: &Body<'tcx>) -> J {
        let tcx = self.tcx;
        let mut locals = Vec::new();
        for (l, decl) in body.local_decls.iter_enumerated() {
            let _ = l;
            locals.push(J::O(vec![
                ("ty", J::s(self.ty(decl.ty))),
                ("mut", J::B(decl.mutability.is_mut())),
            ]));
        }
        let mut dbg = Vec::new();
        for vdi in &body.var_debug_info {
            let val = match &vdi.value {
                VarDebugInfoContents::Place(p) => self.place(body, *p),
                VarDebugInfoContents::Const(c) => self.constant(owner, c),
            };
            dbg.push(J::O(vec![
                ("name", J::s(vdi.name.to_string())),
                ("value", val),
                ("arg", J::opt(vdi.argument_index.map(J::n))),
            ]));
        }
        let mut blocks = Vec::new();
        for (_bb, data) in body.basic_blocks.iter_enumerated() {
            let mut stmts = Vec::new();
            for st in &data.statements {
                let (line, exp) = self.sline(st.source_info.span);
                match &st.kind {
                    StatementKind::Assign(box (p, rv)) => stmts.push(J::O(vec![
                        ("k", J::s("assign")),
                        ("place", self.place(body, *p)),
                        ("rv", self.rvalue(owner, body, rv)),
                        ("line", line),
                        ("exp", exp),
                    ])),
                    StatementKind::SetDiscriminant { place, variant_index } => stmts.push(J::O(vec![
                        ("k", J::s("setdiscr")),
                        ("place", self.place(body, **place)),
                        ("idx", J::n(variant_index.as_usize())),
                        ("line", line),
                        ("exp", exp),
                    ])),
                    StatementKind::Intrinsic(box ni) => stmts.push(J::O(vec![
                        ("k", J::s("intrinsic")),
                        ("text", J::s(format!("{:?}", ni))),
                        ("line", line),
                        ("exp", exp),
                    ])),
                    _ => {}
                }
            }
            let term = data.terminator();
            let sp = self.span(term.source_info.span);
            let t = match &term.kind {
                TerminatorKind::Goto { target } => {
                    J::O(vec![("k", J::s("goto")), ("target", J::n(target.as_usize()))])
                }
                TerminatorKind::SwitchInt { discr, targets } => {
                    let dty = discr.ty(&body.local_decls, tcx);
                    let tg: Vec<J> = targets
                        .iter()
                        .map(|(v, bb)| J::A(vec![J::n(v), J::n(bb.as_usize())]))
                        .collect();
                    J::O(vec![
                        ("k", J::s("switch")),
                        ("discr", self.operand(owner, body, discr)),
                        ("dty", J::s(self.ty(dty))),
                        ("targets", J::A(tg)),
                        ("otherwise", J::n(targets.otherwise().as_usize())),
                    ])
                }
                TerminatorKind::Return => J::O(vec![("k", J::s("return"))]),
                TerminatorKind::Unreachable => J::O(vec![("k", J::s("unreachable"))]),
                TerminatorKind::UnwindResume => J::O(vec![("k", J::s("resume"))]),
                TerminatorKind::UnwindTerminate(_) => J::O(vec![("k", J::s("terminate"))]),
                TerminatorKind::Drop { place, target, unwind, .. } => J::O(vec![
                    ("k", J::s("drop")),
                    ("place", self.place(body, *place)),
                    ("target", J::n(target.as_usize())),
                    ("unwind", unwind_j(unwind)),
                ]),
                TerminatorKind::Call { func, args, destination, target, unwind, fn_span, .. } => {
                    let f = match func.const_fn_def() {
                        Some((cd, cargs)) => self.callee(owner, cd, cargs),
                        None => {
                            let fty = func.ty(&body.local_decls, tcx);
                            J::O(vec![
                                ("indirect", J::B(true)),
                                ("op", self.operand(owner, body, func)),
                                ("ty", J::s(self.ty(fty))),
                            ])
                        }
                    };
                    let a: Vec<J> = args.iter().map(|a| self.operand(owner, body, &a.node)).collect();
                    let (fl, fexp) = self.sline(*fn_span);
                    J::O(vec![
                        ("k", J::s("call")),
                        ("func", f),
                        ("args", J::A(a)),
                        ("dest", self.place(body, *destination)),
                        ("target", J::opt(target.map(|t| J::n(t.as_usize())))),
                        ("unwind", unwind_j(unwind)),
                        ("fn_line", fl),
                        ("fn_exp", fexp),
                    ])
                }
                TerminatorKind::TailCall { func, args, .. } => {
                    let f = match func.const_fn_def() {
                        Some((cd, cargs)) => self.callee(owner, cd, cargs),
                        None => J::Null,
                    };
                    let a: Vec<J> = args.iter().map(|a| self.operand(owner, body, &a.node)).collect();
                    J::O(vec![("k", J::s("tailcall")), ("func", f), ("args", J::A(a))])
                }
                TerminatorKind::Assert { cond, expected, msg, target, unwind } => {
                    let kind = match &**msg {
                        AssertKind::BoundsCheck { .. } => "bounds".to_string(),
                        AssertKind::Overflow(op, ..) => format!("overflow_{:?}", op),
                        AssertKind::OverflowNeg(_) => "overflow_neg".to_string(),
                        AssertKind::DivisionByZero(_) => "div_zero".to_string(),
                        AssertKind::RemainderByZero(_) => "rem_zero".to_string(),
                        AssertKind::MisalignedPointerDereference { .. } => "misaligned".to_string(),
                        AssertKind::NullPointerDereference => "nullptr".to_string(),
                        AssertKind::InvalidEnumConstruction(_) => "invalid_enum".to_string(),
                        _ => "other".to_string(),
                    };
                    let mut v = vec![
                        ("k", J::s("assert")),
                        ("cond", self.operand(owner, body, cond)),
                        ("expected", J::B(*expected)),
                        ("kind", J::S(kind)),
                        ("target", J::n(target.as_usize())),
                        ("unwind", unwind_j(unwind)),
                    ];
                    match &**msg {
                        AssertKind::BoundsCheck { len, index } => {
                            v.push(("len", self.operand(owner, body, len)));
                            v.push(("index", self.operand(owner, body, index)));
                        }
                        AssertKind::Overflow(_, a, b) => {
                            v.push(("a", self.operand(owner, body, a)));
                            v.push(("b", self.operand(owner, body, b)));
                        }
                        _ => {}
                    }
                    J::O(v)
                }
                TerminatorKind::FalseEdge { real_target, .. } => {
                    J::O(vec![("k", J::s("goto")), ("target", J::n(real_target.as_usize()))])
                }
                TerminatorKind::FalseUnwind { real_target, .. } => {
                    J::O(vec![("k", J::s("goto")), ("target", J::n(real_target.as_usize()))])
                }
                other => J::O(vec![("k", J::s("other")), ("text", J::s(format!("{:?}", other)))]),
            };
            blocks.push(J::O(vec![
                ("cleanup", J::B(data.is_cleanup)),
                ("stmts", J::A(stmts)),
                ("term", t),
                ("span", sp),
            ]));
        }
        J::O(vec![
            ("arg_count", J::n(body.arg_count)),
            ("locals", J::A(locals)),
            ("debug", J::A(dbg)),
            ("blocks", J::A(blocks)),
        ])
    }
}

fn unwind_j(u: &UnwindAction) -> J {
    match u {
        UnwindAction::Continue => J::s("continue"),
        UnwindAction::Unreachable => J::s("unreachable"),
        UnwindAction::Terminate(_) => J::s("terminate"),
        UnwindAction::Cleanup(bb) => J::n(bb.as_usize()),
    }
}

struct UnsafeFinder<'tcx> {
    tcx: TyCtxt<'tcx>,
    found: Vec<(LocalDefId, Span, bool)>,
}

impl<'tcx> Visitor<'tcx> for UnsafeFinder<'tcx> {
    type NestedFilter = nested_filter::OnlyBodies;
    fn maybe_tcx(&mut self) -> Self::MaybeTyCtxt {
        self.tcx
    }
    fn visit_block(&mut self, b: &'tcx hir::Block<'tcx>) {
        if let hir::BlockCheckMode::UnsafeBlock(src) = b.rules {
            let owner = self.tcx.hir_enclosing_body_owner(b.hir_id);
            let user = matches!(src, hir::UnsafeSource::UserProvided);
            self.found.push((owner, b.span, user));
        }
        intravisit::walk_block(self, b);
    }
}

fn extract<'tcx>(tcx: TyCtxt<'tcx>, dir: &str) {
    let krate = tcx.crate_name(LOCAL_CRATE).to_string();
    let cx = Cx {
        tcx,
        krate: krate.clone(),
        files: Default::default(),
        callees: Default::default(),
    };
    let is_test = tcx.sess.opts.test;
    let mut fns = Vec::new();
    let mut adts = Vec::new();
    let mut statics = Vec::new();
    let mut aliases = Vec::new();
    let mut impls = Vec::new();
    let mut traits = Vec::new();
    let mut consts = Vec::new();
    let mut mods = Vec::new();

    let body_owners: std::collections::HashSet<LocalDefId> = tcx.hir_body_owners().collect();

    let mut all_defs: Vec<LocalDefId> = tcx.hir_crate_items(()).definitions().collect();
    {
        let seen: std::collections::HashSet<LocalDefId> = all_defs.iter().copied().collect();
        for b in tcx.hir_body_owners() {
            if !seen.contains(&b) {
                all_defs.push(b);
            }
        }
    }
    for ldid in all_defs {
        let did = ldid.to_def_id();
        let kind = tcx.def_kind(did);
        let sp = tcx.def_span(did);
        match kind {
            DefKind::Fn | DefKind::AssocFn | DefKind::Closure => {
                let mut v: Vec<(&'static str, J)> = vec![
                    ("path", J::s(cx.path(did))),
                    ("kind", J::s(format!("{:?}", kind))),
                    ("span", cx.span(sp)),
                ];
                if matches!(kind, DefKind::Fn | DefKind::AssocFn) {
                    let sig = tcx.fn_sig(did).instantiate_identity().skip_norm_wip().skip_binder();
                    v.push(("unsafe", J::B(sig.safety().is_unsafe())));
                    v.push((
                        "inputs",
                        J::A(sig.inputs().iter().map(|t| J::s(cx.ty(*t))).collect()),
                    ));
                    v.push(("output", J::s(cx.ty(sig.output()))));
                    v.push(("vis", J::s(format!("{:?}", tcx.visibility(did)))));
                    if let Some(tr) = tcx.trait_of_assoc(did) {
                        v.push(("trait_decl", J::s(cx.path(tr))));
                    }
                    if let Some(imp) = tcx.impl_of_assoc(did) {
                        v.push(("impl", J::s(cx.path(imp))));
                        if let Some(tr) = tcx.impl_opt_trait_ref(imp) {
                            let tr = tr.instantiate_identity().skip_norm_wip();
                            v.push(("impl_trait", J::s(cx.path(tr.def_id))));
                            v.push(("impl_self", J::s(cx.ty(tr.self_ty()))));
                        } else {
                            let st = tcx.type_of(imp).instantiate_identity().skip_norm_wip();
                            v.push(("impl_self", J::s(cx.ty(st))));
                        }
                    }
                } else {
                    let parent = tcx.typeck_root_def_id(did);
                    v.push(("root", J::s(cx.path(parent))));
                    v.push(("parent", J::s(cx.path(tcx.parent(did)))));
                }
                let generics = tcx.generics_of(did);
                v.push((
                    "generics",
                    J::A(generics.own_params.iter().map(|p| J::s(p.name.to_string())).collect()),
                ));
                if body_owners.contains(&ldid) {
                    v.push(("mir", cx.body(ldid)));
                }
                fns.push(J::O(v));
            }
            DefKind::Struct | DefKind::Enum | DefKind::Union => {
                let def = tcx.adt_def(did);
                let tenv = TypingEnv::post_analysis(tcx, did);
                let mut variants = Vec::new();
                for var in def.variants() {
                    let mut fields = Vec::new();
                    for f in var.fields.iter() {
                        let fty = tcx.type_of(f.did).instantiate_identity().skip_norm_wip();
                        let freeze = std::panic::catch_unwind(std::panic::AssertUnwindSafe(|| {
                            fty.is_freeze(tcx, tenv)
                        }))
                        .ok();
                        fields.push(J::O(vec![
                            ("name", J::s(f.name.to_string())),
                            ("ty", J::s(cx.ty(fty))),
                            ("freeze", J::opt(freeze.map(J::B))),
                            ("vis", J::s(format!("{:?}", f.vis))),
                        ]));
                    }
                    variants.push(J::O(vec![
                        ("name", J::s(var.name.to_string())),
                        ("ctor", J::s(format!("{:?}", var.ctor_kind()))),
                        ("fields", J::A(fields)),
                    ]));
                }
                let generics = tcx.generics_of(did);
                adts.push(J::O(vec![
                    ("path", J::s(cx.path(did))),
                    ("kind", J::s(format!("{:?}", kind))),
                    ("span", cx.span(sp)),
                    ("variants", J::A(variants)),
                    (
                        "generics",
                        J::A(generics.own_params.iter().map(|p| J::s(p.name.to_string())).collect()),
                    ),
                ]));
            }
            DefKind::Static { mutability, nested, .. } => {
                let sty = tcx.type_of(did).instantiate_identity().skip_norm_wip();
                statics.push(J::O(vec![
                    ("path", J::s(cx.path(did))),
                    ("span", cx.span(sp)),
                    ("mut", J::B(mutability.is_mut())),
                    ("nested", J::B(nested)),
                    ("thread_local", J::B(tcx.is_thread_local_static(did))),
                    ("ty", J::s(cx.ty(sty))),
                    ("freeze", J::B(sty.is_freeze(tcx, TypingEnv::post_analysis(tcx, did)))),
                ]));
            }
            DefKind::Const { .. } | DefKind::AssocConst { .. } => {
                let cty = tcx.type_of(did).instantiate_identity().skip_norm_wip();
                consts.push(J::O(vec![
                    ("path", J::s(cx.path(did))),
                    ("span", cx.span(sp)),
                    ("ty", J::s(cx.ty(cty))),
                ]));
            }
            DefKind::TyAlias => {
                let aty = tcx.type_of(did).instantiate_identity().skip_norm_wip();
                aliases.push(J::O(vec![
                    ("path", J::s(cx.path(did))),
                    ("span", cx.span(sp)),
                    ("ty", J::s(cx.ty(aty))),
                    ("vis", J::s(format!("{:?}", tcx.visibility(did)))),
                ]));
            }
            DefKind::Impl { of_trait } => {
                let self_ty = tcx.type_of(did).instantiate_identity().skip_norm_wip();
                let mut v = vec![
                    ("path", J::s(cx.path(did))),
                    ("span", cx.span(sp)),
                    ("self_ty", J::s(cx.ty(self_ty))),
                ];
                if of_trait {
                    if let Some(tr) = tcx.impl_opt_trait_ref(did) {
                        let tr = tr.instantiate_identity().skip_norm_wip();
                        v.push(("trait", J::s(cx.path(tr.def_id))));
                        v.push(("trait_full", J::s(with_no_trimmed_paths!(format!("{}", tr)))));
                    }
                }
                let items: Vec<J> = tcx
                    .associated_items(did)
                    .in_definition_order()
                    .map(|it| J::s(cx.path(it.def_id)))
                    .collect();
                v.push(("items", J::A(items)));
                impls.push(J::O(v));
            }
            DefKind::Trait => {
                let items: Vec<J> = tcx
                    .associated_items(did)
                    .in_definition_order()
                    .map(|it| J::s(cx.path(it.def_id)))
                    .collect();
                traits.push(J::O(vec![
                    ("path", J::s(cx.path(did))),
                    ("span", cx.span(sp)),
                    ("items", J::A(items)),
                ]));
            }
            DefKind::Mod => {
                mods.push(J::O(vec![("path", J::s(cx.path(did))), ("span", cx.span(sp))]));
            }
            _ => {}
        }
    }

    let mut uf = UnsafeFinder { tcx, found: Vec::new() };
    tcx.hir_visit_all_item_likes_in_crate(&mut uf);
    let unsafe_blocks: Vec<J> = uf
        .found
        .iter()
        .map(|(owner, sp, user)| {
            J::O(vec![
                ("fn", J::s(cx.path(owner.to_def_id()))),
                ("span", cx.span(*sp)),
                ("user", J::B(*user)),
            ])
        })
        .collect();

    let crate_types: Vec<J> =
        tcx.crate_types().iter().map(|t| J::s(format!("{:?}", t))).collect();
    let src = tcx
        .sess
        .local_crate_source_file()
        .and_then(|f| f.local_path().map(|p| p.display().to_string()))
        .unwrap_or_default();
    let root = J::O(vec![
        ("crate", J::s(krate.clone())),
        ("test", J::B(is_test)),
        ("crate_types", J::A(crate_types)),
        ("src", J::s(src)),
        ("fns", J::A(fns)),
        ("adts", J::A(adts)),
        ("statics", J::A(statics)),
        ("consts", J::A(consts)),
        ("aliases", J::A(aliases)),
        ("impls", J::A(impls)),
        ("traits", J::A(traits)),
        ("mods", J::A(mods)),
        ("unsafe_blocks", J::A(unsafe_blocks)),
        ("files", J::A(cx.files.borrow().1.iter().map(|f| J::s(f.clone())).collect())),
        ("callees", J::A(cx.callees.borrow().1.iter().map(|f| J::Raw(f.clone())).collect())),
    ]);
    let mut out = String::new();
    root.write(&mut out);
    let id = tcx.stable_crate_id(LOCAL_CRATE);
    let fname = format!(
        "{}/{}-{}-{:x}.json",
        dir,
        krate,
        if is_test { "test" } else { "lib" },
        id.as_u64()
    );
    let tmp = format!("{}.tmp{}", fname, std::process::id());
    if std::fs::write(&tmp, out).is_ok() {
        let _ = std::fs::rename(&tmp, &fname);
    }
}
