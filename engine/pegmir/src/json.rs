//! Minimal JSON value + serializer (no dependencies are available offline
//! for a rustc_private driver, and none are needed).

pub enum J {
    Null,
    B(bool),
    N(i128),
    S(String),
    A(Vec<J>),
    O(Vec<(&'static str, J)>),
    /// pre-serialised JSON
    Raw(String),
}

impl J {
    pub fn s<T: Into<String>>(t: T) -> J {
        J::S(t.into())
    }
    pub fn n<T: TryInto<i128>>(t: T) -> J {
        match t.try_into() {
            Ok(v) => J::N(v),
            Err(_) => J::Null,
        }
    }
    pub fn opt(o: Option<J>) -> J {
        o.unwrap_or(J::Null)
    }

    pub fn write(&self, out: &mut String) {
        match self {
            J::Null => out.push_str("null"),
            J::B(b) => out.push_str(if *b { "true" } else { "false" }),
            J::N(n) => out.push_str(&n.to_string()),
            J::S(s) => write_str(s, out),
            J::Raw(s) => out.push_str(s),
            J::A(v) => {
                out.push('[');
                for (i, x) in v.iter().enumerate() {
                    if i > 0 {
                        out.push(',');
                    }
                    x.write(out);
                }
                out.push(']');
            }
            J::O(v) => {
                out.push('{');
                for (i, (k, x)) in v.iter().enumerate() {
                    if i > 0 {
                        out.push(',');
                    }
                    write_str(k, out);
                    out.push(':');
                    x.write(out);
                }
                out.push('}');
            }
        }
    }
}

fn write_str(s: &str, out: &mut String) {
    out.push('"');
    for c in s.chars() {
        match c {
            '"' => out.push_str("\\\""),
            '\\' => out.push_str("\\\\"),
            '\n' => out.push_str("\\n"),
            '\r' => out.push_str("\\r"),
            '\t' => out.push_str("\\t"),
            c if (c as u32) < 0x20 => out.push_str(&format!("\\u{:04x}", c as u32)),
            c => out.push(c),
        }
    }
    out.push('"');
}
