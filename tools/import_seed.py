#!/usr/bin/env python3
"""import_seed.py <worktree> <name> <demo-filter>  : verify independently and copy into /verif/seeded/<name>/"""
import json, os, shutil, subprocess, sys
wt, name, flt = sys.argv[1:4]
out = subprocess.run(["/verif/tools/verify_seed.py", wt, flt], stdout=subprocess.PIPE, text=True).stdout
print(out)
res = json.loads(out)
ok = res.get("confirmed")
if not ok:
    print("NOT CONFIRMED"); sys.exit(1)
dst = os.path.join("/verif/seeded", name)
shutil.rmtree(dst, ignore_errors=True)
shutil.copytree(os.path.join(wt, "SEED"), dst)
m = json.load(open(os.path.join(dst, "meta.json")))
m["confirmed_by_me"] = {"ran": "tools/verify_seed.py (fresh worktree of /repo HEAD: demo only -> passes; patch only -> repository suite passes; demo+patch -> demo fails)", "result": res}
m.setdefault("caught_by", {})
json.dump(m, open(os.path.join(dst, "meta.json"), "w"), indent=1)
print("imported", dst)
