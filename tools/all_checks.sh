#!/bin/sh
# all_checks.sh <patch> : run every registered check against a scratch copy of /repo with the patch applied; print what is not OK
P=$1
S=$(mktemp -d /tmp/pegv-all.XXXX); rsync -a --exclude .git --exclude /target /repo/ $S/repo/
(cd $S/repo && patch -p1 -s -i $P) || { echo "patch failed"; rm -rf $S; exit 9; }
for c in C01 C02 C03 C04 C05 C06 C07 C08 C09 C10 C11 C12 C13 C14 C15 C16 C17 C18 C19 C20; do
  out=$(PEGV_REPO=$S/repo PEGV_OUT=$S/out PEGV_CACHE=$S/cache /verif/check $c 2>&1)
  rc=$?
  if [ $rc -ne 0 ]; then echo "== $c rc=$rc"; echo "$out" | grep -E "key=|BUILD|INTERNAL|Error" | cut -c1-240 | head -${ALL_LINES:-5}; fi
done
echo "all_checks done"
rm -rf $S
