#!/bin/sh
# try_patch.sh <patch> <check ids...> : run checks against a scratch copy of /repo with the patch applied
P=$1; shift
S=$(mktemp -d /tmp/pegv-try.XXXX); rsync -a --exclude .git --exclude /target /repo/ $S/repo/
(cd $S/repo && patch -p1 -s -i $P) || { echo "patch failed"; rm -rf $S; exit 9; }
for c in "$@"; do PEGV_REPO=$S/repo PEGV_OUT=$S/out PEGV_CACHE=$S/cache /verif/check $c 2>&1 | grep -E "^OK|key=|BUILD|INTERNAL|KNOWN" | cut -c1-260 | head -${TRY_LINES:-6}; done
rm -rf $S
