#!/usr/bin/env python3
"""gen_random_grammar.py SEED [N_RULES]  -> a random well-formed peginator grammar on stdout.

Used by the thorough tier: the tree's own generator compiles it in the scratch copy and every I-level
rule / the lifters compare the generated code with what the independent reader derives from this text.
The generator avoids every documented restriction (no fields in lookaheads, no mixing of @: and named
fields, enum overrides exactly once per arm, no @export on @string / plain overrides, leaf types only so
that no recursive type needs boxing) and name collisions (`position`, `string`, keywords).
"""
import random
import sys

LEAVES = ["A", "B", "C", "W", "W2"]
FIELD_NAMES = ["a", "b", "c", "x", "y", "z"]
LITS = ["'k'", "'q'", "\"kw\"", "\"=>\"", "'é'", "\"αβ\"", "i'm'", "i\"sel\"", "'\\n'", "'\\x41'", "'\\u{20ac}'", "'0'..'9'", "'a'..'f'", "'α'..'ω'"]


class Gen:
    def __init__(self, seed):
        self.r = random.Random(seed)
        self.includes = []

    def atom(self, fields_ok):
        r = self.r
        k = r.random()
        if k < 0.35:
            return r.choice(LITS)
        if k < 0.42:
            return "char"
        if k < 0.50:
            return r.choice(LEAVES)
        if k < 0.55 and self.includes:
            name, has_fields = r.choice(self.includes)
            if fields_ok or not has_fields:
                return ">" + name
            return r.choice(LITS)
        if not fields_ok:
            return r.choice(LEAVES)
        n = r.choice(FIELD_NAMES)
        t = r.choice(LEAVES + ["char"])
        box = "*" if r.random() < 0.15 and t != "char" else ""
        return "%s:%s%s" % (n, box, t)

    def expr(self, depth, fields_ok, top=False):
        r = self.r
        if depth <= 0:
            return self.atom(fields_ok)
        k = r.random()
        if k < 0.30:
            n = r.randint(2, 4)
            return " ".join(self.expr(depth - 1, fields_ok) for _ in range(n))
        if k < 0.45:
            n = r.randint(2, 3)
            alts = [self.expr(depth - 1, fields_ok) for _ in range(n)]
            if r.random() < 0.15:
                alts.append("")           # empty alternative
            s = " | ".join(alts)
            return s if top else "(" + s + ")"
        if k < 0.55:
            return "[" + self.expr(depth - 1, fields_ok, True) + "]"
        if k < 0.65:
            body = self.expr(depth - 1, fields_ok, True)
            return "{" + body + " ','}" + ("+" if r.random() < 0.4 else "")
        if k < 0.70:
            return "!" + self.noseq(self.expr(depth - 1, False))
        if k < 0.75:
            return "&" + self.noseq(self.expr(depth - 1, False))
        if k < 0.80:
            return "(" + self.expr(depth - 1, fields_ok, True) + ")"
        if k < 0.83:
            return "$"
        return self.atom(fields_ok)

    def noseq(self, s):
        return "(" + s + ")"

    def grammar(self, n_rules):
        r = self.r
        out = ["# random grammar (tools/gen_random_grammar.py)"]
        out.append("@export\nRoot = 'root' a:A;")
        out.append("A = 'a';")
        out.append("B = 'b' 'b';")
        out.append("C = c:char;")
        out.append("@string\n@no_skip_ws\nW = {'a'..'z'}+;")
        out.append("@string\n@no_skip_ws\nW2 = {'0'..'9'}+;")
        for i in range(n_rules):
            name = "R%d" % i
            kind = r.random()
            dirs = []
            noskip = r.random() < 0.3
            if noskip:
                dirs.append("@no_skip_ws")
            if kind < 0.08:
                # simple override
                body = "%s @:%s %s" % (r.choice(LITS), r.choice(LEAVES), r.choice(["", r.choice(LITS)]))
                if r.random() < 0.3:
                    dirs.append("@memoize")
            elif kind < 0.16:
                # enum override: exactly once per arm
                arms = ["%s @:%s" % (r.choice(["", r.choice(LITS)]), t) for t in r.sample(LEAVES, r.randint(2, 3))]
                body = " | ".join(arms)
            elif kind < 0.22:
                dirs.append("@string")
                body = self.expr(2, False, True)
                if r.random() < 0.4:
                    dirs.append("@position")
            else:
                body = self.expr(r.randint(1, 3), True, True)
                if r.random() < 0.2:
                    dirs.append("@position")
                if r.random() < 0.1:
                    dirs.append("@memoize")
                if r.random() < 0.15:
                    dirs.append("@export")
                if r.random() < 0.25 and not noskip:
                    # usable as an include target by later rules
                    self.includes.append((name, ":" in body))
            out.append("".join(d + "\n" for d in dirs) + "%s = %s;" % (name, body))
        return "\n".join(out) + "\n"


def validated(seed, n_rules):
    """Generate, then drop every rule the independent model rejects (documented restrictions) so that the
    text is well-formed by construction AND by the model."""
    import os
    sys.path.insert(0, os.path.join(os.path.dirname(os.path.abspath(__file__)), ".."))
    from pegv import ebnf
    text = Gen(seed).grammar(n_rules)
    for _ in range(8):
        g = ebnf.parse(text)
        bad = set()
        for r in g.rules:
            try:
                ebnf.declared_shape(r, g)
                if r.kind == "rule":
                    fs = ebnf.fields_of(r.body, g)
                    if "_override" in [f.name for f in fs] and len(fs) > 1:
                        bad.add(r.name)
                    for f in fs:
                        if f.name == "_override" and len(f.types) > 1 and f.arity != ebnf.ONE:
                            bad.add(r.name)
            except ebnf.Reject:
                bad.add(r.name)
        if not bad:
            return text
        # remove bad rules and every include of them
        keep = []
        for chunk in text.split(";\n"):
            if not chunk.strip():
                continue
            head = chunk.split("=")[0].strip().split("\n")[-1].strip()
            if head in bad or any((">" + b) in chunk.replace(" ", "") for b in bad):
                continue
            keep.append(chunk)
        text = ";\n".join(keep) + ";\n"
    return text


if __name__ == "__main__":
    seed = int(sys.argv[1]) if len(sys.argv) > 1 else 0
    n = int(sys.argv[2]) if len(sys.argv) > 2 else 60
    sys.stdout.write(validated(seed, n))
