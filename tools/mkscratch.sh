#!/bin/sh
# mkscratch.sh <dir> <patch...> : persistent scratch copy of /repo with patches applied (developer use; remove when done)
D=$1; shift
rm -rf $D; mkdir -p $D; rsync -a --exclude .git --exclude /target /repo/ $D/repo/
for P in "$@"; do (cd $D/repo && patch -p1 -s -i $P) || { echo "patch failed: $P"; exit 9; }; done
echo "PEGV_REPO=$D/repo PEGV_OUT=$D/out PEGV_CACHE=$D/cache"
