NOTES = ("All checks share one fact extraction per /repo tree hash (cached under /verif/.cache, flock-protected). "
         "Exit 2 = /repo does not build (no verdict). Known findings: /verif/known_findings.json.")

TRUST = ("Trusted: rustc nightly MIR construction and callee resolution; pegv's semantic table for ~25 std "
         "combinators; dependencies (proc_macro2, quote, anyhow, crc, colored, nohash-hasher) not analysed internally. ")

CHECKS = {
 "C06": {
  "category": "other",
  "technique": "must-pass-through / dominance rules over MIR of generated memo wrappers",
  "text": "Decides on every CFG path of every analysed @memoize wrapper that a cache miss is followed by an insert under the lookup key before any normal return, that nothing else runs before the lookup, that the hit path only clones, and that nothing else touches or evicts the cache field. Sound for all inputs of the analysed wrappers (27 test grammars, bootstrap parser, macro test; corpus in thorough); the wrapper template is one per rule kind x directive set.",
  "note": TRUST + "I-level verdict: covers the analysed generated instances; generalises to all grammars only as far as the wrapper template is compositional.",
 },
 "C19": {
  "category": "other",
  "technique": "dominance/post-dominance pairing rule over generated rule functions + effect/type rules on tracer",
  "text": "For every generated rule function (all inputs, all paths): exactly one trace entry dominates and exactly one trace exit post-dominates all work and every normal return, neither in a loop, no trace entry/exit anywhere else in generated code, and the traced value is the returned value. Runtime tracer counters move only +c in entry and -c in exit, so with the pairing the counter cannot underflow. Non-interference is decided by types: tracer methods return (), take parse data by shared reference, parse data has no interior mutability and global.tracer is only ever a method receiver.",
  "note": TRUST + "I-level for pairing (259 wrappers on the pinned tree, floor enforced); R-level for the counter and the type argument. User-supplied ParseTracer implementations are outside.",
 },
}

_PENDING = "check not built yet in this round (design in DESIGN.md §3); no verdict is claimed until it is"
NOT_APPLICABLE = {pid: _PENDING for pid in
  ["C01","C02","C03","C04","C05","C07","C08","C09","C10","C11","C12","C13","C14","C15","C16","C17","C18","C20"]}
