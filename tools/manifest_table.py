NOTES = ("All checks share one fact extraction per /repo tree hash (cached under /verif/.cache, flock-protected). "
         "Exit 2 = /repo does not build (no verdict). Known findings: /verif/known_findings.json.")

TRUST = ("Trusted: rustc nightly MIR construction and callee resolution; pegv's semantic table for ~25 std "
         "combinators; dependencies (proc_macro2, quote, anyhow, crc, colored, nohash-hasher) not analysed internally. ")

CHECKS = {
 "C01": {
  "category": "translation_validation",
  "technique": "static translation validation: lifting generated parsers from MIR to parser terms and comparing with the terms the grammar denotes; scenario enumeration of terminal-matcher decision trees; generator-level identity flows",
  "text": "Every rule of every analysed grammar (1157 rules: 27+2 test grammars, macro test, the bootstrapped front end, 16 corpus modules incl. every construct nested in every other in skipping and non-skipping rules) is lifted from the MIR of its generated functions to a term of a small parser algebra (literal/range/$/char/rule ref, whitespace-skipped atom, seq, ordered choice, optional, star, plus, not, and, @char class, extern) by rewriting over the reconstructed dataflow - state threading of `?` chains, ChoiceHelper chains, or_else handlers, the closure loop, lookahead matches - and compared with the term an independent reader of the grammar text derives (literals decoded independently, includes expanded under the includer's mode). Any function the lifter cannot interpret is an alarm (UNLIFTABLE). Under the terminal contracts (decided by enumerating 264 scenarios of the matchers' decision trees) and the combinator axioms, equality of terms means the generated parser recognises exactly the PEG language, for all inputs of the analysed grammars. Generator level: literal and range constants reach the output unchanged (or ASCII-lower-cased), parts/choices are visited in order. Entry clause (C01.entry): the friendly entry points hand their own argument to parse_advanced once and return its result unchanged, every generated parse_advanced starts from ParseState::new(its own input), ParseState::new is called nowhere else, and the cursor invariant (shared with C04) holds.",
  "note": TRUST + "Termination is assumed (well-formedness). Grammars outside the analysed set are covered only as far as templates are compositional; the corpus enumerates construct x construct x skip mode.",
 },
 "C17": {
  "category": "translation_validation",
  "technique": "static translation validation of the bootstrap: lifted terms of shipped generated.rs vs grammar.ebnf vs the stage-2 front end generated in the corpus crate",
  "text": "The literal byte fixpoint needs the generator to run twice and is not decided. Decided: the header CRC of the shipped front end equals CRC-32 of grammar.ebnf; all 50 rule functions of the shipped front end lift to the terms grammar.ebnf denotes; the stage-2 front end that the tree's own generator produces from grammar.ebnf (a source file in the corpus crate, type-checked, never executed) lifts to exactly the same 50 terms and declares exactly the same public types. Equal normal forms mean the two front ends read every grammar text, valid or not, to the same structure or the same failure offset.",
  "note": TRUST + "Under C01.prim/C01.ax. Stage 3 and byte identity are not decided.",
 },
 "C02": {
  "category": "translation_validation",
  "technique": "field-name-level lifting of result plumbing from MIR (provenance terms) compared with the provenance the grammar denotes; name-identity rule on rule wrappers; signature/static purity rule",
  "text": "For every rule of every analysed grammar (1134 normal rules) the value its generated body returns is lifted into a provenance term per named field - which field applications feed it, concatenated in which order (first binding, then extends), what each choice arm contributes (value or default), what a failing optional and each successful closure iteration contribute, and which box / enum variant / Some / vec! post-processing is applied - by symbolic evaluation of the success path with extend tracking, closure-map interpretation and the closure-loop recogniser, and compared with the provenance an independent reader of the grammar derives. Wrappers build the public struct by name identity; overrides return the body's value unchanged; @string values are the consumed slice (C09). Purity (signatures, no statics) means abandoned alternatives/iterations/lookaheads can leave no trace except through these tracked values.",
  "note": TRUST + "Under C01 (same functions denote the grammar's structure). I-level on analysed instances; the corpus covers arities from every source, permuted field orders across arms, multi-type and boxed fields, overrides.",
 },
 "C03": {
  "category": "other",
  "technique": "finite-domain evaluation of the arity lattice, per-arity template tables read off quote! pushes, declared-type comparison (rustc-resolved ADTs vs an independent model of the documented mapping), rustc as witness on a corpus",
  "text": "Generator level (all grammars): combine_arities_for_choice equals the join of One<Optional<Multiple on all 9 pairs, set_arity_to_optional/multiple are the documented maps, the per-arity (type wrapper, value wrapper, default) tables form consistent triples, Box/enum wrapping of values is decided by the same merged descriptor as the declaration, no template emits `unsafe`, the 'rule is cached' decision agrees across its three sites. Instance level (1157 rules: workspace + corpus): the item rustc recorded for every rule (alias/unit/struct fields/enum variants with resolved types) equals what an independent model written from the prose derives from the grammar text. Compilation: a corpus of accepted grammars built by the tree's own generator under three settings type-checks under #![forbid(unsafe_code)]; a corpus failure while the repository builds is reported as a violation.",
  "note": TRUST + "'Every accepted grammar compiles' is witnessed on the corpus, not proven. Keywords self/Self/super/crate are known findings (D5).",
 },
 "C11": {
  "category": "other",
  "technique": "semantic summaries (path-sensitive abstract interpretation of MIR) of the line iterator, the line-search predicate, the column search and the format call (template bytes decoded), compared clause by clause with what C11 needs; finite-ordering evaluation of the predicate; narrow lint for unwrap/expect on search results",
  "text": "Decided for all texts and positions, on the code of PrettyParseError::from_parse_error and its line iterator, as long as the printer has the shape 'iterator of line records + find + column search + one format call' (otherwise the clause is reported undecided in the evidence, not as a violation): records are the contiguous half-open ranges [line start, next line start) with a 0-based counter and the line's text (C11.iter); the first record with start <= p < end is chosen, evaluated on all orderings of (start, p, end) (C11.line); the column is the number of characters of that text before byte offset p - start and, at the end of the line, all of them (C11.col); line and column are shown 1-based, the caret is right-aligned, space-filled, in a field of width column, directly below the echoed line and after the same prefix (C11.show); no unwrap/expect on a search result that can be empty for a position 0..=len (C11.found). Two genuine defects found this way (empty text panics; wrong line at line starts / column 1 at line ends) are fixed in /repo. Not decided: terminal display width (tabs, wide characters) - C11 counts characters too.",
  "note": TRUST + "std semantics assumed for Iterator::find/position, char_indices, str::find, format width/alignment (template encoding per library/core/src/fmt/mod.rs of the pinned nightly). Hand argument from the four clauses to C11 in DESIGN.md C11.",
 },
 "C12": {
  "category": "translation_validation",
  "technique": "finite-function extraction (match tables), forward symbolic evaluation of all 32 digit-presence paths of the unicode escape decoder, grammar-of-grammars token-atomicity lint, header CRC",
  "text": "Escape decoding is decided exactly (6 simple escapes against the spellings read from grammar.ebnf; \\xXX = d1*16+d2; unicode escapes = left fold acc*16+digit over present digits on all 32 paths, from_u32 None -> error; HexChar = [0-9a-fA-F]); Rule::flags maps each directive spelling to exactly its flag; the token rules of grammar.ebnf are @no_skip_ws (no skipping inside a token); the shipped front end's header CRC equals CRC-32 of today's grammar.ebnf. The front end's structure (choice loosest, then sequence, then prefix lookaheads; brackets; both quote styles; directive order; Whitespace/Comment before every token of skipping rules) is decided by lifting all 50 rule functions of generated.rs from MIR and comparing them with the terms grammar.ebnf denotes (C12.front). C12.use: every named field of the syntax-tree types generated from grammar.ebnf (36) is read by the generator's own code - a field that is filled and never read is grammar text that is parsed and ignored.",
  "note": TRUST + "That grammar.ebnf denotes the prose of the syntax reference is not decided beyond the token rule.",
 },
 "C13": {
  "category": "translation_validation",
  "technique": "generator-level identity-flow rule (delegation with own arguments), read-set of the include lookup, settings threading",
  "text": "For all grammars: every Codegen method of IncludeRule returns the result of the same method on the included rule's `definition` called with the caller's own arguments; the lookup reads only `name` and `definition` of the found rule (its directives cannot matter); Group delegates identically; settings are handed on unchanged (shared with C08.thread). Hence `>R` and the parenthesised body of R are compiled by the same code with the same inputs. Twin grammars in the corpus (include_a uses >Rule, include_b the parenthesised body at 17 positions: sequence/choice/optional/closure/nested include/lookahead, skipping and non-skipping includers, @position/@memoize includers) lift to identical terms and declare identical types.",
  "note": TRUST + "Equality of the two generated parsers on all inputs is argued from identical generation, not tested.",
 },
 "C18": {
  "category": "other",
  "technique": "dominance of file mutations by success edges, control dependence of the up-to-date shortcut, propagation of fallible steps",
  "text": "Freshness over histories is NOT decided. Decided are necessary structural clauses of Compile::run_on_single_file / run_recursively: the only file-mutating call is dominated by the success of Grammar::from_str and generate_code and nothing else in the crate mutates files; the early return is control-dependent on equality of the destination's leading bytes with a value data-dependent on grammar text and prefix, and the written bytes start with that same value; all fallible steps are ?-propagated; directory mode calls the same routine for .ebnf entries and propagates. The header's digest is fed the whole grammar text in one piece (a digest over lines / a trimmed or normalised view is a violation).",
  "note": TRUST + "One history class IS decided structurally: a key that ends in the raw prefix and is compared over len(key) bytes cannot notice a shortened prefix (C18.key prefix-not-delimited; true on this tree = known finding D13). Other histories (CRC collisions, settings not in the key) are out of reach and documented in DESIGN.md §4.",
 },
 "C04": {
  "category": "other",
  "technique": "unsafe-precondition discharge from dominating path conditions (MIR), who-may-call, constructor/cursor invariant, panic inventory",
  "text": "Sound for all inputs: the only unsafe operations in the runtime are the unchecked slice in the unsafe cursor-advance fn and the 9 terminal-matcher calls to it; at each call the length is proven from the dominating branch conditions to be the UTF-8 length of a matched prefix of the same state variable (no redefinition in between); ParseState is only built by new/advance*/clone moving start_index and partial_string by the same amount; insensitive matchers only ever receive lower-case ASCII constants (instances) and the generator selects them only under a successful is_ascii test emitting the lower-cased literal (for all grammars); generated code has no unsafe block/call; every panic-capable construct reachable from generated parsers is discharged by a guard, another rule or a reasoned table entry.",
  "note": TRUST + "std semantics of starts_with/len_utf8/is_ascii*/to_ascii_lowercase/chars().next() are axioms. Extern functions must return in-range boundary lengths (checked advance panics otherwise, never UB). Stack depth excluded by the property.",
 },
 "C05": {
  "category": "other",
  "technique": "dataflow identities over MIR of cached wrappers (key/value/ownership) + read-set rule for error payloads",
  "text": "Decides the structural clauses whose conjunction is memo transparency: every get/insert key is cache_key(entry state) and cache_key is the absolute offset; cache fields are private to their wrapper and never evicted; a miss stores a clone of exactly the returned value and a hit returns a clone of exactly the stored value (result + resumed state); every parse_advanced starts from an empty cache; error payloads are only moved, folded or displayed. The transparency statement itself (same tree with/without @memoize) is argued from these clauses plus purity (C20), not computed for particular grammars. Also: the constructor ParseState::new is called by the parse_advanced entry points only (the key is an absolute offset), and no function modifies a field of ParseGlobal that is not one of its type parameters (nothing but the cache carries state from one rule evaluation to the next).",
  "note": TRUST + "User hooks assumed pure (stated in the property). I-level on the analysed wrappers.",
 },
 "C07": {
  "category": "other",
  "technique": "loop rule (seed dominance, guarded cyclic paths, exit value) over MIR of @leftrec wrappers + finite-domain evaluation of the progress test",
  "text": "For every analysed @leftrec wrapper and all inputs: a sentinel failure is stored under the entry key before the first body evaluation; every cyclic path of the growth loop re-stores a new best result guarded by is_further_than(new.state, best.state) or by (new Ok, best Err); every exit returns the best result as last stored; is_further_than is decided strict over the 3 orderings of two offsets. Hence the loop terminates after at most input-length+2 iterations given a terminating body. The shape of the grown tree (left nesting) is not decided here. Every rule the analysed grammars mark @leftrec (64) has the growing wrapper whatever other directives it carries; an exit replaces the best result only on a path where it is a failure (a rejected growth step keeps the accepted match); what a trip stores last is the best result it ends with.",
  "note": TRUST + "Termination of the rule body is the property's well-formedness assumption.",
 },
 "C20": {
  "category": "other",
  "technique": "item/type/effect rules: no statics, Freeze field types, per-call construction of ParseGlobal, sink allow-list over the call graph",
  "text": "Purity and schedule independence decided structurally: no static/thread_local in the runtime or any generated module; no interior mutability in any parse data type (runtime and 553 generated fields); all 119 parse_advanced impls build ParseState/ParseGlobal locally and lend only a borrow; no call reachable from generated parsers (7000+ call sites) enters env/fs/time/thread/sync/process APIs or I/O outside tracer/error display. By Rust's aliasing rules a parse then reads only its arguments and writes only its own stack object.",
  "note": TRUST + "User hooks are outside (assumed pure by the property); std collections are trusted to have no observable global state.",
 },
 "C06": {
  "category": "other",
  "technique": "must-pass-through / dominance rules over MIR of generated memo wrappers",
  "text": "Decides on every CFG path of every analysed @memoize wrapper that a cache miss is followed by an insert under the lookup key before any normal return, that nothing else runs before the lookup, that the hit path only clones, and that nothing else touches or evicts the cache field. Sound for all inputs of the analysed wrappers (27 test grammars, bootstrap parser, macro test; corpus in thorough); the wrapper template is one per rule kind x directive set. A hit path calls no user function; @leftrec wrappers and methods of ParseCache may not evict or touch other rules' entries.",
  "note": TRUST + "I-level verdict: covers the analysed generated instances; generalises to all grammars only as far as the wrapper template is compositional.",
 },
 "C08": {
  "category": "other",
  "technique": "generator-level dataflow (flag read/write sets, settings threading), quote!-template reconstruction from MIR, finite-domain truth table; instance-level continuation rule",
  "text": "For all grammars (rules on the generator's own code): the per-rule flag is Default=true or `settings.skip_whitespace && !flags.no_skip_ws` (4-row truth table) and is read only by the rule generator and the skip helper; all 88 settings hand-overs pass exactly the received settings (rule generator: the derived per-rule value), so nested constructs and included bodies inherit the enclosing/including rule's mode; atom parser names reach the output only through the skip helper (enumerated exceptions: @char alternatives, rule fn definitions); the helper's two templates are reconstructed token-by-token; a skipping Whitespace rule is rejected. Runtime: the builtin class is exactly {9,10,12,13,32}. Instances (259 rules): each atom is exactly the continuation of one skip from the skipper's state, or the rule contains no skip at all; a grammar-defined Whitespace shadows the builtin.",
  "note": TRUST + "quote!/proc_macro2 push_* semantics trusted. Which rules are @no_skip_ws is taken from the generated code's shape in quick tier and compared with the grammar text in thorough.",
 },
 "C09": {
  "category": "other",
  "technique": "dataflow identity rules over MIR (closure-capture resolution) for range/slice measurement + runtime identities",
  "text": "For every analysed @position/@string wrapper: the range and the string slice are range_until/slice_until(entry state of the rule, state of the body's Ok), taken inside the map_with_state callback of the body evaluated from a clone of that same entry state, and stored unchanged in `position`; the runtime functions are exactly start_index..start_index, partial_string[..difference] and state-preserving maps; PegPosition returns the stored range or delegates per variant. Byte exactness follows from the cursor invariant (C04); 'after the caller's whitespace' from C08. The caller-side whitespace skip (C09.skip, shared with C08.inst) and the entry clause (C09.entry: offsets refer to the string the caller passed) are checked under C09 as well.",
  "note": TRUST + "Nesting/order of ranges follows from state threading (C01) and is not separately decided.",
 },
 "C10": {
  "category": "other",
  "technique": "error-discipline (must-consume) path analysis over MIR of generated code and runtime + finite-domain evaluation of record_error",
  "text": "On every path of every generated function and runtime helper each ParseResult/ParseError value is returned, ?-propagated, passed to a modelled combinator, or folded into the surviving state with record_error; drops are accepted only by role (negative lookahead, @char alternatives at the same offset, left-recursion arms). record_error is decided over {None, <, =, >} to keep the larger-or-equal position; report_error/report_farthest_error build errors at the state's own offset; ChoiceHelper folds every failed alternative and runs an alternative only while no result is set; terminal matchers report on the unadvanced entry state; @leftrec exits cannot return the seed sentinel. The concrete furthest offset for a given input is the composition of these clauses; it is not computed.",
  "note": TRUST + "Which state survives a construct (state threading) is C01's subject.",
 },
 "C14": {
  "category": "other",
  "technique": "structural rules on hook call sites in generated wrappers (argument provenance, dominance of Ok returns by check successes) + generator field read/write sets",
  "text": "For every analysed rule with hooks and all inputs: each @check is called on a reference to the final rule value (the one returned in Ok) plus the user context iff configured, every Ok return is dominated by the true edge of every check, a false check returns an ordinary Err reported on the value's own state; @char checks run on the next character of the entry state and dominate all alternatives; @extern functions receive s(entry) and Ok((r,n))/Err(e) map to r.into()+advance_safe(entry,n) / the extern error on the entry state. Generator: has_user_context has exactly the expected writers and both hook templates read it.",
  "note": TRUST + "I-level on the analysed instances (6 check sites, 1 @char check, 3 externs in the workspace; corpus in thorough).",
 },
 "C15": {
  "category": "other",
  "technique": "must-pass-through on tool entry points, control-dependence of error returns on restriction facts, sibling agreement of flag reads, panic inventory, identifier-sink classification via format templates, call-graph SCCs",
  "text": "Decides structurally: (exit) on the Err edge of the tools' entry points every path reaches a non-zero exit, Compile::run returns the inner result, no fallible call result (78 tracked) is ignored; (restrict) each of the 12 documented restrictions has an error return control-dependent on its defining facts; (cached) the three sites deciding 'rule is cached' read the same flags; (panic) all 23 panic-capable constructs reachable from the compiler entry points are discharged by a reasoned entry; (ident) identifier constructors are safe where the format template starts with a literal identifier prefix, others are reported; (rec) recursion through by-name lookups needs a cycle guard. Three genuine defects were repaired (D2 exit status, D3 @leftrec without Clone - fix commits in /repo), three are recorded as known findings (D5 unvalidated identifiers/keywords, D6 include cycle, D7 recursion depth). The reasoned table of panic sites is backed by local proofs where the reason is local (rules/guards.py: 9 of 12 constant-index accesses are proved from the tests their own function makes; the child-sorting closures of generate_code_spec send an Err child to the side generated with `?`).",
  "note": TRUST + "'never hangs' beyond absence of unguarded by-name recursion is not decided. Known findings in /verif/known_findings.json are matched by exact key.",
 },
 "C16": {
  "category": "other",
  "technique": "type-resolved scan for unordered-container iteration and nondeterminism sources over the generator's call graph; identity-flow rule on the three integration routes",
  "text": "Determinism is argued from the absence of its only possible causes in the generator's own code, decided over every call (4821) and every function reachable from generate_code/from_str/generate_source_header (540): no iteration over HashMap/HashSet, no such container stored in a generator data structure, no time/env/random/id/address source; and route independence from an identity-flow rule: cli, build helper and macro parse the unmodified text, call the single entry point with default(+derives) settings and emit its Display/token stream unchanged. No state outlives a call (no thread_local / static mut / static with interior mutability in generator, macro, CLI), and every builder method of Compile leaves the fields it is not about unchanged (the order of builder calls cannot matter).",
  "note": TRUST + "Determinism of dependencies (proc_macro2, quote, crc) is assumed; BUILD_TIME is a compile-time constant of the generator build.",
 },
 "C19": {
  "category": "other",
  "technique": "dominance/post-dominance pairing rule over generated rule functions + effect/type rules on tracer",
  "text": "For every generated rule function (all inputs, all paths): exactly one trace entry dominates and exactly one trace exit post-dominates all work and every normal return, neither in a loop, no trace entry/exit anywhere else in generated code, and the traced value is the returned value. Runtime tracer counters move only +c in entry and -c in exit, so with the pairing the counter cannot underflow. Non-interference is decided by types: tracer methods return (), take parse data by shared reference, parse data has no interior mutability and global.tracer is only ever a method receiver.",
  "note": TRUST + "I-level for pairing (259 wrappers on the pinned tree, floor enforced); R-level for the counter and the type argument. User-supplied ParseTracer implementations are outside.",
 },
}

_PENDING = "check not built yet in this round (design in DESIGN.md §3); no verdict is claimed until it is"
NOT_APPLICABLE = {}
