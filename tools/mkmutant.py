#!/usr/bin/env python3
"""mkmutant.py NAME --sub FILE OLD NEW [--sub ...] --expect C19=C19.pair[,..] [--silent C06] [--preserving] [--descr TEXT]
Creates /verif/mutants/NAME.patch (unified diff against /repo) and registers it in index.json."""
import difflib, json, os, sys
VERIF = os.path.dirname(os.path.dirname(os.path.abspath(__file__)))
REPO = "/repo"
a = sys.argv[1:]
name = a[0]
subs, expect, silent, descr, preserving, count = [], {}, [], "", False, None
i = 1
while i < len(a):
    if a[i] == "--sub":
        subs.append((a[i+1], a[i+2], a[i+3])); i += 4
    elif a[i] == "--expect":
        pid, rules = a[i+1].split("="); expect[pid] = rules.split(","); i += 2
    elif a[i] == "--silent":
        silent.append(a[i+1]); i += 2
    elif a[i] == "--descr":
        descr = a[i+1]; i += 2
    elif a[i] == "--preserving":
        preserving = True; i += 1
    else:
        raise SystemExit("bad arg " + a[i])
files = {}
for f, old, new in subs:
    src = files.get(f) or open(os.path.join(REPO, f)).read()
    if src.count(old) != 1:
        raise SystemExit("%s: pattern occurs %d times: %r" % (f, src.count(old), old))
    files[f] = src.replace(old, new)
patch = ""
for f, new in files.items():
    old = open(os.path.join(REPO, f)).read()
    patch += "".join(difflib.unified_diff(old.splitlines(True), new.splitlines(True), "a/" + f, "b/" + f))
open(os.path.join(VERIF, "mutants", name + ".patch"), "w").write(patch)
idxp = os.path.join(VERIF, "mutants", "index.json")
idx = json.load(open(idxp))
idx = [c for c in idx if c["name"] != name]
idx.append({"name": name, "patch": name + ".patch", "descr": descr, "expect": expect,
            "checks": sorted(set(list(expect) + silent)), "preserving": preserving})
idx.sort(key=lambda c: c["name"])
json.dump(idx, open(idxp, "w"), indent=1)
print("mutant", name, "registered;", len(patch.splitlines()), "patch lines")
