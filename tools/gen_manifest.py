#!/usr/bin/env python3
"""Regenerates /verif/MANIFEST.json from the table in manifest_table.py and validates it."""
import json, os, sys
HERE = os.path.dirname(os.path.abspath(__file__))
VERIF = os.path.dirname(HERE)
sys.path.insert(0, HERE)
import manifest_table as T

props = [json.loads(l)["id"] for l in open(os.path.join(VERIF, "properties.jsonl"))]
checks = []
for pid in props:
    c = T.CHECKS.get(pid)
    if not c:
        continue
    checks.append({
        "property_id": pid,
        "quick_cmd": "./check %s --tier quick" % pid,
        "thorough_cmd": "./check %s --tier thorough" % pid,
        "evidence_file": "/verif/evidence/%s.json" % pid,
        "replay_cmd_template": "./check %s --explain {path}" % pid,
        "engine": "pegmir+pegv",
        "level_claimed": {"category": c["category"], "text": c["text"], "design_ref": c.get("design_ref", "DESIGN.md §3 " + pid)},
        "level_note": c["note"],
        "technique": c["technique"],
    })
na = [{"property_id": pid, "reason": T.NOT_APPLICABLE[pid]} for pid in props if pid not in T.CHECKS]
for pid in props:
    assert (pid in T.CHECKS) != (pid in T.NOT_APPLICABLE), pid
m = {
    "version": 1,
    "setup_cmd": "cd /verif/engine/pegmir && CARGO_NET_OFFLINE=true cargo build --release --offline",
    "hooks": {
        "guard": "peginator_verif",
        "enable": "none needed: static analysis reads /repo's tree as it is; the guard name is reserved and no source commit uses it",
        "baseline_off_cmd": "cd /repo && cargo test --workspace --no-fail-fast --offline",
        "source_commits": [],
        "add_only": True,
    },
    "engines": [
        {"name": "pegmir", "path": "/verif/engine/pegmir", "serves_properties": [c["property_id"] for c in checks],
         "kind_free_text": "rustc_private driver (RUSTC_WORKSPACE_WRAPPER under cargo +nightly check of a scratch copy of /repo): extracts MIR, resolved callees, constants, ADTs, statics, unsafe blocks as JSON facts"},
        {"name": "pegv", "path": "/verif/pegv", "serves_properties": [c["property_id"] for c in checks],
         "kind_free_text": "Python rule library over the facts: CFG/dominator/must-pass-through rules, expression reconstruction, path conditions, finite-domain evaluation, quote!-template reconstruction, call graph, panic inventory"},
    ],
    "checks": checks,
    "not_applicable": na,
    "notes": T.NOTES,
}
with open(os.path.join(VERIF, "MANIFEST.json"), "w") as f:
    json.dump(m, f, indent=1)
    f.write("\n")
try:
    import jsonschema
    jsonschema.validate(m, json.load(open("/root/.vp/MANIFEST.schema.json")))
    print("MANIFEST.json valid: %d checks, %d not_applicable" % (len(checks), len(na)))
except ImportError:
    print("jsonschema not importable with this python; run with python3-vt to validate")
