#!/usr/bin/env python3
"""verify_seed.py <dir-with-SEED> <demo test filter>     (env DEMOCMD overrides the demo command)
Independent confirmation of a seeded change in a fresh scratch worktree of /repo HEAD:
 1. demo only   -> demo command must PASS
 2. patch only  -> the repository's own suite must PASS (no failed test, exit 0)
 3. demo+patch  -> demo command must FAIL (failing tests or a compile error)
Prints a JSON summary.  The scratch worktree and its target dir are removed afterwards."""
import json, os, re, shutil, subprocess, sys, tempfile

src = sys.argv[1].rstrip("/")
flt = sys.argv[2]
seed = os.path.join(src, "SEED") if os.path.isdir(os.path.join(src, "SEED")) else src
wt = tempfile.mkdtemp(prefix="seedchk-")
os.rmdir(wt)
subprocess.check_call(["git", "-C", "/repo", "worktree", "add", "-q", "--detach", wt, "HEAD"])
env = dict(os.environ, CARGO_TARGET_DIR=os.path.join(wt, "target"), CARGO_NET_OFFLINE="true")
res = {}
democmd = os.environ.get("DEMOCMD") or ("cargo test --offline -p peginator_test %s" % flt)
def run(cmd):
    p = subprocess.run(cmd, cwd=wt, env=env, shell=True, stdout=subprocess.PIPE, stderr=subprocess.STDOUT, text=True)
    return p.returncode, p.stdout
def counts(out):
    ok = sum(int(m.group(1)) for m in re.finditer(r"test result: \w+\. (\d+) passed", out))
    bad = sum(int(m.group(1)) for m in re.finditer(r"test result: \w+\. \d+ passed; (\d+) failed", out))
    return ok, bad
try:
    demo_diff = os.path.join(seed, "demo", "demo.diff")
    patch = os.path.join(seed, "patch.diff")
    # 1. demo only
    rc, out = run("git apply %s" % demo_diff)
    res["demo_applies"] = rc == 0
    run("rm -f test/src/*/grammar.rs")
    rc, out = run(democmd + " 2>&1")
    ok, bad = counts(out)
    res["demo_without_patch"] = {"passed": ok, "failed": bad, "rc": rc}
    # 2. patch only
    run("git apply -R %s" % demo_diff)
    run("git status --porcelain | grep '^??' | awk '{print $2}' | grep -v '^target' | xargs -r rm -rf")
    rc, out = run("git apply %s" % patch)
    res["patch_applies"] = rc == 0
    run("rm -f test/src/*/grammar.rs")
    rc, out = run("cargo test --offline --workspace --no-fail-fast 2>&1")
    ok, bad = counts(out)
    res["suite_with_patch"] = {"passed": ok, "failed": bad, "rc": rc}
    # 3. demo + patch
    rc0, out0 = run("git apply %s" % demo_diff)
    run("rm -f test/src/*/grammar.rs")
    rc, out = run(democmd + " 2>&1")
    ok, bad = counts(out)
    failed = sorted(set(re.findall(r"^test (\S+) \.\.\. FAILED", out, re.M)))
    res["demo_with_patch"] = {"passed": ok, "failed": bad, "rc": rc, "failed_tests": failed[:10], "compile_error": bool(re.search(r"^error(\[E\d+\])?:", out, re.M)) and not failed}
    res["confirmed"] = bool(res["demo_applies"] and res["patch_applies"]
                            and res["demo_without_patch"]["rc"] == 0 and res["demo_without_patch"]["passed"] > 0
                            and res["suite_with_patch"]["rc"] == 0 and res["suite_with_patch"]["failed"] == 0 and res["suite_with_patch"]["passed"] >= 65
                            and res["demo_with_patch"]["rc"] != 0)
finally:
    subprocess.call(["git", "-C", "/repo", "worktree", "remove", "--force", wt])
    shutil.rmtree(wt, ignore_errors=True)
print(json.dumps(res, indent=1))
